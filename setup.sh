#!/usr/bin/env bash
# MANIFEST.setup_cmd: offline cold build of every check binary in both configurations.
set -eu
ROOT="$(cd "$(dirname "$0")" && pwd)"
cd "$ROOT/harness"
export CARGO_NET_OFFLINE=true
CARGO_TARGET_DIR="$ROOT/harness/target-unsync" cargo build --release --offline --bins
if [ -f src/bin/c19.rs ]; then
  CARGO_TARGET_DIR="$ROOT/harness/target-sync" cargo build --release --offline --no-default-features --features sync --bin c19_miri || true
  CARGO_TARGET_DIR="$ROOT/harness/target-sync" cargo build --release --offline --no-default-features --features sync --bin c19
fi
mkdir -p "$ROOT/evidence" "$ROOT/replays"
echo setup-ok
