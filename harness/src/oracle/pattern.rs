//! Independent reference for ABP/uBO pattern semantics (property C02), written from the property
//! text. No code shared with /repo.

use super::Tri;

#[derive(Clone, Copy, Debug, PartialEq, Eq)]
pub enum El {
    Lit(u8),
    Star,
    Caret,
}

#[derive(Clone, Copy, Debug, PartialEq, Eq)]
pub enum Left {
    None,
    Pipe,
    Host,
}

#[derive(Clone, Debug)]
pub struct Pat {
    pub left: Left,
    pub right: bool,
    pub body: Vec<El>,
}

/// Parses `[|| or |] body [|]` of the restricted grammar (no options, no backslashes).
pub fn parse(rule: &str) -> Pat {
    let mut s = rule;
    let left = if let Some(r) = s.strip_prefix("||") {
        s = r;
        Left::Host
    } else if let Some(r) = s.strip_prefix('|') {
        s = r;
        Left::Pipe
    } else {
        Left::None
    };
    let right = if !s.is_empty() && s.ends_with('|') {
        s = &s[..s.len() - 1];
        true
    } else {
        false
    };
    let body = s
        .bytes()
        .map(|b| match b {
            b'*' => El::Star,
            b'^' => El::Caret,
            c => El::Lit(c.to_ascii_lowercase()),
        })
        .collect();
    Pat { left, right, body }
}

/// "The separator character is anything but a letter, a digit, or one of _ - . %".
pub fn is_sep(b: u8) -> bool {
    !(b.is_ascii_alphanumeric() || b == b'_' || b == b'-' || b == b'.' || b == b'%')
}

/// Do `els` match `text` starting exactly at `i` (and, if `to_end`, ending exactly at the end)?
pub fn match_here(els: &[El], text: &[u8], i: usize, to_end: bool) -> bool {
    match els.first() {
        None => !to_end || i == text.len(),
        Some(El::Lit(c)) => {
            i < text.len()
                && text[i].to_ascii_lowercase() == *c
                && match_here(&els[1..], text, i + 1, to_end)
        }
        Some(El::Star) => (i..=text.len()).any(|j| match_here(&els[1..], text, j, to_end)),
        Some(El::Caret) => {
            if i < text.len() && is_sep(text[i]) && match_here(&els[1..], text, i + 1, to_end) {
                return true;
            }
            // "... or the end of the URL when it is last"
            els.len() == 1 && i == text.len()
        }
    }
}

/// Splits a `||` body into (host text, remainder).
pub fn split_host(body: &[El]) -> (Vec<u8>, &[El]) {
    let mut h = vec![];
    for (k, e) in body.iter().enumerate() {
        match e {
            El::Lit(c) if *c != b'/' => h.push(*c),
            _ => return (h, &body[k..]),
        }
    }
    (h, &body[body.len()..])
}

pub struct Url<'a> {
    pub text: &'a [u8],
    pub host_start: usize,
    pub host_end: usize,
}

/// The reference verdict.
pub fn reference(p: &Pat, u: &Url) -> Tri {
    match p.left {
        Left::None => {
            Tri::Must((0..=u.text.len()).any(|i| match_here(&p.body, u.text, i, p.right)))
        }
        Left::Pipe => Tri::Must(match_here(&p.body, u.text, 0, p.right)),
        Left::Host => {
            let (h, rest) = split_host(&p.body);
            if h.is_empty() || h[0] == b'.' {
                return Tri::Unspec;
            }
            if p.right && rest.is_empty() {
                // `||host|`: this code base reads it as "hostname ends with host", ABP as "URL ends
                // right after host"; the property does not pin it.
                return Tri::Unspec;
            }
            let host = &u.text[u.host_start..u.host_end];
            let mut abp = false;
            let mut strict = false;
            if h.len() <= host.len() {
                for pos in 0..=(host.len() - h.len()) {
                    if pos != 0 && host[pos - 1] != b'.' {
                        continue;
                    }
                    if !host[pos..pos + h.len()]
                        .iter()
                        .zip(h.iter())
                        .all(|(a, b)| a.to_ascii_lowercase() == *b)
                    {
                        continue;
                    }
                    let after = u.host_start + pos + h.len();
                    if !match_here(rest, u.text, after, p.right) {
                        continue;
                    }
                    abp = true;
                    let end = pos + h.len();
                    let boundary = end == host.len()
                        || host[end] == b'.'
                        || *h.last().unwrap() == b'.'
                        || matches!(rest.first(), Some(El::Star));
                    if boundary {
                        strict = true;
                    }
                }
            }
            if abp == strict {
                Tri::Must(abp)
            } else {
                Tri::Unspec
            }
        }
    }
}

/// Degenerate spellings that the property excludes from the equality clause.
pub fn is_degenerate(rule: &str, p: &Pat) -> bool {
    let b = &p.body;
    if b.is_empty() {
        return true;
    }
    if matches!(b.first(), Some(El::Star)) || matches!(b.last(), Some(El::Star)) {
        return true;
    }
    if b.windows(2).any(|w| {
        (w[0] == El::Star && w[1] == El::Star) || (w[0] == El::Caret && w[1] == El::Caret)
    }) {
        return true;
    }
    // a body that itself starts and ends with '/' is a full regex
    let body_txt = body_text(rule);
    if body_txt.len() > 1 && body_txt.starts_with('/') && body_txt.ends_with('/') {
        return true;
    }
    if p.left == Left::Host && p.right {
        // `||host...^|` and `||host*...|`
        let (_, rest) = split_host(b);
        if matches!(b.last(), Some(El::Caret)) {
            return true;
        }
        if matches!(rest.first(), Some(El::Star)) {
            return true;
        }
    }
    rule.contains('\\')
}

pub fn body_text(rule: &str) -> &str {
    let mut s = rule;
    if let Some(r) = s.strip_prefix("||") {
        s = r;
    } else if let Some(r) = s.strip_prefix('|') {
        s = r;
    }
    if !s.is_empty() && s.ends_with('|') {
        s = &s[..s.len() - 1];
    }
    s
}
