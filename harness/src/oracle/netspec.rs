//! Reference combiner for the network verdict (properties C01, C04, C13, C14, C15), written from
//! the property texts. The per-rule question "does this rule match this request" is asked of the
//! real public matcher (that is the differential half of C01); everything else — badfilter
//! cancellation, tag activity, precedence, redirect selection, removeparam rewriting, CSP set
//! algebra — is computed here, independently of the engine's buckets and lists.

use adblock::filters::network::{NetworkFilter, NetworkFilterMaskHelper, NetworkMatchable};
use adblock::lists::{parse_filter, ParsedFilter};
use adblock::regex_manager::RegexManager;
use adblock::request::{Request, RequestType};
use std::collections::{BTreeSet, HashSet};

use crate::net::{opts_hosts, opts_std};

/// One resource of the reference resource store.
#[derive(Clone, Debug)]
pub struct ResSpec {
    pub name: &'static str,
    pub aliases: &'static [&'static str],
    pub mime: Option<&'static str>, // None = template
    pub content_b64: String,
    pub permission: u8,
    pub redirectable_kind: bool,
}

/// Mirror of `vh::net::std_resources()` as plain data (names, aliases, kinds, permissions).
pub fn std_res_spec() -> Vec<ResSpec> {
    use crate::net::b64;
    vec![
        ResSpec { name: "a", aliases: &["a-alias"], mime: Some("image/gif"), content_b64: b64("GIF89a"), permission: 0, redirectable_kind: true },
        ResSpec { name: "b", aliases: &[], mime: Some("application/javascript"), content_b64: b64("(function(){})()"), permission: 0, redirectable_kind: true },
        ResSpec { name: "perm", aliases: &[], mime: Some("application/javascript"), content_b64: b64("perm()"), permission: 1, redirectable_kind: true },
        // a resource whose name contains the priority separator
        ResSpec { name: "ns:a", aliases: &[], mime: Some("text/plain"), content_b64: b64("ns-a"), permission: 0, redirectable_kind: true },
        ResSpec { name: "fn", aliases: &[], mime: Some("fn/javascript"), content_b64: b64("function fn(){}"), permission: 0, redirectable_kind: false },
        ResSpec { name: "tpl", aliases: &[], mime: None, content_b64: b64("tpl({{1}})"), permission: 0, redirectable_kind: false },
        ResSpec { name: "bin", aliases: &[], mime: Some("application/octet-stream"), content_b64: "//4A".to_string(), permission: 0, redirectable_kind: true },
        ResSpec { name: "vid", aliases: &[], mime: Some("video/mp4"), content_b64: "AAH/gA==".to_string(), permission: 0, redirectable_kind: true },
        // (a first `corrupt`, a gif whose content is not base64, is refused together with its alias)
        ResSpec { name: "corrupt", aliases: &[], mime: Some("text/plain"), content_b64: b64("ok"), permission: 0, redirectable_kind: true },
        // (the store is fed four more resources - `bad`, a first `bad2`, `a-alias`, `bad3` - whose
        // aliases or names collide with a loaded identifier: they are not loaded and leave nothing behind)
        ResSpec { name: "s1x", aliases: &[], mime: Some("text/plain"), content_b64: b64("s1x"), permission: 0, redirectable_kind: true },
        ResSpec { name: "bad2", aliases: &[], mime: Some("text/plain"), content_b64: b64("bad2"), permission: 0, redirectable_kind: true },
    ]
}

/// "the data-URL of the resource ... provided the resource is loaded, is of a redirectable kind
/// and requires no permission; otherwise there is no redirect."
pub fn serve_redirect(store: &[ResSpec], name: &str) -> Option<String> {
    let r = store
        .iter()
        .find(|r| r.name == name || r.aliases.iter().any(|a| *a == name))?;
    if r.permission != 0 || !r.redirectable_kind {
        return None;
    }
    let mime = r.mime?;
    Some(format!("data:{};base64,{}", mime, r.content_b64))
}

/// A parsed rule of the list under test.
pub struct Rule {
    pub text: String,
    pub hosts_format: bool,
    /// boxed: compiled regexes are cached under the filter's address, which must stay put
    pub f: Box<NetworkFilter>,
    /// this rule's private regex manager (never shared with another filter)
    pub rm: std::cell::RefCell<RegexManager>,
}

/// Parses the network rules of a list exactly as the engine's loader would see them (lines that
/// fail to parse, and cosmetic lines, are dropped).
pub fn parse_rules(std_rules: &[&str], hosts_lines: &[&str]) -> Vec<Rule> {
    let mut out = vec![];
    for (lines, hosts) in [(std_rules, false), (hosts_lines, true)] {
        for t in lines {
            let o = if hosts { opts_hosts() } else { opts_std() };
            if let Ok(ParsedFilter::Network(f)) = parse_filter(t, true, o) {
                let mut rm = RegexManager::default();
                rm.set_discard_policy(adblock::regex_manager::RegexManagerDiscardPolicy {
                    cleanup_interval: std::time::Duration::ZERO,
                    discard_unused_time: std::time::Duration::from_secs(3600),
                });
                out.push(Rule { text: t.to_string(), hosts_format: hosts, f: Box::new(f), rm: std::cell::RefCell::new(rm) });
            }
        }
    }
    out
}

/// Tag of a rule, read from its text (the field is crate-private).
pub fn tag_of(text: &str) -> Option<String> {
    let opts = text.rsplit_once('$')?.1;
    for o in opts.split(',') {
        if let Some(t) = o.strip_prefix("tag=") {
            return Some(t.to_string());
        }
    }
    None
}

/// Rules that take part at all: not a badfilter, not cancelled by a badfilter twin, tag enabled.
pub fn active_rules_by_text<'a>(rules: &'a [Rule], tags: &HashSet<String>) -> Vec<&'a Rule> {
    let bad: HashSet<u64> = rules
        .iter()
        .filter(|r| r.f.is_badfilter())
        .map(|r| r.f.get_id_without_badfilter())
        .collect();
    rules
        .iter()
        .filter(|r| !r.f.is_badfilter() && !bad.contains(&r.f.get_id()))
        .filter(|r| tag_of(&r.text).map(|t| tags.contains(&t)).unwrap_or(true))
        .collect()
}

pub fn rule_matches(r: &Rule, req: &Request) -> bool {
    r.f.matches(req, &mut r.rm.borrow_mut())
}

#[derive(Clone, Debug, PartialEq, Eq)]
pub enum Expect<T> {
    Is(T),
    OneOf(Vec<T>),
    Unspec,
}

impl<T: PartialEq + Clone> Expect<T> {
    pub fn accepts(&self, got: &T) -> bool {
        match self {
            Expect::Is(x) => x == got,
            Expect::OneOf(v) => v.iter().any(|x| x == got),
            Expect::Unspec => true,
        }
    }
    pub fn is_unspec(&self) -> bool {
        matches!(self, Expect::Unspec)
    }
}

#[derive(Clone, Debug)]
pub struct SpecVerdict {
    // (see `any_unspec`)
    pub matched: Expect<bool>,
    pub important: Expect<bool>,
    pub exception: Expect<bool>,
    pub redirect: Expect<Option<String>>,
    pub rewritten: Expect<Option<String>>,
    /// how many rules of the list match the request (non-triviality)
    pub hits: usize,
}

impl SpecVerdict {
    pub fn any_unspec(&self) -> bool {
        self.matched.is_unspec() || self.important.is_unspec() || self.exception.is_unspec() || self.redirect.is_unspec() || self.rewritten.is_unspec()
    }
}

/// Splits `value[:priority]` as the property describes: the suffix counts only if it parses as an
/// integer, otherwise the whole value is the resource name with priority 0.
pub fn split_priority(v: &str) -> (&str, i32) {
    if let Some(i) = v.rfind(':') {
        if let Ok(p) = v[i + 1..].parse::<i32>() {
            return (&v[..i], p);
        }
    }
    (v, 0)
}

/// Redirect selection (C13). `cands` = option values of matching redirect / redirect-rule rules,
/// `excs` = option values of matching redirect exceptions.
pub fn spec_redirect(cands: &[String], excs: &[String], store: &[ResSpec]) -> Expect<Option<String>> {
    // an exception naming the same resource with a different spelling of the priority suffix is
    // not pinned by the property ("for the same resource")
    for c in cands {
        for e in excs {
            if c != e && split_priority(c).0 == split_priority(e).0 {
                return Expect::Unspec;
            }
        }
    }
    let live: Vec<&String> = cands.iter().filter(|c| !excs.contains(c)).collect();
    if live.is_empty() {
        return Expect::Is(None);
    }
    let max = live.iter().map(|c| split_priority(c).1).max().unwrap();
    let mut outs: Vec<Option<String>> = live
        .iter()
        .filter(|c| split_priority(c).1 == max)
        .map(|c| serve_redirect(store, split_priority(c).0))
        .collect();
    outs.dedup();
    if outs.len() == 1 {
        Expect::Is(outs.pop().unwrap())
    } else {
        Expect::OneOf(outs)
    }
}

/// removeparam surgery (C14): `names` = parameters of the matching removeparam rules.
pub fn spec_removeparam(url: &str, names: &[String]) -> Option<String> {
    let (head, fragment) = match url.find('#') {
        Some(i) => (&url[..i], &url[i..]),
        None => (url, ""),
    };
    let (base, query) = match head.find('?') {
        Some(i) => (&head[..i], &head[i + 1..]),
        None => return None,
    };
    let mut removed = false;
    let kept: Vec<&str> = query
        .split('&')
        .filter(|p| {
            if let Some((k, v)) = p.split_once('=') {
                if !v.is_empty() && names.iter().any(|n| n == k) {
                    removed = true;
                    return false;
                }
            }
            true
        })
        .collect();
    if !removed {
        return None;
    }
    let q = kept.join("&");
    Some(if q.is_empty() {
        format!("{}{}", base, fragment)
    } else {
        format!("{}?{}{}", base, q, fragment)
    })
}

/// CSP set algebra (C15). `csp` = (directive, is_exception) of matching active csp rules.
pub fn spec_csp(req: &Request, csp: &[(Option<String>, bool)]) -> Option<BTreeSet<String>> {
    if req.request_type != RequestType::Document && req.request_type != RequestType::Subdocument {
        return None;
    }
    if csp.iter().any(|(d, exc)| *exc && d.is_none()) {
        return None;
    }
    let disabled: BTreeSet<&String> = csp.iter().filter(|(_, e)| *e).filter_map(|(d, _)| d.as_ref()).collect();
    let enabled: BTreeSet<String> = csp
        .iter()
        .filter(|(_, e)| !*e)
        .filter_map(|(d, _)| d.clone())
        .filter(|d| !disabled.contains(d))
        .collect();
    if enabled.is_empty() {
        None
    } else {
        Some(enabled)
    }
}

pub struct SpecOut {
    pub verdict: SpecVerdict,
    pub csp: Option<BTreeSet<String>>,
    /// texts of the rules that matched (for classifiers / witnesses)
    pub matching: Vec<String>,
    /// (important hit, blocking hit, plain exception hit, redirect exception hit, important + redirect-rule)
    pub flags: [bool; 5],
}

/// The reference verdict of a whole list for one request.
pub fn spec_check(rules: &[Rule], tags: &HashSet<String>, req: &Request, orig_url: &str, store: &[ResSpec]) -> SpecOut {
    let none = SpecVerdict {
        matched: Expect::Is(false),
        important: Expect::Is(false),
        exception: Expect::Is(false),
        redirect: Expect::Is(None),
        rewritten: Expect::Is(None),
        hits: 0,
    };
    if !req.is_supported {
        // "Requests with unsupported schemes are never matched."
        return SpecOut { verdict: none, csp: None, matching: vec![], flags: [false; 5] };
    }
    let active = active_rules_by_text(rules, tags);
    spec_check_active(&active, req, orig_url, store)
}

/// Same, for a precomputed active set (saves recomputing badfilter ids per request).
pub fn spec_check_active(active: &[&Rule], req: &Request, orig_url: &str, store: &[ResSpec]) -> SpecOut {
    let none = SpecVerdict {
        matched: Expect::Is(false),
        important: Expect::Is(false),
        exception: Expect::Is(false),
        redirect: Expect::Is(None),
        rewritten: Expect::Is(None),
        hits: 0,
    };
    if !req.is_supported {
        return SpecOut { verdict: none, csp: None, matching: vec![], flags: [false; 5] };
    }
    let hits: Vec<&Rule> = active.iter().copied().filter(|r| rule_matches(r, req)).collect();
    let matching: Vec<String> = hits.iter().map(|r| r.text.clone()).collect();

    let is_modifier_only = |r: &Rule| r.f.is_csp() || r.f.is_removeparam() || r.f.is_generic_hide();
    let important_hit = hits.iter().any(|r| !is_modifier_only(r) && !r.f.is_exception() && r.f.is_important());
    let blocking_hit = hits.iter().any(|r| {
        !is_modifier_only(r) && !r.f.is_exception() && (!r.f.is_redirect() || r.f.also_block_redirect())
    });
    let plain_exception_hit = hits.iter().any(|r| !is_modifier_only(r) && r.f.is_exception() && !r.f.is_redirect());
    let redirect_exception_hit = hits.iter().any(|r| !is_modifier_only(r) && r.f.is_exception() && r.f.is_redirect());
    // `$important` combined with `redirect-rule` (which "alone never blocks"): not pinned.
    let important_redirect_rule = hits
        .iter()
        .any(|r| r.f.is_important() && r.f.is_redirect() && !r.f.also_block_redirect() && !r.f.is_exception());

    let (matched, important, exception) = if important_redirect_rule {
        (Expect::Unspec, Expect::Unspec, Expect::Unspec)
    } else if important_hit {
        (Expect::Is(true), Expect::Is(true), Expect::Is(false))
    } else if !blocking_hit {
        (Expect::Is(false), Expect::Is(false), Expect::Is(false))
    } else if plain_exception_hit {
        (Expect::Is(false), Expect::Is(false), Expect::Is(true))
    } else if redirect_exception_hit {
        // whether an exception that only names a redirect resource also unblocks the request is
        // not pinned by the property texts
        (Expect::Unspec, Expect::Is(false), Expect::Unspec)
    } else {
        (Expect::Is(true), Expect::Is(false), Expect::Is(false))
    };

    let cands: Vec<String> = hits
        .iter()
        .filter(|r| r.f.is_redirect() && !r.f.is_exception())
        .filter_map(|r| r.f.modifier_option.clone())
        .collect();
    let excs: Vec<String> = hits
        .iter()
        .filter(|r| r.f.is_redirect() && r.f.is_exception())
        .filter_map(|r| r.f.modifier_option.clone())
        .collect();
    let redirect = spec_redirect(&cands, &excs, store);

    let rewritten = if important_redirect_rule {
        Expect::Unspec
    } else if important_hit {
        Expect::Is(None)
    } else {
        let names: Vec<String> = hits
            .iter()
            .filter(|r| r.f.is_removeparam())
            .filter_map(|r| r.f.modifier_option.clone())
            .collect();
        Expect::Is(spec_removeparam(orig_url, &names))
    };

    let csp_rules: Vec<(Option<String>, bool)> = hits
        .iter()
        .filter(|r| r.f.is_csp())
        .map(|r| (r.f.modifier_option.clone(), r.f.is_exception()))
        .collect();
    let csp = spec_csp(req, &csp_rules);

    SpecOut {
        verdict: SpecVerdict { matched, important, exception, redirect, rewritten, hits: hits.len() },
        csp,
        matching,
        flags: [important_hit, blocking_hit, plain_exception_hit, redirect_exception_hit, important_redirect_rule],
    }
}

/// The two restricted forms of the check (`check_network_request_subset`), used when engines are
/// chained: (a) `previously_matched_rule`: an earlier engine blocks the request; this engine's own
/// blocking rules are not needed, its important rules and exceptions are; (b)
/// `force_check_exceptions`: exceptions are reported even if nothing of this engine blocks.
/// Returns the expected (matched, important, exception) of each form.
pub fn spec_subset(s: &SpecOut) -> [(Expect<bool>, Expect<bool>, Expect<bool>); 2] {
    let [important_hit, blocking_hit, plain_exc, redirect_exc, important_redirect_rule] = s.flags;
    if important_redirect_rule {
        return [(Expect::Unspec, Expect::Unspec, Expect::Unspec), (Expect::Unspec, Expect::Unspec, Expect::Unspec)];
    }
    if important_hit {
        let v = (Expect::Is(true), Expect::Is(true), Expect::Is(false));
        return [v.clone(), v];
    }
    let a = if plain_exc {
        (Expect::Is(false), Expect::Is(false), Expect::Is(true))
    } else if redirect_exc {
        (Expect::Unspec, Expect::Is(false), Expect::Unspec)
    } else {
        (Expect::Is(true), Expect::Is(false), Expect::Is(false))
    };
    let b = if plain_exc {
        (Expect::Is(false), Expect::Is(false), Expect::Is(true))
    } else if redirect_exc {
        (Expect::Unspec, Expect::Is(false), Expect::Unspec)
    } else {
        (Expect::Is(blocking_hit), Expect::Is(false), Expect::Is(false))
    };
    [a, b]
}

pub fn diff_verdict(spec: &SpecVerdict, got: &crate::net::Verdict) -> Option<&'static str> {
    if !spec.matched.accepts(&got.matched) {
        return Some(if got.matched { "spurious-block" } else { "lost-block" });
    }
    if !spec.important.accepts(&got.important) {
        return Some("important");
    }
    if !spec.exception.accepts(&got.exception) {
        return Some("exception");
    }
    if !spec.redirect.accepts(&got.redirect) {
        return Some("redirect");
    }
    if !spec.rewritten.accepts(&got.rewritten) {
        return Some("rewritten-url");
    }
    None
}

/// Runs the real engine and the reference on one request; returns the name of the first field
/// that disagrees (None = agreement), the reference output and the observed verdict.
pub fn compare_engine(
    e: &adblock::Engine,
    rules: &[Rule],
    tags: &HashSet<String>,
    req: &Request,
    orig_url: &str,
    store: &[ResSpec],
) -> (Option<String>, SpecOut, Option<crate::net::Verdict>) {
    let active = active_rules_by_text(rules, tags);
    let (d, s, g) = compare_engine_active(e, &active, req, orig_url, store);
    (d, s, g.map(|x| x.0))
}

/// What the comparison needs from a subject: the engine, or a blocker fed rule by rule.
pub trait NetSubject {
    fn ask(&self, req: &Request) -> adblock::blocker::BlockerResult;
    fn csp(&self, req: &Request) -> Option<String>;
    fn ask_subset(&self, req: &Request, previously_matched: bool, force_exceptions: bool) -> adblock::blocker::BlockerResult;
}
impl NetSubject for adblock::Engine {
    fn ask(&self, req: &Request) -> adblock::blocker::BlockerResult {
        self.check_network_request(req)
    }
    fn csp(&self, req: &Request) -> Option<String> {
        self.get_csp_directives(req)
    }
    fn ask_subset(&self, req: &Request, p: bool, f: bool) -> adblock::blocker::BlockerResult {
        self.check_network_request_subset(req, p, f)
    }
}
/// A blocker that started empty and received its rules through `Blocker::add_filter`.
pub struct Incremental {
    pub b: adblock::blocker::Blocker,
    pub res: adblock::resources::ResourceStorage,
}
impl NetSubject for Incremental {
    fn ask(&self, req: &Request) -> adblock::blocker::BlockerResult {
        self.b.check(req, &self.res)
    }
    fn csp(&self, req: &Request) -> Option<String> {
        self.b.get_csp_directives(req)
    }
    fn ask_subset(&self, req: &Request, p: bool, f: bool) -> adblock::blocker::BlockerResult {
        self.b.check_parameterised(req, &self.res, p, f)
    }
}

pub fn compare_engine_active(
    e: &adblock::Engine,
    active: &[&Rule],
    req: &Request,
    orig_url: &str,
    store: &[ResSpec],
) -> (Option<String>, SpecOut, Option<(crate::net::Verdict, Option<BTreeSet<String>>)>) {
    compare_subject_active(e, active, req, orig_url, store)
}

pub fn compare_subject_active<S: NetSubject>(
    e: &S,
    active: &[&Rule],
    req: &Request,
    orig_url: &str,
    store: &[ResSpec],
) -> (Option<String>, SpecOut, Option<(crate::net::Verdict, Option<BTreeSet<String>>)>) {
    let spec = spec_check_active(active, req, orig_url, store);
    let got = crate::util::catch(|| {
        let r = e.ask(req);
        let c = e.csp(req);
        (crate::net::Verdict::of(&r), crate::net::csp_set(&c))
    });
    match got {
        Err(loc) => (Some(format!("panic@{}", loc)), spec, None),
        Ok((v, csp)) => {
            let mut d = diff_verdict(&spec.verdict, &v).map(|s| s.to_string()).or_else(|| {
                if csp != spec.csp {
                    Some("csp".to_string())
                } else {
                    None
                }
            });
            // the restricted forms of the check, for requests some rule of the list matches
            if d.is_none() && spec.verdict.hits > 0 && req.is_supported {
                let exp = spec_subset(&spec);
                for (k, (prev, force)) in [(true, false), (false, true)].iter().enumerate() {
                    match crate::util::catch(|| crate::net::Verdict::of(&e.ask_subset(req, *prev, *force))) {
                        Err(loc) => d = Some(format!("subset-panic@{}", loc)),
                        Ok(g) => {
                            if !(exp[k].0.accepts(&g.matched) && exp[k].1.accepts(&g.important) && exp[k].2.accepts(&g.exception)) {
                                d = Some(format!("subset({},{})", prev, force));
                            }
                        }
                    }
                    if d.is_some() {
                        break;
                    }
                }
            }
            (d, spec, Some((v, csp)))
        }
    }
}
