//! Reference models. Every oracle is tri-state (DESIGN §2.4).
pub mod netspec;
pub mod pattern;

#[derive(Clone, Copy, Debug, PartialEq, Eq)]
pub enum Tri {
    Must(bool),
    Unspec,
}
