//! C11 — list parsing is total and line-independent; format / rule-type options hold.
//! DESIGN §4 C11. Six parts, all bounded-exhaustive (BX):
//!  (a) every string of length <= n over a 22-symbol structural alphabet through every parser entry
//!      point (parse_filter in 2 formats x 3 rule-type options x 2 permission masks,
//!      read_list_metadata, CosmeticFilter::parse, NetworkFilter::parse, parse_hosts_style) and,
//!      for accepted texts, through FilterSet -> Engine -> a few queries;
//!  (b) the single-edit neighbourhood (every deletion / insertion / substitution of every symbol of
//!      the edit alphabet at every character position) of a frozen corpus of real rule spellings;
//!  (c) the 1024-byte metadata cut-off with 1-,2-,3-,4-byte characters at every alignment;
//!  (d) line independence: engine(list) vs engine(list minus the lines parse_filter rejects);
//!  (e) hosts format: a hosts line vs the standard rule `||host^`;
//!  (f) rule-type options: NetworkOnly loads no cosmetic rule, CosmeticOnly no network rule.
//! Oracle of (a)-(c): no panic (Ok or Err only). (d)-(f) are differentials between two
//! configurations of the real code that the property says must agree.

use adblock::filters::cosmetic::CosmeticFilter;
use adblock::filters::network::NetworkFilter;
use adblock::lists::{
    parse_filter, read_list_metadata, FilterFormat, FilterParseError, FilterSet, ParseOptions,
    ParsedFilter, RuleTypes,
};
use adblock::request::Request;
use adblock::resources::{MimeType, PermissionMask, Resource, ResourceType};
use adblock::Engine;
use serde_json::{json, Value};
use std::collections::{BTreeSet, HashSet};
use vh::net::{csp_set, never_discard, resource, Verdict};
use vh::util::{catch, count_strings_upto, nth_seq, nth_string};
use vh::{run_main, Ctx, Local, Mismatch};

// ---------------------------------------------------------------------------------------------
// alphabets

/// The 22-symbol structural alphabet of DESIGN §4 C11, simplest first.
const SIGMA: [&str; 22] = [
    "a", ".", "#", "@", "$", ",", "~", "|", "*", "^", "/", "=", "+", "(", ")", "!", "[", " ", "js",
    "é", "文", "😀",
];

/// Additional symbols used only by the edit neighbourhood (b): the characters the scriptlet
/// argument parser, the CSS key extractor and the option parser treat specially but that are not
/// part of the structural alphabet, plus a 3-byte white-space character.
const EXTRA_EDIT: [&str; 11] = ["\\", "\"", "'", "`", ":", "?", "%", "-", "\t", "]", "\u{3000}"];

/// Frozen corpus of real rule spellings, copied from /repo/tests/unit/**/*.rs and the lists under
/// /repo/data (uBlockOrigin/*.txt, brave/*.txt, slim-list.txt). The six `example.com##+js(...)`
/// entries after the marker comment are the scriptlet argument strings of
/// tests/unit/resources/resource_storage.rs wrapped in a rule. Embedded so that later edits of
/// /repo/data cannot change the explored set.
const CORPUS: &[&str] = &[
    // --- network rules (tests/unit/filters/network.rs, blocker.rs, engine.rs)
    r###"||foo.com"###,
    r###"||foo.com^"###,
    r###"||foo.com/bar/baz|$important"###,
    r###"|foo.com^bar*/baz^|"###,
    r###"foo.com*bar^"###,
    r###"@@||foo.com/ads|"###,
    r###"@@|foo.com/ads|"###,
    r###"/ads/foo-$important"###,
    r###"^bar*/baz^"###,
    r###"||foo.com$domain=bar.com|~baz.com"###,
    r###"||foo.com$domain=foo|~bar|baz"###,
    r###"||foo.com$from=bar.com"###,
    r###"||foo.com$first-party,~third-party"###,
    r###"||foo.com$image,match-case"###,
    r###"/foo[0-9]*\.com/$media,match-case,image"###,
    r###"||foo.com$redirect=bar.js"###,
    r###"||foo.com$redirect="###,
    r###"$redirect=bar.js"###,
    r###"||foo.com$csp=self bar """###,
    r###"||foo.com$domain=foo|bar,csp=self bar """###,
    r###"||foo.com$csp"###,
    r###"||foo.com^$removeparam=test"###,
    r###"||foo.com^$removeparam=/abc.*/"###,
    r###"||foo.com^$removeparam=𝐔𝐍𝐈𝐂𝐎𝐃𝐄🧋"###,
    r###"||foo.com^$removeparam=test,redirect=test"###,
    r###"@@||foo.com^$removeparam=test"###,
    r###"$~removeparam=test"###,
    r###"$removeparam=testCase,~xhr"###,
    r###"*$removeparam=fbclid"###,
    r###"@@||foo.com$generichide"###,
    r###"@@$generichide,domain=example.com"###,
    r###"@@||$domain=auth.wi-fi.ru"###,
    r###"||foo.com$~important"###,
    r###"||foo.com$badfilter"###,
    r###"||foo.com$domain=bar.com|foo.com,badfilter"###,
    r###"adv$tag=stuff"###,
    r###"@@||brianbondy.com/$tag=brian"###,
    r###"|https://$script,third-party,domain=tamilrockers.ws"###,
    r###"|ws://$domain=4shared.com"###,
    r###"|https://foo.com|"###,
    r###"|https://r.i.ua^"###,
    r###"|http"###,
    r###"*xn--allestrungen-9ib.at"###,
    r###"@@^no-csp^$csp=script-src 'self' 'unsafe-inline'"###,
    r###"^first-party-only^$csp=script-src 'none',1p"###,
    r###"@@^exceptb10^$redirect-rule=b:10"###,
    r###"/script.js$redirect-rule=noopjs"###,
    r###"||www3.doubleclick.net^$xmlhttprequest,redirect-rule=noop.txt,domain=lineups.fun"###,
    r###"$csp=worker-src 'none',domain=pirateproxy.live|thehiddenbay.com|tpb.party"###,
    r###"||video.twimg.com/ext_tw_video/*/*.m3u8$domain=/^i[a-z]*\.strmrdr[a-z]+\..*/"###,
    r###"/^https?:\/\/[a-z]{8,15}\.top\/[-a-z]{4,}\.css\?aHR0c[\/0-9a-zA-Z]{33,}=?=?\$/$css,3p,match-case"###,
    // --- network rules (data lists)
    r###"||adswithsalt.com/*/ad-loading.pic$image,redirect=3x2-transparent.png"###,
    r###"||de/*/ad_bomb/*$image,redirect=2x2-transparent.png"###,
    r###"||hackintosh.computer^$csp=style-src 'self' *"###,
    r###"||4chan.org^$csp=connect-src https: http:"###,
    r###"||primewire.*^$csp=connect-src 'self'"###,
    r###"@@||ad.yieldlab.net^$script,domain=spiegel.de,badfilter"###,
    r###"||slopeaota.com^$document,popup"###,
    r###"/^https://www\.narcity\.com/assets/[0-9a-f]{24,}\.js/$script"###,
    r###"/ad5.$domain=~ad5.pw"###,
    r###"/edgemesh.*.js$script,domain=~edgemesh.com|~edgeno.de"###,
    r###"/wproxy$~third-party,websocket"###,
    r###"$websocket,domain=vidup.me"###,
    r###"||focus.de^$generichide,important"###,
    r###"@@||addictinginfo.*^$generichide"###,
    r###"@@||duellinksmeta.com^$1p"###,
    r###"||1921681254.tech/sw.js$1p,script"###,
    r###"/javascript.js^$$script,subdocument,third-party"###,
    r###"||googletagservices.com^*/osd_listener.js$third-party"###,
    r###"||quantserve.com^$~object-subrequest,third-party"###,
    r###"/b/ss/*&ndh="###,
    r###"/pixel?google_"###,
    r###"@@||adobedtm.com^*/satellite-$script"###,
    r###"||mc.yandex.ru^"###,
    // --- cosmetic rules (tests/unit/filters/cosmetic.rs, lists.rs)
    r###"##.selector"###,
    r###"###selector"###,
    r###"###неделя"###,
    r###"test.com##.selector"###,
    r###"~test.com##.selector"###,
    r###"test.*##.selector"###,
    r###"~test.*,~a.test.*##.selector"###,
    r###"foo.*,~sub.foo.*##.selector"###,
    r###"test.com#@#.selector"###,
    r###"test.com##.selector:style(border-radius: 13px)"###,
    r###"~test.*##.selector:style(border-radius: 13px)"###,
    r###"test.com##+js(nowebrtc.js)"###,
    r###"test.com#@#+js(nowebrtc.js)"###,
    r###"~test.*##+js(nowebrtc.js)"###,
    r###"computerbild.de##+js(setTimeout-defuser.js, ())return)"###,
    r###"computerbild.de##+js(abort-on-property-read.js, Date.prototype.toUTCString)"###,
    r###"example.com###adBanner:remove()"###,
    r###"example.com###adBanner:remove-attr(style)"###,
    r###"example.com###adBanner:remove-class(src)"###,
    r###"example.com##h1:has-text(Example Domain),p:has-text(More)"###,
    r###"facebook.com,facebookcorewwwi.onion##.ego_column:if(a[href^="/campaign/landing"])"###,
    r###"facebook.com,facebookcorewwwi.onion#?#._6y8t:-abp-has(a[href="/ads/about/?entry_product=ad_preferences"])"###,
    r###"imgur.com#?#div.Gallery-Sidebar-PostContainer:-abp-has(div.promoted-hover)"###,
    r###"mtgarena.pro#?##root > div > div:-abp-has(> .vm-placement)"###,
    r###"monova.*#@#script + [class] > [class]:first-child"###,
    r###"readcomiconline.to##^script:has-text(this[atob)"###,
    r###"twitter.com##article:has-text(/Promoted|Gesponsert|Реклама|Promocionado/):xpath(../..)"###,
    r###"yandex.*##.serp-item:if(:scope > div.organic div.organic__subtitle:matches-css-after(content: /[Рр]еклама/))"###,
    r###"неlloworlд.com#@##week"###,
    r###"/^dizipal\d+\.com$/##.web"###,
    r###"/^dizipal\d+\.com,test.net$/##.web"###,
    r###"imdb.com##body#styleguide-v2:style(background-color: #e3e2dd !important; background-image: none !important;)"###,
    r###"googledrivelinks.com###wpsafe-generate, #wpsafe-link:style(display: block !important;)"###,
    r###"m.economictimes.com###appBanner,#stickyBanner"###,
    r###"###\\\00DB \008D"###,
    r###"###\Û"###,
    r###"##input,input/*"###,
    r###"example.org$$script[data-src="banner"]"###,
    r###"example.org##+js(set-local-storage-item, Test, $$remove$$)"###,
    r###"[$app=org.example.app]example.com##.textad"###,
    r###"[$domain=/^i\[a-z\]*\.strmrdr\[a-z\]+\..*/]##+js(set-constant, adscfg.enabled, false)"###,
    r###"odkrywamyzakryte.com#%#//scriptlet("abort-on-property-read", "sc_adv_out")"###,
    r###"nczas.com#$#.adsbygoogle { position: absolute!important; left: -3000px!important; }"###,
    r###"kurnik.pl#@$#.adsbygoogle { height: 1px !important; width: 1px !important; }"###,
    r###"sportowefakty.wp.pl#@?#body > [class]:not([id]):matches-css(position: fixed):matches-css(top: 0px)"###,
    r###"9gag.com#?#article:-abp-has(.promoted)"###,
    // --- cosmetic rules (data lists)
    r###"google.*###center_col > #\5f Emc"###,
    r###"www.google.*##div.ellip > span:has-text(/^Ads?$/):nth-ancestor(2)"###,
    r###"newsbreak24.de##^script:has-text(===):has-text(/[\w\W]{14000}/)"###,
    r###"transfermarkt.*##+js(abort-current-inline-script.js, Math, /\}\s*\(.*?\b(self|this|window)\b.*?\)/)"###,
    r###"zeefiles.*##+js(remove-attr.js, onclick, [onclick^="window.open"])"###,
    r###"kimcartoon.me,kimcartoon.to#@#+js(abort-current-inline-script.js, $, isAdb)"###,
    r###"upload.ac##+js(remove-attr.js, checked, #chkIsAdd)"###,
    // --- scriptlet argument strings of tests/unit/resources/resource_storage.rs, wrapped
    r###"example.com##+js(debug-scriptlet, 'test', '"test"', "test", "'test'", `test`, '`test`')"###,
    r###"example.com##+js(debug-scriptlet, 'test,test', '', "", ' ', ' test ')"###,
    r###"example.com##+js(debug-scriptlet, test\,test, test\test, "test\test", 'test\test', )"###,
    r###"example.com##+js(debug-scriptlet, "test)"###,
    r###"example.com##+js(remove-node-text, script, \,mr=function(r\,)"###,
    r###"example.com##+js(googletagservices.com/gpt.js, t"es't1, $te\st2$)"###,
    // --- hosts lines, comments and metadata (tests/unit/lists.rs)
    "127.0.0.1 www.malware.com",
    "127.0.0.1\t\twww.malware.com",
    "0.0.0.0    www.malware.com     # replace after issue #289336 is addressed",
    "127.0.0.1 localhost",
    "127.0.0.1 com",
    "! Title: list.txt",
    "[Adblock Plus 2.0]",
    "[uBlock Origin]",
    "! Expires: 7 days (update frequency)",
    "! Homepage: https://austinhuang.me/0131-block-list",
    "! Title: uBlock₀ filters – Annoyances",
    "! => https://austinhuang.me/0131-block-list/list.txt",
];

// ---------------------------------------------------------------------------------------------
// common helpers

const FORMATS: [FilterFormat; 2] = [FilterFormat::Standard, FilterFormat::Hosts];
const RULE_TYPES: [RuleTypes; 3] = [RuleTypes::All, RuleTypes::NetworkOnly, RuleTypes::CosmeticOnly];
const PERMS: [u8; 2] = [0, 0b1010_0101];

fn fmt_name(f: FilterFormat) -> &'static str {
    match f {
        FilterFormat::Standard => "standard",
        FilterFormat::Hosts => "hosts",
    }
}

fn rt_name(r: RuleTypes) -> &'static str {
    match r {
        RuleTypes::All => "all",
        RuleTypes::NetworkOnly => "network-only",
        RuleTypes::CosmeticOnly => "cosmetic-only",
    }
}

fn opts(format: FilterFormat, rule_types: RuleTypes, perm: u8) -> ParseOptions {
    ParseOptions { format, rule_types, permissions: PermissionMask::from_bits(perm) }
}

#[derive(Clone, Copy, PartialEq, Eq, Debug)]
enum Kind {
    Net,
    Cos,
    Rejected,
}

fn kind_of(r: &Result<ParsedFilter, FilterParseError>) -> Kind {
    match r {
        Ok(ParsedFilter::Network(_)) => Kind::Net,
        Ok(ParsedFilter::Cosmetic(_)) => Kind::Cos,
        Err(_) => Kind::Rejected,
    }
}

fn outcome_name(r: &Result<ParsedFilter, FilterParseError>) -> String {
    let mut s = match r {
        Ok(ParsedFilter::Network(_)) => "network".to_string(),
        Ok(ParsedFilter::Cosmetic(_)) => "cosmetic".to_string(),
        Err(FilterParseError::Network(e)) => format!("err-net-{:?}", e),
        Err(FilterParseError::Cosmetic(e)) => format!("err-cos-{:?}", e),
        Err(FilterParseError::Unsupported) => "err-unsupported".to_string(),
        Err(FilterParseError::Empty) => "err-empty".to_string(),
    };
    if let Some(i) = s.find('(') {
        s.truncate(i);
    }
    s
}

fn panic_mismatch(l: &mut Local, loc: &str, call: &str, case: Value, size: u64) {
    l.hist("PANIC");
    l.mismatch(Mismatch {
        sig: format!("c11.panic@{}", loc),
        what: format!("{} panicked at {} (the property demands Ok or Err)", call, loc),
        case,
        size,
    });
}

fn resources() -> Vec<Resource> {
    vec![
        resource("noop.js", &[], ResourceType::Mime(MimeType::ApplicationJavascript), "(function(){})()", &[], 0),
        resource("s1.js", &[], ResourceType::Mime(MimeType::ApplicationJavascript), "console.log('{{1}}')", &[], 0),
    ]
}

fn build_engine(fs: FilterSet, optimize: bool) -> Engine {
    let mut e = Engine::from_filter_set(fs, optimize);
    never_discard(&mut e);
    e.use_resources(resources());
    e
}

// ---------------------------------------------------------------------------------------------
// query battery shared by (a) deep probing, (d), (f)

struct Battery {
    net: Vec<Request>,
    cos_urls: Vec<&'static str>,
    classes: Vec<&'static str>,
    ids: Vec<&'static str>,
}

fn battery() -> Battery {
    let net_spec: [(&str, &str, &str); 12] = [
        ("https://ads.example.com/x.js", "https://site.com/", "script"),
        ("https://ads.example.com/y.gif", "https://site.com/", "image"),
        ("https://site.com/banner/ad.png", "https://site.com/", "image"),
        ("https://cdn.net/track?utm=1&id=2", "https://site.com/", "xmlhttprequest"),
        ("https://cdn.net/track?utm=1&id=2", "https://cdn.net/", "xmlhttprequest"),
        ("https://cdn.net/lib.js", "https://site.com/", "script"),
        ("https://cdn.net/lib.js", "https://cdn.net/", "script"),
        ("https://site.com/", "https://site.com/", "document"),
        ("https://site.com/frame", "https://site.com/", "subdocument"),
        ("https://foo.com/ads/1.gif", "https://foo.com/", "image"),
        ("https://a.a/a?a=a,js", "https://js.a/", "script"),
        ("wss://cdn.net/sock", "https://site.com/", "websocket"),
    ];
    let net = net_spec
        .iter()
        .map(|(u, s, t)| Request::new(u, s, t).expect("battery URL must parse"))
        .collect();
    Battery {
        net,
        cos_urls: vec!["https://site.com/", "https://sub.example.com/p", "https://other.org/", "https://a.a/"],
        classes: vec!["ad", "banner", "selector", "a"],
        ids: vec!["top", "adBanner", "a"],
    }
}

#[derive(Clone, Debug, PartialEq, Eq)]
struct NetObs {
    verdict: Verdict,
    csp: Option<BTreeSet<String>>,
    /// debug text of the matched rule and exception (compared only without optimisation)
    filter: Option<String>,
    exception: Option<String>,
}

#[derive(Clone, Debug, PartialEq, Eq)]
struct CosObs {
    hide: BTreeSet<String>,
    procedural: BTreeSet<String>,
    exceptions: BTreeSet<String>,
    script: String,
    generichide: bool,
    class_id: BTreeSet<String>,
}

impl CosObs {
    fn cosmetic_part_is_empty(&self) -> bool {
        self.hide.is_empty()
            && self.procedural.is_empty()
            && self.exceptions.is_empty()
            && self.script.is_empty()
            && self.class_id.is_empty()
    }
}

#[derive(Clone, Debug, PartialEq, Eq)]
struct Obs {
    net: Vec<NetObs>,
    cos: Vec<CosObs>,
}

/// Runs the battery on an engine; a panic is returned as Err(location).
fn observe(e: &Engine, b: &Battery, l: &mut Local) -> Result<Obs, String> {
    let mut net = Vec::with_capacity(b.net.len());
    for r in &b.net {
        l.transitions += 2;
        let res = catch(|| e.check_network_request(r))?;
        let csp = catch(|| e.get_csp_directives(r))?;
        net.push(NetObs {
            verdict: Verdict::of(&res),
            csp: csp_set(&csp),
            filter: res.filter.clone(),
            exception: res.exception.clone(),
        });
    }
    let mut cos = Vec::with_capacity(b.cos_urls.len());
    for u in &b.cos_urls {
        l.transitions += 2;
        let r = catch(|| e.url_cosmetic_resources(u))?;
        let ci = catch(|| e.hidden_class_id_selectors(b.classes.iter(), b.ids.iter(), &r.exceptions))?;
        cos.push(CosObs {
            hide: r.hide_selectors.iter().cloned().collect(),
            procedural: r.procedural_actions.iter().cloned().collect(),
            exceptions: r.exceptions.iter().cloned().collect(),
            script: r.injected_script.clone(),
            generichide: r.generichide,
            class_id: ci.into_iter().collect(),
        });
    }
    Ok(Obs { net, cos })
}

fn net_equal(a: &[NetObs], b: &[NetObs], with_debug_text: bool) -> Option<usize> {
    for (i, (x, y)) in a.iter().zip(b.iter()).enumerate() {
        let same = x.verdict == y.verdict
            && x.csp == y.csp
            && (!with_debug_text || (x.filter == y.filter && x.exception == y.exception));
        if !same {
            return Some(i);
        }
    }
    None
}

// ---------------------------------------------------------------------------------------------
// (a)+(b): one text through every parser entry point

/// `deep`: for texts that the standard / hosts list parser accepts, also build an engine from the
/// one-line list and run the battery (FilterSet::add_filter_list, Engine::from_filter_set, queries,
/// serialisation), all of which must not panic either.
fn probe_text(text: &str, part: &str, deep: bool, bat: &Battery, l: &mut Local) {
    let case = json!({"part": part, "text": text});
    let size = text.len() as u64;
    let mut kinds = [[Kind::Rejected; 3]; 2];
    let mut any_ok = false;
    let mut panicked = false;
    for (fi, f) in FORMATS.iter().enumerate() {
        for (ri, rt) in RULE_TYPES.iter().enumerate() {
            for (pi, perm) in PERMS.iter().enumerate() {
                let o = opts(*f, *rt, *perm);
                // debug on for the first mask, off for the second: both spellings of the flag
                let debug = pi == 0;
                l.evaluations += 1;
                match catch(|| parse_filter(text, debug, o)) {
                    Err(loc) => {
                        panicked = true;
                        panic_mismatch(
                            l,
                            &loc,
                            &format!("parse_filter(format={}, rule_types={}, permissions={:#x})", fmt_name(*f), rt_name(*rt), perm),
                            case.clone(),
                            size,
                        );
                    }
                    Ok(r) => {
                        let k = kind_of(&r);
                        if pi == 0 {
                            kinds[fi][ri] = k;
                            if ri == 0 {
                                l.hist(&format!("{}:{}", fmt_name(*f), outcome_name(&r)));
                            }
                        } else if kinds[fi][ri] != k {
                            // the permission mask decides nothing about acceptance
                            l.mismatch(Mismatch {
                                sig: "c11.permissions.acceptance-depends-on-mask".into(),
                                what: format!("{:?} ({}, {}): {:?} with mask 0 but {:?} with mask {:#x}", text, fmt_name(*f), rt_name(*rt), kinds[fi][ri], k, perm),
                                case: case.clone(),
                                size,
                            });
                        }
                        if k != Kind::Rejected {
                            any_ok = true;
                        }
                    }
                }
            }
        }
    }
    // direct entry points
    l.evaluations += 5;
    if let Err(loc) = catch(|| read_list_metadata(text)) {
        panicked = true;
        panic_mismatch(l, &loc, "read_list_metadata", case.clone(), size);
    }
    for (pi, perm) in PERMS.iter().enumerate() {
        if let Err(loc) = catch(|| CosmeticFilter::parse(text, pi == 0, PermissionMask::from_bits(*perm)).is_ok()) {
            panicked = true;
            panic_mismatch(l, &loc, "CosmeticFilter::parse", case.clone(), size);
        }
    }
    if let Err(loc) = catch(|| NetworkFilter::parse(text, true, Default::default()).is_ok()) {
        panicked = true;
        panic_mismatch(l, &loc, "NetworkFilter::parse", case.clone(), size);
    }
    if let Err(loc) = catch(|| NetworkFilter::parse_hosts_style(text, true).is_ok()) {
        panicked = true;
        panic_mismatch(l, &loc, "NetworkFilter::parse_hosts_style", case.clone(), size);
    }
    l.compared += 1;
    if any_ok {
        l.nontrivial += 1;
    }
    if panicked {
        return;
    }

    // rule-type options at the level of one line (clause f)
    for (fi, f) in FORMATS.iter().enumerate() {
        let all = kinds[fi][0];
        let net_only = kinds[fi][1];
        let cos_only = kinds[fi][2];
        l.compared += 1;
        let mut bad: Option<(&'static str, String)> = None;
        if net_only == Kind::Cos {
            bad = Some(("c11.ruletypes.line.network-only-yields-cosmetic", "NetworkOnly produced a cosmetic rule".into()));
        } else if cos_only == Kind::Net {
            bad = Some(("c11.ruletypes.line.cosmetic-only-yields-network", "CosmeticOnly produced a network rule".into()));
        } else if matches!(f, FilterFormat::Hosts) && (all == Kind::Cos || cos_only == Kind::Cos) {
            bad = Some(("c11.hosts.line.yields-cosmetic", "hosts format produced a cosmetic rule".into()));
        } else {
            let exp_net = if all == Kind::Net { Kind::Net } else { Kind::Rejected };
            let exp_cos = if all == Kind::Cos { Kind::Cos } else { Kind::Rejected };
            if net_only != exp_net {
                bad = Some(("c11.ruletypes.line.network-only-differs-from-all", format!("All gives {:?}, NetworkOnly gives {:?}", all, net_only)));
            } else if cos_only != exp_cos {
                bad = Some(("c11.ruletypes.line.cosmetic-only-differs-from-all", format!("All gives {:?}, CosmeticOnly gives {:?}", all, cos_only)));
            }
        }
        if let Some((sig, what)) = bad {
            l.mismatch(Mismatch {
                sig: sig.into(),
                what: format!("{:?} in {} format: {}", text, fmt_name(*f), what),
                case: case.clone(),
                size,
            });
        }
    }

    if !deep {
        return;
    }
    // accepted texts: the one-line list must load into an engine and answer queries
    for (fi, f) in FORMATS.iter().enumerate() {
        if kinds[fi][0] == Kind::Rejected {
            continue;
        }
        let o = opts(*f, RuleTypes::All, 0);
        l.states += 1;
        let r = catch(|| {
            let mut fs = FilterSet::new(true);
            fs.add_filter_list(text, o);
            build_engine(fs, true)
        });
        let e = match r {
            Ok(e) => e,
            Err(loc) => {
                panic_mismatch(l, &loc, &format!("FilterSet::add_filter_list + Engine::from_filter_set ({} format)", fmt_name(*f)), case.clone(), size);
                continue;
            }
        };
        match observe(&e, bat, l) {
            Err(loc) => panic_mismatch(l, &loc, &format!("query on the engine of the one-line list ({} format)", fmt_name(*f)), case.clone(), size),
            Ok(o) => {
                if o.net.iter().any(|n| n.verdict != Verdict::none() || n.csp.is_some()) || o.cos.iter().any(|c| !c.cosmetic_part_is_empty()) {
                    l.count("one_line_lists_with_visible_effect", 1);
                }
            }
        }
        if let Err(loc) = catch(|| e.serialize_raw().map(|b| b.len()).unwrap_or(0)) {
            panic_mismatch(l, &loc, "Engine::serialize_raw on the engine of the one-line list", case.clone(), size);
        }
    }
}

// ---------------------------------------------------------------------------------------------
// (b) edit neighbourhood

struct EditSpace {
    corpus: Vec<Vec<char>>,
    edit: Vec<&'static str>,
    pairs: bool,
    /// prefix sums of the number of edits per corpus entry
    starts: Vec<u64>,
}

impl EditSpace {
    fn new(pairs: bool) -> EditSpace {
        let corpus: Vec<Vec<char>> = CORPUS.iter().map(|s| s.chars().collect()).collect();
        let mut edit: Vec<&'static str> = SIGMA.to_vec();
        edit.extend(EXTRA_EDIT.iter());
        let mut sp = EditSpace { corpus, edit, pairs, starts: vec![] };
        let mut t = 0u64;
        for i in 0..sp.corpus.len() {
            sp.starts.push(t);
            t += sp.per_entry(i);
        }
        sp.starts.push(t);
        sp
    }
    fn per_entry(&self, i: usize) -> u64 {
        let n = self.corpus[i].len() as u64;
        let e = self.edit.len() as u64;
        let base = 1 + n + (n + 1) * e + n * e;
        if self.pairs {
            base + (n + 1) * e * e
        } else {
            base
        }
    }
    fn total(&self) -> u64 {
        *self.starts.last().unwrap()
    }
    /// Decodes index -> (corpus entry, edited text, description)
    fn nth(&self, idx: u64) -> (usize, String, String) {
        let ci = match self.starts.binary_search(&idx) {
            Ok(i) => i,
            Err(i) => i - 1,
        };
        let chars = &self.corpus[ci];
        let n = chars.len() as u64;
        let e = self.edit.len() as u64;
        let mut k = idx - self.starts[ci];
        let build = |upto: usize, ins: &str, from: usize| -> String {
            let mut s: String = chars[..upto].iter().collect();
            s.push_str(ins);
            s.extend(chars[from..].iter());
            s
        };
        if k == 0 {
            return (ci, build(chars.len(), "", chars.len()), "unedited".into());
        }
        k -= 1;
        if k < n {
            let p = k as usize;
            return (ci, build(p, "", p + 1), format!("delete@{}", p));
        }
        k -= n;
        if k < (n + 1) * e {
            let p = (k / e) as usize;
            let sym = self.edit[(k % e) as usize];
            return (ci, build(p, sym, p), format!("insert {:?}@{}", sym, p));
        }
        k -= (n + 1) * e;
        if k < n * e {
            let p = (k / e) as usize;
            let sym = self.edit[(k % e) as usize];
            return (ci, build(p, sym, p + 1), format!("substitute {:?}@{}", sym, p));
        }
        k -= n * e;
        let p = (k / (e * e)) as usize;
        let two = k % (e * e);
        let ins = format!("{}{}", self.edit[(two / e) as usize], self.edit[(two % e) as usize]);
        (ci, build(p, &ins, p), format!("insert {:?}@{}", ins, p))
    }
}

// ---------------------------------------------------------------------------------------------
// (c) metadata cut-off

const FILL: [&str; 4] = ["a", "é", "文", "😀"];

/// All header texts of the cut-off universe. Each has a multi-byte (or 1-byte control) character
/// whose first byte lies at every offset 1016..=1030, in three layouts.
fn metadata_texts(wide: bool) -> Vec<(String, String)> {
    let mut out = vec![];
    let (lo, hi) = if wide { (1000usize, 1040usize) } else { (1016usize, 1030usize) };
    for c in FILL {
        // layout 1: one long title line, filler 'a', the character at offset s, then 0..=6 more bytes
        for s in lo..=hi {
            for tail in 0..=6usize {
                let mut t = String::from("! Title: ");
                while t.len() < s {
                    t.push('a');
                }
                t.push_str(c);
                for _ in 0..tail {
                    t.push('b');
                }
                if t.len() >= 1020 {
                    out.push((t, format!("title-line char={:?} at={} tail={}", c, s, tail)));
                }
            }
        }
        // layout 2: the whole value is made of the character, shifted by 0..=3 single bytes, total
        // length 1020..=1032
        for shift in 0..=3usize {
            for total in 1020..=1032usize {
                let mut t = String::from("! Title: ");
                for _ in 0..shift {
                    t.push('a');
                }
                while t.len() + c.len() <= total {
                    t.push_str(c);
                }
                out.push((t, format!("all-wide char={:?} shift={} total<={}", c, shift, total)));
            }
        }
        // layout 3: several header lines; a line break, a key, the ": " separator and the value of
        // `Title` / `Expires` slide across byte 1024, and rules follow
        for start in (lo.saturating_sub(30))..=hi {
            let mut t = String::from("[Adblock Plus 2.0]\n! Homepage: https://example.com/\n! pad: ");
            while t.len() < start {
                t.push('p');
            }
            t.push_str("\n! Title: ");
            t.push_str(c);
            t.push_str(c);
            t.push_str("x\n! Expires: 5 days\n! Redirect: https://example.com/");
            t.push_str(c);
            t.push_str("\n||example.com^\n##.ad\n");
            out.push((t, format!("multi-line char={:?} tail-start={}", c, start)));
        }
    }
    out
}

/// Header lines whose *values* sit on numeric boundaries: `! Expires: <n> <unit>` for n around
/// every power of two and around the documented limits (1 hour .. 14 days), with every unit
/// spelling; each as the only header line and behind a title line.
fn metadata_value_texts() -> Vec<(String, String)> {
    let mut ns: Vec<String> = vec![];
    for base in [0i128, 1, 14, 15, 24, 127, 128, 255, 256, 336, 337, 2730, 2731, 2744, 5462, 10922, 32767, 32768, 65535, 65536, 2147483647, 2147483648, 4294967295, 4294967296, 18446744073709551615, 18446744073709551616] {
        for d in [-1i128, 0, 1] {
            ns.push((base + d).to_string());
        }
    }
    ns.extend(["+5", "-5", "3.5", "5e2", "0x10", "", " 5", "５"].iter().map(|s| s.to_string()));
    ns.sort();
    ns.dedup();
    let mut out = vec![];
    for n in &ns {
        for unit in [" days", " day", " hours", " hour", "", " d", " days (update frequency)", "days", " DAYS", " weeks"] {
            let line = format!("! Expires: {}{}", n, unit);
            out.push((line.clone(), format!("expires-value {:?}", line)));
            out.push((format!("! Title: t\n{}\n||example.com^", line), format!("expires-value after a title {:?}", line)));
        }
    }
    out
}

/// The documented range: "Any value between 1 hour and 14 days is possible".
fn expires_in_documented_range(line: &str) -> Option<bool> {
    let v = line.strip_prefix("! Expires: ")?;
    let (n, unit) = v.split_once(' ').unwrap_or((v, ""));
    if n.is_empty() || !n.bytes().all(|b| b.is_ascii_digit()) {
        return None; // spellings that are not plain decimal numbers: not judged
    }
    let n: u64 = n.parse().ok()?; // (too large for u64: not judged either)
    match unit {
        "days" | "day" => Some((1..=14).contains(&n)),
        "hours" | "hour" => Some((1..=336).contains(&n)),
        _ => None,
    }
}

fn probe_metadata(text: &str, why: &str, l: &mut Local) {
    let case = json!({"part": "metadata", "text": text, "layout": why});
    let size = text.len() as u64;
    l.evaluations += 3;
    l.compared += 1;
    match catch(|| {
        let m = read_list_metadata(text);
        (m.title, m.expires.is_some(), m.redirect.is_some(), m.homepage.is_some())
    }) {
        Err(loc) => panic_mismatch(l, &loc, "read_list_metadata", case.clone(), size),
        Ok((title, expires, redirect, _home)) => {
            let first_title = text
                .lines()
                .find_map(|ln| ln.strip_prefix("! Title: "))
                .unwrap_or("");
            let t = match &title {
                None => "title-none",
                Some(t) if t == first_title => "title-complete",
                Some(_) => "title-cut",
            };
            if title.is_some() {
                l.nontrivial += 1;
            }
            l.hist(&format!("metadata:{}{}{}", t, if expires { "+expires" } else { "" }, if redirect { "+redirect" } else { "" }));
            // a plain `<n> days|hours` value is taken exactly when it lies in the documented range
            // (only in the value sweep: in the cut-off layouts the line may lie beyond byte 1024)
            if let Some(line) = text.lines().find(|ln| why.starts_with("expires-value") && ln.starts_with("! Expires: ")) {
                if let Some(in_range) = expires_in_documented_range(line) {
                    l.compared += 1;
                    if expires != in_range {
                        l.mismatch(Mismatch {
                            sig: format!("c11.metadata.expires.{}", if in_range { "in-range-value-dropped" } else { "out-of-range-value-accepted" }),
                            what: format!("{:?}: documented range 1 hour .. 14 days; read_list_metadata reports expires={}", line, expires),
                            case: case.clone(),
                            size,
                        });
                    }
                }
            }
        }
    }
    for f in FORMATS {
        let r = catch(|| {
            let mut fs = FilterSet::new(true);
            let m = fs.add_filter_list(text, opts(f, RuleTypes::All, 0));
            m.title.is_some()
        });
        if let Err(loc) = r {
            panic_mismatch(l, &loc, &format!("FilterSet::add_filter_list ({} format)", fmt_name(f)), case.clone(), size);
        }
    }
}

// ---------------------------------------------------------------------------------------------
// (d) line independence

/// 12 rules that are accepted, each visible to the battery.
const GOOD: [&str; 13] = [
    "||ads.example.com^",
    "/banner/ad.",
    "@@||ads.example.com/x.js$script",
    "||cdn.net^$third-party,important",
    "||cdn.net/track$removeparam=utm",
    "||site.com^$csp=script-src 'none'",
    "||cdn.net/lib.js$script,redirect=noop.js",
    "@@||site.com^$generichide",
    "##.ad",
    "site.com##.banner",
    "site.com#@#.ad",
    "example.com##+js(s1, arg)",
    // an accepted network rule that looks like a list header
    "[ads]",
];
const GOOD_GENERICHIDE: usize = 7;

/// 12 junk lines; several look like the beginning of another construct.
const JUNK: [&str; 16] = [
    "",
    // blank but not empty (spaces, a tab, an ideographic space; with CRLF joins also a lone `\r`)
    "  ",
    "\t",
    "\u{3000} ",
    "##",
    "$",
    "@@",
    "[Adblock",
    "! Title: x",
    "! Title: y",
    "#@#+js(",
    "||cdn.net^$unknownopt, \\",
    "example.com##",
    "x.com$$script[a]",
    "||cdn.net^$redirect=",
    "site.com,文😀..#@#+js(s1, \"arg",
];

const GOOD_HOSTS: [&str; 6] = [
    "0.0.0.0 ads.example.com",
    "127.0.0.1\tcdn.net",
    "foo.com",
    "www.site.com # comment",
    "0.0.0.0 a.a#c",
    "SUB.Example.COM",
];
const JUNK_HOSTS: [&str; 10] = [
    "",
    " \t",
    "# comment",
    "! Title: x",
    "127.0.0.1 localhost",
    "0.0.0.0 a.a b.b",
    "com",
    "||cdn.net^",
    // hosts whose conversion to punycode fails (rejected late, after part of the work is done)
    "0.0.0.0 ads\u{fffd}.tracker.example",
    "xn--\u{e9}.tracker.example",
];

fn rejected_by_parse_filter(line: &str, o: ParseOptions) -> Result<bool, String> {
    catch(|| parse_filter(line, true, o).is_err())
}

fn sanitize(s: &str) -> String {
    s.chars()
        .map(|c| if c.is_ascii_graphic() { c } else { '_' })
        .collect()
}

/// engine(list) vs engine(list minus rejected lines), for one list, one format, one join style and
/// one optimisation mode.
fn check_line_independence(lines: &[&str], format: FilterFormat, crlf: bool, optimize: bool, part: &str, bat: &Battery, l: &mut Local) {
    let o = opts(format, RuleTypes::All, 0);
    let case = json!({"part": part, "lines": lines, "format": fmt_name(format), "crlf": crlf, "optimize": optimize});
    let size = lines.iter().map(|s| s.len() as u64 + 10).sum::<u64>() + crlf as u64 + optimize as u64;
    let sep = if crlf { "\r\n" } else { "\n" };
    let mut kept: Vec<&str> = vec![];
    let mut dropped: Vec<&str> = vec![];
    for ln in lines {
        l.evaluations += 1;
        match rejected_by_parse_filter(ln, o) {
            Err(loc) => {
                panic_mismatch(l, &loc, "parse_filter", case.clone(), size);
                return;
            }
            Ok(true) => dropped.push(ln),
            Ok(false) => kept.push(ln),
        }
    }
    let full_text = lines.join(sep);
    let kept_text = kept.join(sep);
    // metadata of a list = per field, the value of the first line that carries one: every line is
    // also loaded alone (no neighbours) and the results are merged first-wins
    let meta_of = |text: &str| -> Result<String, String> {
        catch(|| {
            let mut fs = FilterSet::new(true);
            let m = fs.add_filter_list(text, o);
            format!("{:?}|{:?}|{:?}|{:?}", m.homepage, m.title, m.expires, m.redirect)
        })
    };
    if matches!(format, FilterFormat::Standard) {
        let merged = catch(|| {
            let (mut h, mut t, mut e, mut r) = (None, None, None, None);
            for ln in lines {
                let mut fs = FilterSet::new(true);
                let m = fs.add_filter_list(ln, o);
                h = h.or(m.homepage);
                t = t.or(m.title);
                e = e.or(m.expires);
                r = r.or(m.redirect);
            }
            format!("{:?}|{:?}|{:?}|{:?}", h, t, e, r)
        });
        l.compared += 1;
        match (meta_of(&lines.join(sep)), merged) {
            (Ok(a), Ok(b)) if a == b => {}
            (Ok(a), Ok(b)) => l.mismatch(Mismatch {
                sig: "c11.lineindep.metadata-depends-on-neighbour-lines".into(),
                what: format!("metadata of {:?} is {} but the first-wins merge of the single-line metadata is {}", lines, a, b),
                case: case.clone(),
                size,
            }),
            (a, b) => panic_mismatch(l, &a.err().or(b.err()).unwrap_or_default(), "add_filter_list (metadata)", case.clone(), size),
        }
    }
    let build = |text: &str| -> Result<(Engine, Vec<u8>), String> {
        catch(|| {
            let mut fs = FilterSet::new(true);
            fs.add_filter_list(text, o);
            let e = build_engine(fs, optimize);
            let bytes = e.serialize_raw().expect("serialisation of a freshly built engine");
            (e, bytes)
        })
    };
    l.states += 2;
    let (ea, ba) = match build(&full_text) {
        Ok(x) => x,
        Err(loc) => {
            panic_mismatch(l, &loc, "building / serialising the engine of the full list", case.clone(), size);
            return;
        }
    };
    let (eb, bb) = match build(&kept_text) {
        Ok(x) => x,
        Err(loc) => {
            panic_mismatch(l, &loc, "building / serialising the engine of the reduced list", case.clone(), size);
            return;
        }
    };
    let oa = match observe(&ea, bat, l) {
        Ok(x) => x,
        Err(loc) => {
            panic_mismatch(l, &loc, "query on the engine of the full list", case.clone(), size);
            return;
        }
    };
    let ob = match observe(&eb, bat, l) {
        Ok(x) => x,
        Err(loc) => {
            panic_mismatch(l, &loc, "query on the engine of the reduced list", case.clone(), size);
            return;
        }
    };
    let visible = oa.net.iter().any(|n| n.verdict != Verdict::none() || n.csp.is_some())
        || oa.cos.iter().any(|c| !c.cosmetic_part_is_empty() || c.generichide);
    if !dropped.is_empty() && !kept.is_empty() && visible {
        l.nontrivial += 1;
    }
    l.hist(match (dropped.is_empty(), kept.is_empty()) {
        (true, true) => "lines:empty-list",
        (true, false) => "lines:nothing-rejected",
        (false, true) => "lines:everything-rejected",
        (false, false) => "lines:some-rejected",
    });

    // the junk line that is responsible, for the signature: the first rejected line whose removal
    // alone changes the bytes of the full list's engine (computed only on a mismatch)
    let culprit = |l: &mut Local| -> String {
        for ln in lines.iter() {
            if !dropped.contains(ln) {
                continue;
            }
            // without every occurrence of this rejected line
            let fewer: Vec<&str> = lines.iter().copied().filter(|x| x != ln).collect();
            l.states += 1;
            if let Ok((_, b)) = build(&fewer.join(sep)) {
                if b != ba {
                    return sanitize(ln);
                }
            }
        }
        "none-singly".to_string()
    };

    if ba != bb {
        // control: is serialisation of the same list reproducible at all (C09's subject)?
        l.states += 1;
        let again = build(&full_text).map(|x| x.1).unwrap_or_default();
        if again != ba {
            l.unspecified += 1;
            l.hist("lines:UNSPEC-serialisation-not-reproducible");
        } else {
            l.compared += 1;
            let c = culprit(l);
            l.hist("lines:BYTES-DIFFER");
            l.mismatch(Mismatch {
                sig: format!("c11.lineindep.{}.serialized-bytes-differ.junk[{}]", fmt_name(format), c),
                what: format!("engine({:?}) and engine({:?}) serialise differently ({} vs {} bytes); rejected lines {:?}", lines, kept, ba.len(), bb.len(), dropped),
                case: case.clone(),
                size,
            });
        }
    } else {
        l.compared += 1;
    }
    l.compared += 1;
    let net_diff = net_equal(&oa.net, &ob.net, !optimize);
    let cos_diff = oa.cos.iter().zip(ob.cos.iter()).position(|(x, y)| x != y);
    if net_diff.is_some() || cos_diff.is_some() {
        let c = culprit(l);
        let which = if let Some(i) = net_diff {
            format!("network query #{}: {:?} vs {:?}", i, oa.net[i], ob.net[i])
        } else {
            let i = cos_diff.unwrap();
            format!("cosmetic query {:?}: {:?} vs {:?}", bat.cos_urls[i], oa.cos[i], ob.cos[i])
        };
        l.hist("lines:ANSWERS-DIFFER");
        l.mismatch(Mismatch {
            sig: format!("c11.lineindep.{}.{}-answers-differ.junk[{}]", fmt_name(format), if net_diff.is_some() { "network" } else { "cosmetic" }, c),
            what: format!("list {:?} vs reduced list {:?}: {}", lines, kept, which),
            case,
            size,
        });
    }
}

// ---------------------------------------------------------------------------------------------
// (e) hosts entry == `||host^`

/// Host texts without white space and without '#'.
const HOSTS: &[&str] = &[
    // plain
    "example.com", "ads.example.com", "a.b.c.example.com", "tracker.co.uk", "cdn.net", "foo-bar.com",
    "foo_bar.com", "1.2.3.4", "123.com", "a.b", "x.y.z", "ex-.com", "-.com",
    // www. prefix and case
    "www.example.com", "www.www.example.com", "www.com", "www.a", "WWW.Example.COM", "wwwx.example.com",
    "www2.example.com", "example.www.com", "EXAMPLE.COM", "Ads.Example.Com", "www.tracker.co.uk",
    // IDN
    "münchen.de", "MÜNCHEN.DE", "пример.рф", "例え.jp", "xn--mnchen-3ya.de", "straße.de", "😀.com", "é.com",
    "www.é.com", "a.é", "xn--.com", "xn--a.com", "İ.com",
    // upper-case non-ASCII whose lower-casing is context- or mapping-dependent (final sigma before a
    // digit / hyphen / the end, capital sharp s, title-case digraph, Kelvin sign, ligature): both
    // formats must fold it the same way
    "ΟΔΟΣ24.gr", "ΕΛΛΆΣ-news.gr", "news.ΕΛΛΆΣ", "ΕΛΛΆΣ.gr", "οδος24.gr", "ΣΊΣΥΦΟΣ.gr", "ẞ.de", "ǅ.com", "\u{212a}.com", "ﬁ.com",
    "WWW.ΟΔΟΣ24.gr",
    // compatibility characters that IDNA maps to ASCII (full-width letters, a full-width dot)
    "ｗｗｗ.example.com", "ｅxample.com", "example．com", "www．example.com",
    // dotted edge cases and things the hosts parser refuses
    ".example.com", "example.com.", "example..com", ".", "..", ".com", "com", "localhost",
    "localhost.localdomain", "a.", ".a.b", "LOCALHOST", "localhostr.com", "localhost-ads.example.net", "localhost.tracker.example", "mylocalhost.com",
    // characters
    "exa%mple.com", "a\\b.com", "a.com/", "a.com^", "*.com", "a.com:80", "[::1]", "a,b.com", "a$b.com",
    "a=b.com", "a~b.com", "a|b.com", "@a.com", "a?b.com", "a&b.com", "a+b.com", "a!b.com", "a\"b.com",
    "a.com$important", "||a.com^",
];

/// The spellings of one hosts-file entry for host `h`.
fn hosts_lines(h: &str) -> Vec<String> {
    vec![
        h.to_string(),
        format!("127.0.0.1 {}", h),
        format!("0.0.0.0\t\t{}", h),
        format!("{} # comment", h),
        format!("0.0.0.0 {}#c", h),
        format!("  {}  ", h),
        format!("::1\u{3000}{}", h),
    ]
}

struct HostUniverse {
    reqs: Vec<Request>,
}

fn host_universe() -> HostUniverse {
    let mut seen = HashSet::new();
    let mut reqs = vec![];
    let mut names: Vec<String> = vec![];
    for h in HOSTS {
        let lower = h.to_lowercase();
        let stripped = lower.trim_start_matches("www.").to_string();
        for base in [lower.clone(), stripped] {
            names.push(base.clone());
            names.push(format!("sub.{}", base));
            names.push(format!("x{}", base));
            names.push(format!("{}.evil.org", base));
            names.push(format!("www.{}", base));
        }
    }
    names.push("unrelated.org".into());
    for n in names {
        for (ty, src) in [("script", "https://page.test/"), ("document", "")] {
            let url = format!("https://{}/p?q=1", n);
            let src = if src.is_empty() { url.clone() } else { src.to_string() };
            if let Ok(r) = Request::new(&url, &src, ty) {
                if seen.insert((r.url.clone(), ty)) {
                    reqs.push(r);
                }
            }
        }
    }
    HostUniverse { reqs }
}

fn net_filter(line: &str, o: ParseOptions) -> Result<Result<NetworkFilter, String>, String> {
    catch(|| match parse_filter(line, true, o) {
        Ok(ParsedFilter::Network(f)) => Ok(f),
        Ok(ParsedFilter::Cosmetic(_)) => Err("cosmetic".to_string()),
        Err(e) => Err(outcome_name(&Err(e))),
    })
}

/// Structural cause of a hosts-vs-standard difference, from the host text alone. The only cause
/// known so far: the host starts with `www.` in a spelling that is not all lower case, which the
/// two code paths normalise in a different order (strip-then-lowercase vs lowercase-then-strip).
fn hosts_cause(host: &str) -> Option<&'static str> {
    if host.to_lowercase().starts_with("www.") && !host.starts_with("www.") {
        Some("www-prefix-not-lowercase")
    } else {
        None
    }
}

/// The refusals the hosts parser documents: the name `localhost`, a name without an inner dot, a
/// trailing dot, characters that cannot be part of a host name, a name IDNA cannot encode.
fn documented_hosts_refusal(host: &str) -> bool {
    let h = host.to_lowercase();
    h == "localhost"
        || !h.trim_start_matches('.').contains('.')
        || h.ends_with('.')
        || h.chars().any(|c| "/^*!?$&(){}[]+=~`|@,'\"><:;".contains(c) || c.is_whitespace())
        || (!h.is_ascii() && idna::domain_to_ascii(&h).is_err())
}

fn check_hosts_entry(host: &str, line: &str, uni: &HostUniverse, l: &mut Local) {
    let case = json!({"part": "hosts", "host": host, "line": line});
    let size = (host.len() * 100 + line.len()) as u64;
    let std_rule = format!("||{}^", host);
    l.evaluations += 2;
    let fh = match net_filter(line, opts(FilterFormat::Hosts, RuleTypes::All, 0)) {
        Err(loc) => return panic_mismatch(l, &loc, "parse_filter (hosts format)", case, size),
        Ok(x) => x,
    };
    let fs = match net_filter(&std_rule, opts(FilterFormat::Standard, RuleTypes::All, 0)) {
        Err(loc) => return panic_mismatch(l, &loc, "parse_filter (standard format)", case, size),
        Ok(x) => x,
    };
    let std_ok = fs.is_ok();
    let (fh, fs) = match (fh, fs) {
        (Err(why), _) => {
            // the hosts parser documents extra refusals (localhost, bare TLD, trailing dot,
            // characters that cannot be part of a host name): not pinned by the property. Any
            // other refusal drops an entry whose `||host^` counterpart is a rule.
            if !documented_hosts_refusal(host) && std_ok {
                l.hist("hosts:REFUSED-WITHOUT-DOCUMENTED-REASON");
                l.mismatch(Mismatch {
                    sig: "c11.hosts.refused-without-documented-reason".into(),
                    what: format!("hosts line {:?} is refused ({}) although {:?} is a rule and the host is neither localhost, dot-less, dot-terminated nor contains a forbidden character", line, why, std_rule),
                    case: case.clone(),
                    size,
                });
                return;
            }
            l.unspecified += 1;
            l.hist(&format!("hosts:refused-{}", why));
            return;
        }
        (Ok(_), Err(why)) => {
            // an entry is loaded although `||host^` is not a rule: the property has no
            // standard-format counterpart to compare with
            l.unspecified += 1;
            l.hist(&format!("hosts:accepted-but-standard-{}", why));
            return;
        }
        (Ok(a), Ok(b)) => (a, b),
    };
    l.compared += 1;
    let mut diffs = vec![];
    if fh.mask != fs.mask {
        diffs.push(format!("mask {:?} vs {:?}", fh.mask, fs.mask));
    }
    if fh.hostname != fs.hostname {
        diffs.push(format!("hostname {:?} vs {:?}", fh.hostname, fs.hostname));
    }
    if fh.filter.string_view() != fs.filter.string_view() {
        diffs.push(format!("pattern {:?} vs {:?}", fh.filter.string_view(), fs.filter.string_view()));
    }
    if fh.opt_domains != fs.opt_domains || fh.opt_not_domains != fs.opt_not_domains || fh.modifier_option != fs.modifier_option {
        diffs.push("options differ".to_string());
    }
    if !diffs.is_empty() {
        let field = diffs[0].split(' ').next().unwrap_or("field").to_string();
        l.hist("hosts:FILTER-DIFFERS");
        l.mismatch(Mismatch {
            sig: match hosts_cause(host) {
                Some(c) => format!("c11.hosts.differs-from-standard.{}", c),
                None => format!("c11.hosts.filter-differs.{}", field),
            },
            what: format!("hosts line {:?} vs standard rule {:?}: {}", line, std_rule, diffs.join("; ")),
            case: case.clone(),
            size,
        });
    }
    // behaviour over the URL universe
    l.states += 2;
    let built = catch(|| {
        let mut a = FilterSet::new(true);
        a.add_filter_list(line, opts(FilterFormat::Hosts, RuleTypes::All, 0));
        let mut b = FilterSet::new(true);
        b.add_filter_list(&std_rule, opts(FilterFormat::Standard, RuleTypes::All, 0));
        (build_engine(a, true), build_engine(b, true))
    });
    let (eh, es) = match built {
        Ok(x) => x,
        Err(loc) => return panic_mismatch(l, &loc, "building the engines of a hosts entry and of its standard rule", case, size),
    };
    let mut blocked = 0u64;
    for r in &uni.reqs {
        l.transitions += 2;
        l.compared += 1;
        let a = catch(|| Verdict::of(&eh.check_network_request(r)));
        let b = catch(|| Verdict::of(&es.check_network_request(r)));
        match (a, b) {
            (Ok(a), Ok(b)) => {
                if a.matched {
                    blocked += 1;
                }
                if a != b {
                    l.hist("hosts:VERDICT-DIFFERS");
                    l.mismatch(Mismatch {
                        sig: match hosts_cause(host) {
                            Some(c) => format!("c11.hosts.differs-from-standard.{}", c),
                            None => format!("c11.hosts.verdict-differs.{}", if a.matched { "hosts-blocks-more" } else { "hosts-blocks-less" }),
                        },
                        what: format!("{:?}: hosts line {:?} gives {} but {:?} gives {}", r.url, line, a.short(), std_rule, b.short()),
                        case: json!({"part": "hosts", "host": host, "line": line, "url": r.url}),
                        size: size + r.url.len() as u64,
                    });
                }
            }
            (Err(loc), _) | (_, Err(loc)) => {
                panic_mismatch(l, &loc, "check_network_request", json!({"part": "hosts", "host": host, "line": line, "url": r.url}), size);
            }
        }
    }
    if blocked > 0 {
        l.nontrivial += 1;
        l.hist("hosts:same-as-standard-and-blocks");
    } else {
        l.hist("hosts:same-as-standard-blocks-nothing");
    }
}

// ---------------------------------------------------------------------------------------------
// (f) rule-type options at list level

fn check_rule_types(lines: &[&str], format: FilterFormat, bat: &Battery, l: &mut Local) {
    let case = json!({"part": "ruletypes", "lines": lines, "format": fmt_name(format)});
    let size = lines.iter().map(|s| s.len() as u64 + 10).sum::<u64>();
    let text = lines.join("\n");
    let mut obs: Vec<Obs> = vec![];
    for rt in RULE_TYPES {
        l.states += 1;
        let e = match catch(|| {
            let mut fs = FilterSet::new(true);
            fs.add_filter_list(&text, opts(format, rt, 0));
            build_engine(fs, true)
        }) {
            Ok(e) => e,
            Err(loc) => return panic_mismatch(l, &loc, &format!("building the engine with rule_types={}", rt_name(rt)), case, size),
        };
        match observe(&e, bat, l) {
            Ok(o) => obs.push(o),
            Err(loc) => return panic_mismatch(l, &loc, &format!("query with rule_types={}", rt_name(rt)), case, size),
        }
    }
    let (all, net_only, cos_only) = (&obs[0], &obs[1], &obs[2]);
    let all_has_net = all.net.iter().any(|n| n.verdict != Verdict::none() || n.csp.is_some()) || all.cos.iter().any(|c| c.generichide);
    let all_has_cos = all.cos.iter().any(|c| !c.cosmetic_part_is_empty());
    if all_has_net && all_has_cos {
        l.nontrivial += 1;
    }
    l.hist(match (all_has_net, all_has_cos) {
        (true, true) => "ruletypes:list-has-both-kinds",
        (true, false) => "ruletypes:list-network-only-effects",
        (false, true) => "ruletypes:list-cosmetic-only-effects",
        (false, false) => "ruletypes:list-no-visible-effect",
    });
    let report = |l: &mut Local, sig: &str, what: String| {
        l.hist("ruletypes:VIOLATED");
        l.mismatch(Mismatch { sig: sig.to_string(), what, case: case.clone(), size });
    };
    // NetworkOnly: every cosmetic answer is empty
    l.compared += 1;
    if let Some(i) = net_only.cos.iter().position(|c| !c.cosmetic_part_is_empty()) {
        report(l, &format!("c11.ruletypes.{}.network-only-answers-cosmetic", fmt_name(format)), format!("NetworkOnly list {:?}: cosmetic query {:?} answers {:?}", lines, bat.cos_urls[i], net_only.cos[i]));
    }
    // CosmeticOnly: every network answer is the default result
    l.compared += 1;
    if let Some(i) = cos_only.net.iter().position(|n| n.verdict != Verdict::none() || n.csp.is_some() || n.filter.is_some() || n.exception.is_some()) {
        report(l, &format!("c11.ruletypes.{}.cosmetic-only-answers-network", fmt_name(format)), format!("CosmeticOnly list {:?}: network query #{} answers {:?}", lines, i, cos_only.net[i]));
    } else if let Some(i) = cos_only.cos.iter().position(|c| c.generichide) {
        report(l, &format!("c11.ruletypes.{}.cosmetic-only-keeps-generichide", fmt_name(format)), format!("CosmeticOnly list {:?}: generichide is set for {:?}", lines, bat.cos_urls[i]));
    }
    // the selected kind is kept: network answers of NetworkOnly equal those of All
    l.compared += 1;
    if let Some(i) = net_equal(&all.net, &net_only.net, false) {
        report(l, &format!("c11.ruletypes.{}.network-only-changes-network-answers", fmt_name(format)), format!("list {:?}: network query #{}: All {:?} vs NetworkOnly {:?}", lines, i, all.net[i], net_only.net[i]));
    } else if let Some(i) = all.cos.iter().zip(net_only.cos.iter()).position(|(a, b)| a.generichide != b.generichide) {
        report(l, &format!("c11.ruletypes.{}.network-only-changes-generichide", fmt_name(format)), format!("list {:?}: generichide for {:?} differs between All and NetworkOnly", lines, bat.cos_urls[i]));
    }
    // cosmetic answers of CosmeticOnly equal those of All, unless a $generichide network rule
    // (which CosmeticOnly must not load) changes what All answers
    if lines.contains(&GOOD[GOOD_GENERICHIDE]) {
        l.unspecified += 1;
    } else {
        l.compared += 1;
        if let Some(i) = all.cos.iter().zip(cos_only.cos.iter()).position(|(a, b)| a != b) {
            report(l, &format!("c11.ruletypes.{}.cosmetic-only-changes-cosmetic-answers", fmt_name(format)), format!("list {:?}: cosmetic query {:?}: All {:?} vs CosmeticOnly {:?}", lines, bat.cos_urls[i], all.cos[i], cos_only.cos[i]));
        }
    }
}

// ---------------------------------------------------------------------------------------------
// replay and driver

// ---------------------------------------------------------------------------------------------
// (g) one FilterSet fed by several add calls in different formats

/// Blocking network lines, each with the format it is loaded in. Several texts occur in both
/// formats (a bare host name is a substring pattern in the standard format and `||host^` in the
/// hosts format); several lines repeat.
const MIXED: [(&str, bool); 10] = [
    ("example.com", false),
    ("example.com", true),
    ("ads.example.com", false),
    ("ads.example.com", true),
    ("0.0.0.0 tracker.co.uk", true),
    ("||tracker.co.uk^", false),
    ("/banner", false),
    ("cdn.net", true),
    ("cdn.net", false),
    ("||cdn.net^$script", false),
];

fn mixed_requests() -> Vec<Request> {
    let mut v = vec![];
    for h in ["example.com", "ads.example.com", "tracker.co.uk", "cdn.net", "other.org"] {
        for (path, ty) in [("/", "document"), ("/banner.js", "script"), ("/x.png", "image")] {
            v.push(Request::new(&format!("https://{}{}", h, path), "https://page.test/", ty).unwrap());
        }
        v.push(Request::new(&format!("https://page.test/r?u={}", h), "https://page.test/", "script").unwrap());
    }
    v
}

/// The lines are loaded one add call each into ONE FilterSet; since all of them are plain blocking
/// rules, a request is blocked exactly if the single-line engine of at least one line blocks it.
fn check_mixed(seq: &[usize], single: u32, reqs: &[Request], l: &mut Local) {
    let case = json!({"part": "mixed", "seq": seq, "single": single});
    let size = seq.len() as u64;
    let fmt = |hosts: bool| if hosts { FilterFormat::Hosts } else { FilterFormat::Standard };
    let built = catch(|| {
        let mut fs = FilterSet::new(true);
        for (pos, &k) in seq.iter().enumerate() {
            // `single` bit set for this position: the line goes through `add_filter` (one rule)
            // instead of `add_filter_list`
            if single & (1 << pos) != 0 {
                let _ = fs.add_filter(MIXED[k].0, opts(fmt(MIXED[k].1), RuleTypes::All, 0));
            } else {
                fs.add_filter_list(MIXED[k].0, opts(fmt(MIXED[k].1), RuleTypes::All, 0));
            }
        }
        let singles: Vec<Engine> = seq
            .iter()
            .map(|&k| {
                let mut one = FilterSet::new(true);
                one.add_filter_list(MIXED[k].0, opts(fmt(MIXED[k].1), RuleTypes::All, 0));
                build_engine(one, false)
            })
            .collect();
        (build_engine(fs, seq.len() % 2 == 0), singles)
    });
    let (e, singles) = match built {
        Ok(x) => x,
        Err(loc) => return panic_mismatch(l, &loc, "loading lines of two formats into one FilterSet", case, size),
    };
    l.states += 1 + singles.len() as u64;
    l.evaluations += 1;
    for r in reqs {
        l.transitions += 1 + singles.len() as u64;
        l.compared += 1;
        let got = e.check_network_request(r).matched;
        let exp = singles.iter().any(|s| s.check_network_request(r).matched);
        if exp {
            l.nontrivial += 1;
        }
        if got != exp {
            l.hist("mixed:DIFFERS");
            let lines: Vec<String> = seq.iter().map(|&k| format!("{:?} as {}", MIXED[k].0, if MIXED[k].1 { "hosts" } else { "standard" })).collect();
            l.mismatch(Mismatch {
                sig: format!("c11.mixed-formats.{}", if exp { "line-lost" } else { "spurious-block" }),
                what: format!("lines [{}] loaded one call each into one FilterSet: {} blocked = {}, but the single-line engines say {}", lines.join(", "), r.url, got, exp),
                case: case.clone(),
                size,
            });
            return;
        }
    }
    l.hist("mixed:consistent");
}

fn replay(case: &Value, l: &mut Local) {
    if case["part"].as_str() == Some("mixed") {
        let seq: Vec<usize> = case["seq"].as_array().map(|a| a.iter().filter_map(|v| v.as_u64().map(|x| x as usize)).collect()).unwrap_or_default();
        return check_mixed(&seq, case["single"].as_u64().unwrap_or(0) as u32, &mixed_requests(), l);
    }
    let bat = battery();
    let part = case["part"].as_str().unwrap_or("string");
    let lines_owned: Vec<String> = case["lines"]
        .as_array()
        .map(|a| a.iter().map(|v| v.as_str().unwrap_or("").to_string()).collect())
        .unwrap_or_default();
    let lines: Vec<&str> = lines_owned.iter().map(|s| s.as_str()).collect();
    let format = if case["format"].as_str() == Some("hosts") { FilterFormat::Hosts } else { FilterFormat::Standard };
    match part {
        "metadata" => probe_metadata(case["text"].as_str().unwrap_or(""), case["layout"].as_str().unwrap_or(""), l),
        "lines" | "hostslines" => check_line_independence(
            &lines,
            format,
            case["crlf"].as_bool().unwrap_or(false),
            case["optimize"].as_bool().unwrap_or(true),
            part,
            &bat,
            l,
        ),
        "hosts" => {
            let uni = host_universe();
            let sel;
            let u = match case.get("url").and_then(|u| u.as_str()) {
                Some(url) => {
                    sel = HostUniverse { reqs: uni.reqs.into_iter().filter(|r| r.url == url).collect() };
                    &sel
                }
                None => &uni,
            };
            check_hosts_entry(case["host"].as_str().unwrap_or(""), case["line"].as_str().unwrap_or(""), u, l)
        }
        "hosts-overlong" => {
            let line = case["line"].as_str().unwrap_or("");
            l.compared += 1;
            match catch(|| parse_filter(line, true, opts(FilterFormat::Hosts, RuleTypes::All, 0)).is_ok()) {
                Ok(false) => {}
                other => l.mismatch(Mismatch {
                    sig: "c11.hosts.line-with-more-than-two-fields-accepted".into(),
                    what: format!("hosts line {:?} has more than an address and a single hostname but is not refused: {:?}", line, other),
                    case: case.clone(),
                    size: line.len() as u64,
                }),
            }
        }
        "ruletypes" => check_rule_types(&lines, format, &bat, l),
        _ => probe_text(case["text"].as_str().unwrap_or(""), part, true, &bat, l),
    }
}

fn check(ctx: &Ctx) -> i32 {
    let bat = battery();
    let n_len: u32 = ctx.tier.pick(4, 5);
    let list_len: u32 = ctx.tier.pick(3, 4);
    let pairs = ctx.tier.pick(false, true);
    ctx.bound("a_alphabet", json!(SIGMA));
    ctx.bound("a_string_max_symbols", n_len);
    ctx.bound("a_parser_calls_per_string", 17);
    ctx.bound("b_corpus_entries", CORPUS.len());
    ctx.bound("b_edit_alphabet", json!(SIGMA.iter().chain(EXTRA_EDIT.iter()).collect::<Vec<_>>()));
    ctx.bound("b_two_symbol_insertions", pairs);
    ctx.bound("d_good_rules", json!(GOOD));
    ctx.bound("d_junk_lines", json!(JUNK));
    ctx.bound("d_list_max_lines", list_len);
    ctx.bound("d_hosts_good", json!(GOOD_HOSTS));
    ctx.bound("d_hosts_junk", json!(JUNK_HOSTS));
    ctx.bound("e_hosts", HOSTS.len());
    ctx.bound("e_spellings_per_host", hosts_lines("x").len());
    ctx.bound("battery_network_requests", bat.net.len());
    ctx.bound("battery_cosmetic_urls", bat.cos_urls.len());

    // (a) all short strings
    let n_strings = count_strings_upto(SIGMA.len() as u64, n_len);
    ctx.bound("a_strings", n_strings);
    ctx.par_range("a-strings", n_strings, 512, |i, l| {
        let s = nth_string(i, &SIGMA);
        if l.samples.is_empty() && i == (ctx.seed.wrapping_mul(7919) + n_strings / 3) % n_strings {
            l.samples.push(json!({"part": "string", "text": s}));
        }
        probe_text(&s, "string", true, &bat, l);
    });

    // (b) edit neighbourhood of the corpus
    let sp = EditSpace::new(pairs);
    ctx.bound("b_edited_texts", sp.total());
    ctx.par_range("b-edits", sp.total(), 256, |i, l| {
        let (ci, text, what) = sp.nth(i);
        if l.samples.is_empty() && i == (ctx.seed.wrapping_mul(104729) + sp.total() / 3) % sp.total() {
            l.samples.push(json!({"part": "edit", "corpus_entry": CORPUS[ci], "edit": what, "text": text}));
        }
        probe_text(&text, "edit", true, &bat, l);
    });

    // (c) metadata cut-off
    let mut metas = metadata_texts(ctx.tier.pick(false, true));
    metas.extend(metadata_value_texts());
    ctx.bound("c_metadata_texts", metas.len());
    ctx.par_range("c-metadata", metas.len() as u64, 16, |i, l| {
        let (t, why) = &metas[i as usize];
        if l.samples.is_empty() && i == (ctx.seed + metas.len() as u64 / 2) % metas.len() as u64 {
            l.samples.push(json!({"part": "metadata", "layout": why, "bytes": t.len()}));
        }
        probe_metadata(t, why, l);
    });

    // (d) line independence, standard format
    let mut pool: Vec<&str> = GOOD.to_vec();
    pool.extend(JUNK.iter());
    let n_lists = count_strings_upto(pool.len() as u64, list_len);
    ctx.bound("d_lists", n_lists);
    ctx.par_range("d-lines", n_lists * 4, 32, |i, l| {
        let mut seq = vec![];
        nth_seq(i / 4, pool.len() as u64, &mut seq);
        let lines: Vec<&str> = seq.iter().map(|&k| pool[k]).collect();
        let (crlf, optimize) = ((i % 4) / 2 == 1, i % 2 == 1);
        if l.samples.is_empty() && i == (ctx.seed.wrapping_mul(31) + n_lists * 2) % (n_lists * 4) {
            l.samples.push(json!({"part": "lines", "lines": lines, "crlf": crlf, "optimize": optimize}));
        }
        check_line_independence(&lines, FilterFormat::Standard, crlf, optimize, "lines", &bat, l);
    });
    // (d) hosts files
    let mut hpool: Vec<&str> = GOOD_HOSTS.to_vec();
    hpool.extend(JUNK_HOSTS.iter());
    let n_hlists = count_strings_upto(hpool.len() as u64, list_len);
    ctx.bound("d_hosts_lists", n_hlists);
    ctx.par_range("d-hosts-lines", n_hlists * 2, 32, |i, l| {
        let mut seq = vec![];
        nth_seq(i / 2, hpool.len() as u64, &mut seq);
        let lines: Vec<&str> = seq.iter().map(|&k| hpool[k]).collect();
        check_line_independence(&lines, FilterFormat::Hosts, i % 2 == 1, true, "hostslines", &bat, l);
    });

    // (e) hosts entries
    let uni = host_universe();
    ctx.bound("e_requests", uni.reqs.len());
    let per = hosts_lines("x").len() as u64;
    ctx.par_range("e-hosts", HOSTS.len() as u64 * per, 1, |i, l| {
        let h = HOSTS[(i / per) as usize];
        let line = &hosts_lines(h)[(i % per) as usize];
        check_hosts_entry(h, line, &uni, l);
    });

    // (e2) lines that are not of the documented hosts format ("an IP address, some whitespace, and a
    // single hostname", or just a hostname): three or more fields. Such a line is no entry - it is
    // refused, whatever its fields are.
    let extra_fields: [&str; 5] = ["other.example", "other.example third.example", "0.0.0.0", "other.example # c", "\t\u{3000}x.y"];
    ctx.bound("e2_overlong_hosts_lines", HOSTS.len() * extra_fields.len() * 2);
    ctx.par_range("e2-hosts-lines-with-more-fields", (HOSTS.len() * extra_fields.len() * 2) as u64, 8, |i, l| {
        let h = HOSTS[i as usize / (extra_fields.len() * 2)];
        let extra = extra_fields[(i as usize / 2) % extra_fields.len()];
        let line = if i % 2 == 0 { format!("0.0.0.0 {} {}", h, extra) } else { format!("{} 127.0.0.1 {}", h, extra) };
        l.evaluations += 1;
        l.compared += 1;
        l.nontrivial += 1;
        let case = json!({"part": "hosts-overlong", "line": line});
        match catch(|| parse_filter(&line, true, opts(FilterFormat::Hosts, RuleTypes::All, 0)).is_ok()) {
            Err(loc) => panic_mismatch(l, &loc, "parse_filter (hosts format)", case, line.len() as u64),
            Ok(false) => l.hist("hosts:overlong-refused"),
            Ok(true) => {
                l.hist("hosts:OVERLONG-ACCEPTED");
                l.mismatch(Mismatch {
                    sig: "c11.hosts.line-with-more-than-two-fields-accepted".into(),
                    what: format!("hosts line {:?} has more than an address and a single hostname (the documented format) but is accepted as an entry", line),
                    case,
                    size: line.len() as u64,
                });
            }
        }
    });

    // (f) rule types at list level: all lists over the good rules, and hosts files
    let n_good = count_strings_upto(GOOD.len() as u64, list_len);
    ctx.bound("f_lists", n_good);
    ctx.par_range("f-ruletypes", n_good, 16, |i, l| {
        let mut seq = vec![];
        nth_seq(i, GOOD.len() as u64, &mut seq);
        let lines: Vec<&str> = seq.iter().map(|&k| GOOD[k]).collect();
        check_rule_types(&lines, FilterFormat::Standard, &bat, l);
    });
    let n_hgood = count_strings_upto(GOOD_HOSTS.len() as u64, list_len.min(3));
    ctx.par_range("f-ruletypes-hosts", n_hgood, 16, |i, l| {
        let mut seq = vec![];
        nth_seq(i, GOOD_HOSTS.len() as u64, &mut seq);
        let lines: Vec<&str> = seq.iter().map(|&k| GOOD_HOSTS[k]).collect();
        check_rule_types(&lines, FilterFormat::Hosts, &bat, l);
    });

    // (g) mixed formats in one FilterSet
    let mreqs = mixed_requests();
    let n_mixed = count_strings_upto(MIXED.len() as u64, 3);
    ctx.bound("g_mixed_format_lines", json!(MIXED.iter().map(|(t, h)| format!("{} [{}]", t, if *h { "hosts" } else { "standard" })).collect::<Vec<_>>()));
    ctx.bound("g_lists", n_mixed);
    ctx.par_range("g-mixed-formats", n_mixed, 16, |i, l| {
        let mut seq = vec![];
        nth_seq(i, MIXED.len() as u64, &mut seq);
        if seq.is_empty() {
            return;
        }
        // every assignment of the two loading methods to the positions
        for single in 0..(1u32 << seq.len()) {
            check_mixed(&seq, single, &mreqs, l);
        }
    });

    ctx.finish(
        "model_checking",
        "(a) every string of <= n symbols over the 22-symbol structural alphabet and (b) every single edit (delete / insert / substitute, 33 symbols, every character position; thorough: also every two-symbol insertion) of 140+ frozen real rule spellings, each through parse_filter (2 formats x 3 rule-type options x 2 permission masks), read_list_metadata, CosmeticFilter::parse, NetworkFilter::parse, parse_hosts_style and, when accepted, FilterSet -> Engine -> battery -> serialize: no panic, and per line NetworkOnly/CosmeticOnly keep exactly the rules of their kind; (c) headers with a 1/2/3/4-byte character at every offset around byte 1024; (d) all lists of <= k lines over 13 good + 13 junk lines (and hosts files over 6 + 7), LF and CRLF, optimised or not: engine(list) and engine(list minus rejected lines) serialise to the same bytes and answer the battery identically; (e) every spelling of every host entry vs `||host^`: same mask / hostname / pattern and same verdict on every request of the host universe; (f) all lists of <= k good rules under the three rule-type options; (g) all sequences of <= 3 of 10 (blocking line, format) items - same text in both formats, repeats - loaded one call each (add_filter_list or add_filter, every assignment) into one FilterSet: blocked exactly if a single-line engine blocks. Non-trivial: (a,b) some parser accepts the text; (c) a title is extracted; (d) some line is rejected, some kept and the battery sees an effect; (e) the entry blocks at least one request; (f) the list has both network and cosmetic effects. states = engines built, transitions = queries executed",
        &[
            "css-validation is off (baseline configuration): selectors are not validated at parse time",
            "hosts entries that the hosts parser refuses (localhost, bare TLD, trailing dot, forbidden characters) or whose `||host^` is not a rule: Unspecified (executed, counted, not compared)",
            "ids and debug texts of hosts-derived rules are not compared (they differ by design)",
            "cosmetic answers of CosmeticOnly vs All are not compared for lists containing the $generichide exception (a network rule that CosmeticOnly must drop)",
            "if the serialisation of one and the same list is not reproducible the byte comparison of (d) is Unspecified (C09's subject)",
            "metadata is not part of the engine; in (d) the metadata of a list is compared with the first-wins merge of the metadata of its lines loaded one by one",
        ],
    )
}

fn main() {
    run_main("C11", check, replay)
}
