use adblock::request::Request;
use adblock::Engine;
fn main() {
    let cases: Vec<(&str, &str, &str, &str)> = vec![
        ("ads$domain=ｅxample.com", "https://x.com/ads", "https://example.com/", "script"),
        ("ads$domain=EXAMPLE.com", "https://x.com/ads", "https://example.com/", "script"),
        ("ads$domain=bücher.de", "https://x.com/ads", "https://bücher.de/", "script"),
        ("ads$domain=BÜCHER.de", "https://x.com/ads", "https://bücher.de/", "script"),
        ("ads$domain=xn--bcher-kva.de", "https://x.com/ads", "https://bücher.de/", "script"),
        ("ads$domain=example.com.", "https://x.com/ads", "https://example.com/", "script"),
        ("ads$domain=example.com", "https://x.com/ads", "https://example.com./", "script"),
        ("||ｅxample.com^", "https://example.com/ads", "https://y.com/", "script"),
        ("||example．com^", "https://example.com/ads", "https://y.com/", "script"),
        ("||EXAMPLE.com^", "https://example.com/ads", "https://y.com/", "script"),
        ("||bücher.de^", "https://BÜCHER.de/ads", "https://y.com/", "script"),
    ];
    for (rule, url, src, ty) in cases {
        let e = Engine::from_rules([rule], Default::default());
        let r = Request::new(url, src, ty).unwrap();
        println!("{:40} {:30} from {:25} -> matched={}  (host {:?})", rule, url, src, e.check_network_request(&r).matched, r.hostname);
    }
    for (rule, url) in [("ｅxample.com##.ad", "https://example.com/"), ("EXAMPLE.com##.ad", "https://example.com/"), ("BÜCHER.de##.ad", "https://bücher.de/"), ("example．com##.ad", "https://example.com/"), ("www.example.com##.ad", "https://example.com/"), ("example.com.##.ad", "https://example.com/")] {
        let e = Engine::from_rules([rule], Default::default());
        println!("{:40} {:30} -> {:?}", rule, url, e.url_cosmetic_resources(url).hide_selectors);
    }
}
