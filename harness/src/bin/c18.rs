//! C18 — scriptlet injection respects permissions and encodes arguments safely. DESIGN §4 C18.
//!
//! Four bounded-exhaustive sweeps over the real crate, each against a small reference written here:
//!  (a) the permission subset test: `PermissionMask::is_injectable_by` for all 256 x 256 pairs, the
//!      same 65 536 pairs through the full path (resource permission on the scriptlet / on a
//!      template scriptlet / on a dependency; one rule list parsed with the list mask; the engine's
//!      `url_cosmetic_resources`), and two rule lists carrying the identical `+js` rule with two
//!      different masks (the per-host merge);
//!      plus: a permissioned resource is never a redirect, for all 256 masks x all resource kinds,
//!      through `ResourceStorage::get_redirect_resource` (name and alias) and `BlockerResult.redirect`;
//!  (b) every dependency graph on the nodes {s1, s2, f} (all 2^9 edge sets incl. self loops, an
//!      optional edge to a missing name from every node, both listing orders of the dependencies)
//!      x permission of each node in {0,1,2} x s2 function-style / template-style x every injection
//!      list of bounded size x EVERY permutation of that list, through the public
//!      `ResourceStorage::get_scriptlet_resources`;
//!  (c) every argument text of bounded length over a 13-symbol alphabet x position x quoting style,
//!      through a function-style scriptlet in a real engine; the reference of the `+js(...)`
//!      argument grammar and the strict JSON-string-literal reader are in this file;
//!  (d) every pair of `+js` bodies of a 20-body alphabet: injection of b1 + exception for b2.

use adblock::lists::FilterSet;
use adblock::request::Request;
use adblock::resources::{MimeType, PermissionMask, Resource, ResourceStorage, ResourceType};
use serde_json::{json, Value};
use vh::net::{engine_from_set, opts_perm, resource};
use vh::util::{catch, count_strings_upto, nth_string, permutations};
use vh::{run_main, Ctx, Local, Mismatch, Tri};

// ---------------------------------------------------------------------------------------------
// reading an injected script back
// ---------------------------------------------------------------------------------------------

/// The injected script as the harness reads it: every invocation sits alone on the line between a
/// `try {` line and a `} catch…` line; every other line is text of a resource body. All bodies and
/// invocations used here are single-line, and a faithful argument literal never contains a raw
/// line feed, so anything that does not fit is an observation ("malformed").
#[derive(Default, Debug, Clone, PartialEq)]
struct Script {
    bodies: Vec<String>,
    invs: Vec<String>,
}

fn parse_script(out: &str) -> Result<Script, String> {
    let mut s = Script::default();
    if out.is_empty() {
        return Ok(s);
    }
    let body = match out.strip_suffix('\n') {
        Some(b) => b,
        None => return Err("script does not end with a line feed".into()),
    };
    let lines: Vec<&str> = body.split('\n').collect();
    let mut i = 0;
    while i < lines.len() {
        if lines[i] == "try {" {
            if i + 2 >= lines.len() {
                return Err("try block cut short".into());
            }
            if !lines[i + 2].starts_with("} catch") {
                return Err(format!("try block holds more than one line: {:?}", lines[i + 2]));
            }
            s.invs.push(lines[i + 1].to_string());
            i += 3;
        } else {
            s.bodies.push(lines[i].to_string());
            i += 1;
        }
    }
    Ok(s)
}

fn mask_ok(res: u8, list: u8) -> bool {
    (res & !list) == 0
}

// ---------------------------------------------------------------------------------------------
// (a) permission subset test
// ---------------------------------------------------------------------------------------------

fn check_a_direct(r: u8, lst: u8, l: &mut Local) {
    l.evaluations += 1;
    l.transitions += 1;
    let got = catch(|| PermissionMask::from_bits(r).is_injectable_by(PermissionMask::from_bits(lst)));
    let exp = mask_ok(r, lst);
    l.compared += 1;
    if r != 0 {
        l.nontrivial += 1;
    }
    match got {
        Ok(g) => {
            l.hist(if g { "a.direct:injectable" } else { "a.direct:refused" });
            if g != exp {
                l.mismatch(Mismatch {
                    sig: format!("c18.perm.subset-test.{}", if g { "grants-missing-bit" } else { "refuses-granted" }),
                    what: format!("is_injectable_by(res={:#010b}, list={:#010b}) = {}, (res & !list)==0 is {}", r, lst, g, exp),
                    case: json!({"part":"a-direct","res":r,"list":lst}),
                    size: (r as u64).count_ones() as u64 * 16 + (lst as u64).count_ones() as u64,
                });
            }
        }
        Err(loc) => l.mismatch(Mismatch {
            sig: format!("c18.perm.subset-test.panic@{}", loc),
            what: format!("is_injectable_by panicked at {}", loc),
            case: json!({"part":"a-direct","res":r,"list":lst}),
            size: 1,
        }),
    }
}

const P_FN_BODY: &str = "function p(){/*body-p*/}";
const P_TPL_BODY: &str = "tplp();/*body-p*/";
const F_BODY: &str = "function f(){/*body-f*/}";
const JS: ResourceType = ResourceType::Mime(MimeType::ApplicationJavascript);
const FNJS: ResourceType = ResourceType::Mime(MimeType::FnJavascript);

/// shape 0: function-style scriptlet carries the permission; 1: template-style scriptlet carries
/// it; 2: unpermissioned function-style scriptlet depends on a permissioned fn/javascript.
fn a_resources(shape: u8, r: u8) -> (Vec<Resource>, &'static str, &'static str) {
    match shape {
        0 => (vec![resource("p.js", &[], JS, P_FN_BODY, &[], r)], "p()", P_FN_BODY),
        1 => (vec![resource("p.js", &[], JS, P_TPL_BODY, &[], r)], P_TPL_BODY, P_TPL_BODY),
        _ => (
            vec![
                resource("p.js", &[], JS, P_FN_BODY, &["f.js"], 0),
                resource("f.js", &[], FNJS, F_BODY, &[], r),
            ],
            "p()",
            F_BODY,
        ),
    }
}

fn cosmetic_script(lists: &[(&[&str], u8)], resources: Vec<Resource>, url: &str) -> Result<String, String> {
    catch(|| {
        let mut fs = FilterSet::new(false);
        for (rules, perm) in lists {
            fs.add_filters(*rules, opts_perm(*perm));
        }
        let mut e = engine_from_set(fs, true);
        e.use_resources(resources);
        e.url_cosmetic_resources(url).injected_script
    })
}

/// The same question put to an engine that received the rules as bytes (`Engine::new`, the same
/// resources, `deserialize` of what the built engine serialises to).
fn cosmetic_script_reloaded(lists: &[(&[&str], u8)], resources: Vec<Resource>, url: &str) -> Result<String, String> {
    catch(|| {
        let mut fs = FilterSet::new(false);
        for (rules, perm) in lists {
            fs.add_filters(*rules, opts_perm(*perm));
        }
        let bytes = engine_from_set(fs, true).serialize_raw().expect("a built engine serialises");
        let mut e = adblock::Engine::new(true);
        e.use_resources(resources);
        e.deserialize(&bytes).expect("its own bytes load");
        e.url_cosmetic_resources(url).injected_script
    })
}

/// `lists`: the masks of the rule lists that each carry the rule `example.com##+js(p)`.
fn check_a_path(shape: u8, r: u8, masks: &[u8], l: &mut Local) {
    l.evaluations += 1;
    l.states += 1;
    l.transitions += 1;
    let (res, inv, perm_body) = a_resources(shape, r);
    let rule: [&str; 1] = ["example.com##+js(p)"];
    let lists: Vec<(&[&str], u8)> = masks.iter().map(|m| (&rule[..], *m)).collect();
    let part = if masks.len() == 1 { "a-path" } else { "a-merge" };
    let case = json!({"part":part,"shape":shape,"res":r,"lists":masks});
    let size = (r as u64).count_ones() as u64 * 100_000
        + masks.iter().map(|m| (*m as u64).count_ones() as u64).sum::<u64>() * 10_000
        + (r as u64 + masks.iter().map(|m| *m as u64).sum::<u64>()) * 4
        + shape as u64;
    // two routes to the same engine: built from the lists, and loaded from the built engine's bytes
    // (the second one for lists of several masks, where the bytes carry one mask per request)
    for route in 0..(1 + (masks.len() > 1) as usize) {
    let case = case.clone();
    let route_name = if route == 0 { "" } else { ".reloaded-engine" };
    let answer = if route == 0 { cosmetic_script(&lists, res.clone(), "https://example.com/") } else { cosmetic_script_reloaded(&lists, res.clone(), "https://example.com/") };
    let out = match answer {
        Ok(o) => o,
        Err(loc) => {
            l.mismatch(Mismatch {
                sig: format!("c18.perm.path{}.panic@{}", route_name, loc),
                what: format!("engine build / url_cosmetic_resources panicked at {}", loc),
                case,
                size,
            });
            return;
        }
    };
    let sc = match parse_script(&out) {
        Ok(s) => s,
        Err(e) => {
            l.mismatch(Mismatch {
                sig: "c18.perm.path.script-malformed".into(),
                what: format!("{}: {:?}", e, out),
                case,
                size,
            });
            return;
        }
    };
    // the property: injected only if SOME rule list that requested it was granted all bits
    let allowed = masks.iter().any(|m| mask_ok(r, *m));
    let injected = sc.invs.iter().filter(|i| i.as_str() == inv).count();
    let stray = sc.invs.iter().any(|i| i.as_str() != inv);
    let body_present = sc.bodies.iter().any(|b| b == perm_body) || (shape == 1 && injected > 0);
    l.compared += 1;
    if r != 0 {
        l.nontrivial += 1;
    }
    l.hist(match (masks.len() > 1, injected > 0) {
        (false, true) => "a.path:injected",
        (false, false) => "a.path:refused",
        (true, true) => "a.merge:injected",
        (true, false) => "a.merge:refused",
    });
    let union: u8 = masks.iter().fold(0, |a, b| a | b);
    let mut bad: Option<(String, String)> = None;
    if stray || injected > 1 {
        bad = Some(("c18.perm.path.unexpected-invocations".into(), format!("invocations {:?}", sc.invs)));
    } else if injected == 1 && !allowed {
        let sig = if masks.len() > 1 && mask_ok(r, union) {
            "c18.perm.merge.union-of-list-masks-grants-what-no-single-list-was-granted".to_string()
        } else {
            format!("c18.perm.path.shape{}.unpermitted-injected", shape)
        };
        bad = Some((sig, format!("resource needs {:#b}, lists granted {:?}, yet {:?} is injected", r, masks, inv)));
    } else if injected == 0 && allowed {
        bad = Some((
            format!("c18.perm.path.shape{}.permitted-refused", shape),
            format!("resource needs {:#b}, a list granted {:?}, yet nothing is injected", r, masks),
        ));
    } else if !allowed && r != 0 && body_present {
        bad = Some((
            format!("c18.perm.path.shape{}.permissioned-body-leaked", shape),
            format!("body of the permissioned resource appears although no list was granted {:#b}: {:?}", r, out),
        ));
    }
    if let Some((sig, what)) = bad {
        l.mismatch(Mismatch { sig: format!("{}{}", sig, route_name), what: format!("{}{}", what, if route == 1 { " (engine loaded from the built engine's bytes)" } else { "" }), case, size });
    }
    }
}

/// A resource offered twice under one name: the second offer is rejected by the store and must
/// leave no trace - neither its permission nor its body. `which` 0: the scriptlet itself is offered
/// twice; 1: its fn/javascript dependency; 2: the scriptlet is a template the second time.
fn check_a_rejected(which: u8, r0: u8, r1: u8, m: u8, l: &mut Local) {
    const REJECTED_P: &str = "function p(){/*body-REJECTED*/}";
    const REJECTED_F: &str = "function f(){/*body-REJECTED*/}";
    l.evaluations += 1;
    l.states += 1;
    l.transitions += 1;
    let (res, needed) = match which {
        0 => (vec![resource("p.js", &[], JS, P_FN_BODY, &[], r0), resource("p.js", &[], JS, REJECTED_P, &[], r1)], r0),
        1 => (
            vec![resource("p.js", &[], JS, P_FN_BODY, &["f.js"], 0), resource("f.js", &[], FNJS, F_BODY, &[], r0), resource("f.js", &[], FNJS, REJECTED_F, &[], r1)],
            r0,
        ),
        _ => (vec![resource("p.js", &[], JS, P_FN_BODY, &[], r0), resource("p.js", &[], ResourceType::Template, "tplp();/*body-REJECTED*/", &[], r1)], r0),
    };
    let case = json!({"part":"a-rejected","which":which,"r0":r0,"r1":r1,"list":m});
    let size = which as u64 + r0 as u64 * 4 + r1 as u64 * 16 + m as u64 * 64;
    let rule: [&str; 1] = ["example.com##+js(p)"];
    let out = match cosmetic_script(&[(&rule[..], m)], res, "https://example.com/") {
        Ok(o) => o,
        Err(loc) => {
            l.mismatch(Mismatch { sig: format!("c18.perm.rejected.panic@{}", loc), what: format!("panicked at {}", loc), case, size });
            return;
        }
    };
    l.compared += 1;
    l.nontrivial += 1;
    let allowed = mask_ok(needed, m);
    let injected = out.contains("p()");
    l.hist(if injected { "a.rejected:injected" } else { "a.rejected:refused" });
    if out.contains("REJECTED") {
        l.mismatch(Mismatch { sig: "c18.perm.rejected.body-of-the-rejected-resource-emitted".into(), what: format!("stored resource needs {:#b}, the rejected second offer {:#b}, list granted {:#b}: the script contains the rejected body: {:?}", r0, r1, m, out), case, size });
    } else if injected != allowed {
        l.mismatch(Mismatch { sig: format!("c18.perm.rejected.{}", if injected { "unpermitted-injected" } else { "permitted-refused" }), what: format!("stored resource needs {:#b}, the rejected second offer {:#b}, list granted {:#b}: injected = {}", r0, r1, m, injected), case, size });
    } else if injected && !(out.contains(P_FN_BODY) && (which != 1 || out.contains(F_BODY))) {
        l.mismatch(Mismatch { sig: "c18.perm.rejected.body-of-the-stored-resource-missing".into(), what: format!("{:?}", out), case, size });
    }
}

// ---------------------------------------------------------------------------------------------
// redirects refuse permissioned resources
// ---------------------------------------------------------------------------------------------

fn kinds() -> Vec<(&'static str, ResourceType)> {
    vec![
        ("js", ResourceType::Mime(MimeType::ApplicationJavascript)),
        ("gif", ResourceType::Mime(MimeType::ImageGif)),
        ("css", ResourceType::Mime(MimeType::TextCss)),
        ("html", ResourceType::Mime(MimeType::TextHtml)),
        ("json", ResourceType::Mime(MimeType::ApplicationJson)),
        ("mp3", ResourceType::Mime(MimeType::AudioMp3)),
        ("mp4", ResourceType::Mime(MimeType::VideoMp4)),
        ("png", ResourceType::Mime(MimeType::ImagePng)),
        ("txt", ResourceType::Mime(MimeType::TextPlain)),
        ("xml", ResourceType::Mime(MimeType::TextXml)),
        ("fn", ResourceType::Mime(MimeType::FnJavascript)),
        ("unknown", ResourceType::Mime(MimeType::Unknown)),
        ("template", ResourceType::Template),
    ]
}

fn check_redirect(mask: u8, kind_idx: usize, l: &mut Local) {
    let ks = kinds();
    let (kname, kind) = ks[kind_idx % ks.len()].clone();
    let res = resource("r.x", &["ra"], kind, "x", &[], mask);
    let case = json!({"part":"redirect","mask":mask,"kind":kind_idx});
    l.states += 1;
    // direct, by name and by alias
    let direct = catch(|| {
        let st = ResourceStorage::from_resources([res.clone()]);
        (st.get_redirect_resource("r.x"), st.get_redirect_resource("ra"))
    });
    // through a `$redirect` rule
    let via_engine = catch(|| {
        let mut fs = FilterSet::new(false);
        fs.add_filters(&["||ads.example^$script,redirect=r.x", "||ads2.example^$script,redirect=ra"], opts_perm(255));
        let mut e = engine_from_set(fs, true);
        e.use_resources([res.clone()]);
        let r1 = Request::new("https://ads.example/a.js", "https://example.com/", "script").unwrap();
        let r2 = Request::new("https://ads2.example/a.js", "https://example.com/", "script").unwrap();
        let b1 = e.check_network_request(&r1);
        let b2 = e.check_network_request(&r2);
        (b1.matched && b2.matched, b1.redirect, b2.redirect)
    });
    l.evaluations += 1;
    l.transitions += 4;
    let (d1, d2) = match direct {
        Ok(x) => x,
        Err(loc) => {
            l.mismatch(Mismatch { sig: format!("c18.redirect.panic@{}", loc), what: "get_redirect_resource panicked".into(), case, size: 1 });
            return;
        }
    };
    let (matched, e1, e2) = match via_engine {
        Ok(x) => x,
        Err(loc) => {
            l.mismatch(Mismatch { sig: format!("c18.redirect.panic@{}", loc), what: "check_network_request panicked".into(), case, size: 1 });
            return;
        }
    };
    let served = [d1.is_some(), d2.is_some(), e1.is_some(), e2.is_some()];
    if mask != 0 {
        l.compared += 1;
        l.hist(if served.iter().any(|s| *s) { "redirect:PERMISSIONED-SERVED" } else { "redirect:permissioned-refused" });
        if served.iter().any(|s| *s) {
            l.mismatch(Mismatch {
                sig: format!("c18.redirect.permissioned-resource-served.{}", kname),
                what: format!("resource kind {} needing {:#b} was served as a redirect (name, alias, rule by name, rule by alias) = {:?}", kname, mask, served),
                case,
                size: (mask as u64).count_ones() as u64 * 16 + kind_idx as u64,
            });
        }
    } else {
        // only the refusal is pinned by the property; the unpermissioned control shows the sweep is
        // not vacuous (a redirectable kind IS served when it needs no permission)
        l.unspecified += 1;
        if matched && served.iter().all(|s| *s) {
            l.nontrivial += 1;
            l.hist("redirect:unpermissioned-served");
        } else {
            l.hist("redirect:unpermissioned-not-redirectable-kind");
        }
    }
}

// ---------------------------------------------------------------------------------------------
// (b) dependency graphs
// ---------------------------------------------------------------------------------------------

const NODE_RES: [&str; 3] = ["s1.js", "s2.js", "f.js"];
const S1_BODY: &str = "function s1(){/*body-s1*/}";
const S2_FN_BODY: &str = "function s2(){/*body-s2*/}";
const S2_TPL_BODY: &str = "s2tpl('{{1}}');/*body-s2*/";

#[derive(Clone, Copy, Debug)]
struct G {
    edges: u16, // bit i*3+j: node i depends on node j
    miss: u8,   // bit i: node i depends on "missing.js"
    rev: bool,  // dependencies listed in descending instead of ascending order
    perms: [u8; 3],
    s2_tpl: bool,
}

impl G {
    /// index = base + BASE * variant; base = edges x missing-edges x permissions, variant = listing
    /// order of the dependencies x style of s2 (variant 0: ascending, s2 function-style)
    fn from_index(i: u64) -> G {
        let variant = i / G::BASE;
        let i = i % G::BASE;
        let edges = (i % 512) as u16;
        let i = i / 512;
        let miss = (i % 8) as u8;
        let mut p = i / 8;
        let mut perms = [0u8; 3];
        for k in 0..3 {
            perms[k] = (p % 3) as u8;
            p /= 3;
        }
        G { edges, miss, rev: variant % 2 == 1, perms, s2_tpl: variant / 2 == 1 }
    }
    const BASE: u64 = 512 * 8 * 27;
    const COUNT: u64 = G::BASE * 4;
    fn edge(&self, i: usize, j: usize) -> bool {
        self.edges & (1 << (i * 3 + j)) != 0
    }
    fn deps(&self, i: usize) -> Vec<&'static str> {
        let mut v = vec![];
        for j in 0..3 {
            if self.edge(i, j) {
                v.push(NODE_RES[j]);
            }
        }
        if self.miss & (1 << i) != 0 {
            v.push("missing.js");
        }
        if self.rev {
            v.reverse();
        }
        v
    }
    /// `rev` only distinguishes graphs in which some node lists two or more dependencies
    fn redundant(&self) -> bool {
        self.rev && (0..3).all(|i| self.deps(i).len() < 2)
    }
    fn storage(&self) -> ResourceStorage {
        ResourceStorage::from_resources([
            resource(NODE_RES[0], &[], JS, S1_BODY, &self.deps(0), self.perms[0]),
            resource(NODE_RES[1], &[], JS, if self.s2_tpl { S2_TPL_BODY } else { S2_FN_BODY }, &self.deps(1), self.perms[1]),
            resource(NODE_RES[2], &[], FNJS, F_BODY, &self.deps(2), self.perms[2]),
        ])
    }
    /// reflexive-transitive reachability over the three resource nodes, and whether the missing
    /// name is reachable
    fn reach(&self) -> ([u8; 3], [bool; 3]) {
        let mut r = [1u8, 2, 4];
        loop {
            let mut changed = false;
            for i in 0..3 {
                for j in 0..3 {
                    if r[i] & (1 << j) != 0 {
                        for k in 0..3 {
                            if self.edge(j, k) && r[i] & (1 << k) == 0 {
                                r[i] |= 1 << k;
                                changed = true;
                            }
                        }
                    }
                }
            }
            if !changed {
                break;
            }
        }
        let mut m = [false; 3];
        for i in 0..3 {
            for j in 0..3 {
                if r[i] & (1 << j) != 0 && self.miss & (1 << j) != 0 {
                    m[i] = true;
                }
            }
        }
        (r, m)
    }
    fn json(&self) -> Value {
        json!({"edges": self.edges, "miss": self.miss, "rev": self.rev, "perms": self.perms, "s2_tpl": self.s2_tpl,
               "deps": {"s1.js": self.deps(0), "s2.js": self.deps(1), "f.js": self.deps(2)}})
    }
    fn size(&self) -> u64 {
        (self.edges.count_ones() + self.miss.count_ones()) as u64 * 8
            + self.perms.iter().map(|p| (*p != 0) as u64).sum::<u64>() * 4
            + self.rev as u64
            + self.s2_tpl as u64
    }
}

/// The injection alphabet: (node, list mask, `+js` body). The argument is the mask, which makes
/// every element recognisable in the output. node 3 = a scriptlet name that does not exist.
const ELEMS: [(usize, u8, &str); 10] = [
    (0, 0, "s1, 0"),
    (0, 1, "s1, 1"),
    (0, 2, "s1, 2"),
    (0, 3, "s1, 3"),
    (1, 0, "s2, 0"),
    (1, 1, "s2, 1"),
    (1, 2, "s2, 2"),
    (1, 3, "s2, 3"),
    (2, 3, "f, 3"),
    (3, 3, "zz, 3"),
];

/// Which injection element does an invocation line belong to?
fn elem_of_invocation(line: &str) -> Option<usize> {
    let (node, rest) = if let Some(r) = line.strip_prefix("s1(\"") {
        (0, r.strip_suffix("\")")?)
    } else if let Some(r) = line.strip_prefix("s2(\"") {
        (1, r.strip_suffix("\")")?)
    } else if let Some(r) = line.strip_prefix("s2tpl('") {
        (1, r.strip_suffix("');/*body-s2*/")?)
    } else if let Some(r) = line.strip_prefix("f(\"") {
        (2, r.strip_suffix("\")")?)
    } else {
        return None;
    };
    let m: u8 = rest.parse().ok()?;
    ELEMS.iter().position(|e| e.0 == node && e.1 == m)
}

fn node_of_body(line: &str, g: &G) -> Option<usize> {
    if line == S1_BODY {
        Some(0)
    } else if line == if g.s2_tpl { S2_TPL_BODY } else { S2_FN_BODY } {
        Some(1)
    } else if line == F_BODY {
        Some(2)
    } else {
        None
    }
}

/// The reference: must the invocation of element `e` appear?
fn expect_elem(g: &G, reach: &([u8; 3], [bool; 3]), e: usize) -> Tri {
    let (node, mask, _) = ELEMS[e];
    if node >= 2 {
        // `f` is fn/javascript (documented: usable as a dependency only), `zz` does not resolve
        return Tri::Must(false);
    }
    for j in 0..3 {
        if reach.0[node] & (1 << j) != 0 && !mask_ok(g.perms[j], mask) {
            return Tri::Must(false);
        }
    }
    if reach.1[node] {
        // every resource on the way is permitted, but a dependency name does not resolve: the
        // property does not say whether the injection is then dropped or emitted without it
        return Tri::Unspec;
    }
    Tri::Must(true)
}

fn run_order(st: &ResourceStorage, order: &[usize]) -> Result<String, String> {
    catch(|| st.get_scriptlet_resources(order.iter().map(|e| (ELEMS[*e].2, PermissionMask::from_bits(ELEMS[*e].1)))))
}

fn b_case(g: &G, order: &[usize]) -> Value {
    json!({"part":"b","graph": g.json(),
           "order": order,
           "injections": order.iter().map(|e| json!([ELEMS[*e].2, ELEMS[*e].1])).collect::<Vec<_>>()})
}

/// One (graph, unordered injection set): all permutations.
fn check_b_subset(g: &G, st: &ResourceStorage, reach: &([u8; 3], [bool; 3]), subset: &[usize], perms: &[Vec<usize>], l: &mut Local) {
    let exp: Vec<Tri> = subset.iter().map(|e| expect_elem(g, reach, *e)).collect();
    // non-trivial: the gate has something to decide (a permissioned resource is reachable from an
    // injected scriptlet)
    let nontrivial = subset.iter().any(|e| {
        let n = ELEMS[*e].0;
        n < 2 && (0..3).any(|j| reach.0[n] & (1 << j) != 0 && g.perms[j] != 0)
    });
    let mut first: Option<(Vec<usize>, Vec<usize>)> = None; // (order, sorted invoked elements)
    for p in perms {
        let order: Vec<usize> = p.iter().map(|k| subset[*k]).collect();
        l.evaluations += 1;
        l.transitions += 1;
        let size = g.size() * 100 + order.len() as u64 * 1000 + order.iter().map(|e| ELEMS[*e].1 as u64).sum::<u64>();
        let out = match run_order(st, &order) {
            Ok(o) => o,
            Err(loc) => {
                l.mismatch(Mismatch {
                    sig: format!("c18.deps.panic@{}", loc),
                    what: format!("get_scriptlet_resources panicked at {}", loc),
                    case: b_case(g, &order),
                    size,
                });
                continue;
            }
        };
        let sc = match parse_script(&out) {
            Ok(s) => s,
            Err(e) => {
                l.mismatch(Mismatch { sig: "c18.deps.script-malformed".into(), what: format!("{}: {:?}", e, out), case: b_case(g, &order), size });
                continue;
            }
        };
        let mut invoked: Vec<usize> = vec![];
        let mut malformed = false;
        for inv in &sc.invs {
            match elem_of_invocation(inv) {
                Some(e) if order.contains(&e) && !invoked.contains(&e) => invoked.push(e),
                _ => {
                    malformed = true;
                    l.mismatch(Mismatch {
                        sig: "c18.deps.invocation-not-requested".into(),
                        what: format!("invocation {:?} does not belong to (or repeats) an element of the injection list", inv),
                        case: b_case(g, &order),
                        size,
                    });
                }
            }
        }
        if malformed {
            continue;
        }
        invoked.sort();
        l.compared += 1;
        if nontrivial {
            l.nontrivial += 1;
        }
        l.hist(match invoked.len() {
            0 => "b:0-invocations",
            1 => "b:1-invocation",
            2 => "b:2-invocations",
            _ => "b:3-invocations",
        });
        // clause 1: invocation appears <=> reference
        for (k, e) in subset.iter().enumerate() {
            let got = invoked.contains(e);
            match exp[k] {
                Tri::Unspec => l.unspecified += 1,
                Tri::Must(want) if want == got => {}
                Tri::Must(want) => {
                    let (node, mask, text) = ELEMS[*e];
                    let sig = if !want && node >= 2 {
                        "c18.deps.non-injectable-or-unknown-name-invoked".to_string()
                    } else if !want {
                        // classifier: does the same injection get through on its own?
                        let alone = run_order(st, &[*e]).ok().and_then(|o| parse_script(&o).ok()).map(|s| !s.invs.is_empty()).unwrap_or(false);
                        let pos = order.iter().position(|x| x == e).unwrap_or(0);
                        let shares_with_earlier = order[..pos].iter().any(|x| {
                            let n = ELEMS[*x].0;
                            n < 2 && (reach.0[n] & reach.0[node]) != 0
                        });
                        if !mask_ok(g.perms[node], mask) {
                            "c18.deps.scriptlet-itself-unpermitted-yet-invoked".to_string()
                        } else if !alone && shares_with_earlier {
                            // refused alone, admitted after an earlier injection collected a
                            // resource that this one reaches too (D17)
                            "c18.deps.gate-skipped-for-already-collected-dependency".to_string()
                        } else if alone {
                            "c18.deps.unpermitted-dependency-yet-invoked".to_string()
                        } else {
                            "c18.deps.unpermitted-invoked.order-dependent-unexplained".to_string()
                        }
                    } else {
                        "c18.deps.permitted-invocation-missing".to_string()
                    };
                    l.mismatch(Mismatch {
                        sig,
                        what: format!(
                            "injection ({:?}, list mask {:#b}) in order {:?}: invocation {} but the reference says {} (permissions s1/s2/f = {:?}, reachable set of the scriptlet = {:#05b})",
                            text,
                            mask,
                            order.iter().map(|e| ELEMS[*e].2).collect::<Vec<_>>(),
                            if got { "appears" } else { "is absent" },
                            if want { "it must appear" } else { "it must not appear" },
                            g.perms,
                            reach.0[node]
                        ),
                        case: b_case(g, &order),
                        size,
                    });
                }
            }
        }
        // clause 2: every body that appears is reachable from an injected scriptlet whose mask
        // permits that body
        for b in &sc.bodies {
            match node_of_body(b, g) {
                None => l.mismatch(Mismatch {
                    sig: "c18.deps.unknown-text-in-script".into(),
                    what: format!("line {:?} is neither a resource body nor an invocation", b),
                    case: b_case(g, &order),
                    size,
                }),
                Some(j) => {
                    let justified = order.iter().any(|e| {
                        let (n, m, _) = ELEMS[*e];
                        n < 2 && reach.0[n] & (1 << j) != 0 && mask_ok(g.perms[j], m)
                    });
                    if !justified {
                        l.mismatch(Mismatch {
                            sig: if g.perms[j] != 0 { "c18.deps.permissioned-body-without-permitting-injection".into() } else { "c18.deps.body-not-reachable-from-any-injection".into() },
                            what: format!("body of {} (needs {:#b}) appears, but no injection of the list both reaches it and is granted its bits", NODE_RES[j], g.perms[j]),
                            case: b_case(g, &order),
                            size,
                        });
                    }
                }
            }
        }
        // clause 3: same set of invocations for every permutation
        match &first {
            None => first = Some((order.clone(), invoked.clone())),
            Some((o0, i0)) => {
                if *i0 != invoked {
                    // which elements differ, and are they all in the Unspecified region?
                    let differing: Vec<usize> = subset.iter().cloned().filter(|e| i0.contains(e) != invoked.contains(e)).collect();
                    let all_unspec = differing.iter().all(|e| {
                        let k = subset.iter().position(|x| x == e).unwrap();
                        exp[k] == Tri::Unspec
                    });
                    // (differences on Must elements are already reported by clause 1)
                    if all_unspec {
                        l.mismatch(Mismatch {
                            sig: "c18.deps.order-dependent.unresolvable-dependency-behind-already-collected-node".into(),
                            what: format!(
                                "same injections, different result: order {:?} invokes {:?}, order {:?} invokes {:?}",
                                o0.iter().map(|e| ELEMS[*e].2).collect::<Vec<_>>(),
                                i0.iter().map(|e| ELEMS[*e].2).collect::<Vec<_>>(),
                                order.iter().map(|e| ELEMS[*e].2).collect::<Vec<_>>(),
                                invoked.iter().map(|e| ELEMS[*e].2).collect::<Vec<_>>()
                            ),
                            case: b_case(g, &order),
                            size,
                        });
                    }
                }
            }
        }
    }
}

fn subsets_upto(n: usize, k: usize) -> Vec<Vec<usize>> {
    let mut out = vec![vec![]];
    fn rec(start: usize, n: usize, k: usize, cur: &mut Vec<usize>, out: &mut Vec<Vec<usize>>) {
        if cur.len() == k {
            return;
        }
        for i in start..n {
            cur.push(i);
            out.push(cur.clone());
            rec(i + 1, n, k, cur, out);
            cur.pop();
        }
    }
    rec(0, n, k, &mut vec![], &mut out);
    out.sort_by_key(|v| v.len());
    out
}

fn check_b_graph(g: &G, subsets: &[Vec<usize>], perm_tab: &[Vec<Vec<usize>>], l: &mut Local) {
    if g.redundant() {
        return;
    }
    let st = match catch(|| g.storage()) {
        Ok(s) => s,
        Err(loc) => {
            l.mismatch(Mismatch { sig: format!("c18.deps.panic@{}", loc), what: "building the resource storage panicked".into(), case: json!({"part":"b","graph":g.json(),"order":[]}), size: g.size() });
            return;
        }
    };
    l.states += 1;
    let reach = g.reach();
    // redirect clause on the same stores: a permissioned node is never a redirect
    for j in 0..3 {
        l.transitions += 1;
        let r = catch(|| st.get_redirect_resource(NODE_RES[j]));
        if g.perms[j] != 0 {
            l.compared += 1;
            if !matches!(r, Ok(None)) {
                l.mismatch(Mismatch {
                    sig: "c18.redirect.permissioned-resource-served.graph-node".into(),
                    what: format!("{} needs {:#b} and was returned by get_redirect_resource: {:?}", NODE_RES[j], g.perms[j], r),
                    case: json!({"part":"b","graph":g.json(),"order":[]}),
                    size: g.size(),
                });
            }
        }
    }
    for s in subsets {
        check_b_subset(g, &st, &reach, s, &perm_tab[s.len()], l);
    }
}

// ---------------------------------------------------------------------------------------------
// (c) argument grammar reference + strict JSON string literal reader
// ---------------------------------------------------------------------------------------------

#[derive(Clone, Debug, PartialEq)]
struct RefArg {
    val: String,
    quote: Option<char>,
    raw: String, // the text between the quotes / between the commas (untrimmed for bare)
}

fn is_quote(c: char) -> bool {
    c == '"' || c == '\'' || c == '`'
}

/// Reference of the `+js(...)` argument list grammar, exactly as far as the property pins it:
/// arguments are separated by commas; a backslash directly before a comma makes the comma part of
/// the argument; an argument may instead be enclosed in `"`, `'` or `` ` `` (then commas are plain
/// text and a backslash directly before the same quote character makes the quote part of the
/// argument); blanks around an argument are dropped; every other character, including every other
/// backslash, is literal. `Err(reason)` = the property does not pin the reading (Unspecified).
fn ref_args(text: &str) -> Result<Vec<RefArg>, &'static str> {
    let cs: Vec<char> = text.chars().collect();
    let n = cs.len();
    let exotic = |c: char| c != ' ' && c.is_whitespace();
    let mut out: Vec<RefArg> = vec![];
    if cs.iter().all(|c| *c == ' ') {
        return Ok(out);
    }
    let mut i = 0;
    loop {
        while i < n && cs[i] == ' ' {
            i += 1;
        }
        if i >= n {
            // nothing but blanks after the last comma
            return Err("trailing-empty-argument");
        }
        if exotic(cs[i]) {
            return Err("non-blank-whitespace-at-argument-edge");
        }
        if is_quote(cs[i]) {
            let q = cs[i];
            i += 1;
            let start = i;
            let mut val = String::new();
            loop {
                if i >= n {
                    return Err("unbalanced-quote");
                }
                if cs[i] == '\\' {
                    let mut j = i;
                    while j < n && cs[j] == '\\' {
                        j += 1;
                    }
                    let run = j - i;
                    if j < n && cs[j] == q {
                        if run >= 2 {
                            return Err("backslash-run-before-separator");
                        }
                        val.push(q);
                        i = j + 1;
                    } else {
                        for _ in 0..run {
                            val.push('\\');
                        }
                        i = j;
                    }
                    continue;
                }
                if cs[i] == q {
                    break;
                }
                val.push(cs[i]);
                i += 1;
            }
            let raw: String = cs[start..i].iter().collect();
            i += 1; // closing quote
            let after_quote = i;
            while i < n && cs[i] == ' ' {
                i += 1;
            }
            if i < n && exotic(cs[i]) {
                return Err("non-blank-whitespace-at-argument-edge");
            }
            if i >= n {
                if i > after_quote {
                    return Err("blanks-between-closing-quote-and-end");
                }
                out.push(RefArg { val, quote: Some(q), raw });
                return Ok(out);
            }
            if cs[i] != ',' {
                return Err("text-after-closing-quote");
            }
            i += 1;
            out.push(RefArg { val, quote: Some(q), raw });
        } else {
            let start = i;
            let mut val = String::new();
            let mut by_comma = false;
            let mut end = n;
            while i < n {
                if cs[i] == '\\' {
                    let mut j = i;
                    while j < n && cs[j] == '\\' {
                        j += 1;
                    }
                    let run = j - i;
                    if j < n && cs[j] == ',' {
                        if run >= 2 {
                            return Err("backslash-run-before-separator");
                        }
                        val.push(',');
                        i = j + 1;
                    } else {
                        for _ in 0..run {
                            val.push('\\');
                        }
                        i = j;
                    }
                    continue;
                }
                if cs[i] == ',' {
                    by_comma = true;
                    end = i;
                    i += 1;
                    break;
                }
                val.push(cs[i]);
                i += 1;
            }
            let raw: String = cs[start..end].iter().collect();
            let trimmed = val.trim_end_matches(' ');
            if trimmed.chars().last().map(exotic).unwrap_or(false) {
                return Err("non-blank-whitespace-at-argument-edge");
            }
            out.push(RefArg { val: trimmed.to_string(), quote: None, raw });
            if !by_comma {
                return Ok(out);
            }
        }
        // a comma was consumed: another argument follows (possibly empty; if only blanks remain it
        // is the Unspecified trailing empty argument, decided at the top of the loop)
        if i >= n {
            return Err("trailing-empty-argument");
        }
    }
}

/// Strict reader of one JSON string literal (RFC 8259 §7) starting at `cs[*i]`.
fn read_json_string(cs: &[char], i: &mut usize) -> Result<String, String> {
    if *i >= cs.len() || cs[*i] != '"' {
        return Err(format!("expected an opening double quote at offset {}", *i));
    }
    *i += 1;
    let mut out = String::new();
    let hex4 = |cs: &[char], at: usize| -> Result<u32, String> {
        if at + 4 > cs.len() {
            return Err("\\u escape cut short".into());
        }
        let mut v = 0u32;
        for k in 0..4 {
            v = v * 16 + cs[at + k].to_digit(16).ok_or_else(|| format!("bad hex digit {:?} in \\u escape", cs[at + k]))?;
        }
        Ok(v)
    };
    loop {
        if *i >= cs.len() {
            return Err("literal not terminated".into());
        }
        let c = cs[*i];
        *i += 1;
        match c {
            '"' => return Ok(out),
            '\\' => {
                if *i >= cs.len() {
                    return Err("escape cut short".into());
                }
                let e = cs[*i];
                *i += 1;
                match e {
                    '"' => out.push('"'),
                    '\\' => out.push('\\'),
                    '/' => out.push('/'),
                    'b' => out.push('\u{8}'),
                    'f' => out.push('\u{c}'),
                    'n' => out.push('\n'),
                    'r' => out.push('\r'),
                    't' => out.push('\t'),
                    'u' => {
                        let v = hex4(cs, *i)?;
                        *i += 4;
                        if (0xD800..0xDC00).contains(&v) {
                            if *i + 6 <= cs.len() && cs[*i] == '\\' && cs[*i + 1] == 'u' {
                                let lo = hex4(cs, *i + 2)?;
                                if !(0xDC00..0xE000).contains(&lo) {
                                    return Err("high surrogate not followed by a low surrogate".into());
                                }
                                *i += 6;
                                let cp = 0x10000 + ((v - 0xD800) << 10) + (lo - 0xDC00);
                                out.push(char::from_u32(cp).ok_or("bad surrogate pair")?);
                            } else {
                                return Err("lone high surrogate".into());
                            }
                        } else if (0xDC00..0xE000).contains(&v) {
                            return Err("lone low surrogate".into());
                        } else {
                            out.push(char::from_u32(v).ok_or("bad code point")?);
                        }
                    }
                    other => return Err(format!("unknown escape \\{}", other)),
                }
            }
            c if (c as u32) < 0x20 => return Err(format!("raw control character U+{:04X} inside the literal", c as u32)),
            c => out.push(c),
        }
    }
}

/// `name(` lit {`, ` lit} `)` with nothing left over.
fn tokenise_invocation(inv: &str, name: &str) -> Result<Vec<String>, String> {
    let rest = inv.strip_prefix(name).ok_or_else(|| format!("does not start with {:?}", name))?;
    let rest = rest.strip_prefix('(').ok_or("no opening parenthesis after the name")?;
    let cs: Vec<char> = rest.chars().collect();
    let mut i = 0;
    let mut out = vec![];
    if cs.len() == 1 && cs[0] == ')' {
        return Ok(out);
    }
    loop {
        out.push(read_json_string(&cs, &mut i)?);
        if i < cs.len() && cs[i] == ')' {
            if i + 1 == cs.len() {
                return Ok(out);
            }
            return Err(format!("text after the closing parenthesis: {:?}", cs[i + 1..].iter().collect::<String>()));
        }
        if i + 1 < cs.len() && cs[i] == ',' && cs[i + 1] == ' ' {
            i += 2;
            continue;
        }
        return Err(format!("after literal #{} neither `, ` nor `)` but {:?}", out.len(), cs[i.min(cs.len())..].iter().collect::<String>()));
    }
}

const ARG_ALPHA: [&str; 13] = ["a", " ", ",", "\\", "\"", "'", "`", "$", "{", "}", "\n", "\u{2028}", "é"];
const STYLES: [&str; 8] = ["bare", "bare-comma-escaped", "dq", "sq", "bq", "dq-quote-escaped", "sq-quote-escaped", "bq-quote-escaped"];
const POSITIONS: [&str; 3] = ["only", "first-of-two", "second-of-two"];
const FS_BODY: &str = "function fs(a, b){/*body-fs*/}";

/// Spelling of the argument text `s` in a style; `None` when the style spells it exactly like an
/// earlier style does (no separate case).
fn spell(s: &str, style: usize) -> Option<String> {
    let q = ['"', '\'', '`'];
    match style {
        0 => Some(s.to_string()),
        1 => {
            if s.contains(',') {
                Some(s.replace(',', "\\,"))
            } else {
                None
            }
        }
        2 | 3 | 4 => Some(format!("{}{}{}", q[style - 2], s, q[style - 2])),
        _ => {
            let qc = q[style - 5];
            if s.contains(qc) {
                Some(format!("{}{}{}", qc, s.replace(qc, &format!("\\{}", qc)), qc))
            } else {
                None
            }
        }
    }
}

fn place(spelled: &str, pos: usize) -> String {
    match pos {
        0 => format!("fs, {}", spelled),
        1 => format!("fs, {}, z", spelled),
        _ => format!("fs, z, {}", spelled),
    }
}

/// One `+js(<inner>)` rule through a real engine, against the reference.
fn check_c_inner(inner: &str, l: &mut Local) {
    l.evaluations += 1;
    l.states += 1;
    l.transitions += 1;
    let rule = format!("example.com##+js({})", inner);
    let case = json!({"part":"c","inner":inner,"rule":rule});
    let size = inner.chars().count() as u64;
    let out = match cosmetic_script(&[(&[rule.as_str()], 0)], vec![resource("fs.js", &[], JS, FS_BODY, &[], 0)], "https://example.com/") {
        Ok(o) => o,
        Err(loc) => {
            l.mismatch(Mismatch { sig: format!("c18.args.panic@{}", loc), what: format!("rule {:?}: panic at {}", rule, loc), case, size });
            return;
        }
    };
    // the well-formedness of whatever is emitted is pinned for every input
    let sc = match parse_script(&out) {
        Ok(s) => s,
        Err(e) => {
            l.mismatch(Mismatch { sig: "c18.args.script-malformed".into(), what: format!("rule {:?}: {}: {:?}", rule, e, out), case, size });
            return;
        }
    };
    if sc.invs.len() > 1 || sc.bodies.iter().any(|b| b != FS_BODY) {
        l.mismatch(Mismatch { sig: "c18.args.text-escaped-the-invocation".into(), what: format!("rule {:?}: script has extra lines: {:?}", rule, out), case, size });
        return;
    }
    let observed: Option<Vec<String>> = match sc.invs.first() {
        None => None,
        Some(inv) => match tokenise_invocation(inv, "fs") {
            Ok(v) => Some(v),
            Err(e) => {
                l.compared += 1;
                l.mismatch(Mismatch {
                    sig: "c18.args.literal-malformed".into(),
                    what: format!("rule {:?}: invocation {:?} is not `fs(` lit {{`, ` lit}} `)`: {}", rule, inv, e),
                    case,
                    size,
                });
                return;
            }
        },
    };
    let reference = ref_args(inner);
    let expected: Vec<RefArg> = match reference {
        Err(reason) => {
            l.unspecified += 1;
            l.count(&format!("c.unspecified:{}", reason), 1);
            l.hist(if observed.is_some() { "c:unspecified-grammar,injected-wellformed" } else { "c:unspecified-grammar,not-injected" });
            return;
        }
        Ok(v) => v,
    };
    if expected.is_empty() || expected[0].val != "fs" {
        // cannot happen with the spellings built here; a replayed foreign case may get here
        l.unspecified += 1;
        return;
    }
    let exp_args: Vec<&RefArg> = expected[1..].iter().collect();
    if exp_args.len() == 1 && exp_args[0].val.starts_with('{') && exp_args[0].val.ends_with('}') {
        // a single `{…}` argument is the documented-unsupported "object syntax"; the property is silent
        l.unspecified += 1;
        l.count("c.unspecified:single-braced-argument", 1);
        l.hist(if observed.is_some() { "c:unspecified-grammar,injected-wellformed" } else { "c:unspecified-grammar,not-injected" });
        return;
    }
    l.compared += 1;
    // non-trivial: some argument contains a character that needs care somewhere on the way
    if exp_args.iter().any(|a| a.val.chars().any(|c| c != 'a' && c != 'z')) {
        l.nontrivial += 1;
    }
    let observed = match observed {
        None => {
            l.hist("c:REJECTED-valid-spelling");
            // classifier: the one bare argument `{…}\` with an escaped comma; without its final
            // backslash it is a single `{…}` argument, which is refused as object syntax
            let lost_backslash_makes_braced = exp_args.len() == 1
                && exp_args[0].quote.is_none()
                && exp_args[0].raw.contains("\\,")
                && exp_args[0].val.strip_suffix('\\').map(|v| v.starts_with('{') && v.ends_with('}')).unwrap_or(false);
            l.mismatch(Mismatch {
                sig: if lost_backslash_makes_braced {
                    "c18.args.bare.final-backslash-lost-when-a-comma-was-escaped".into()
                } else {
                    "c18.args.valid-spelling-not-injected".into()
                },
                what: format!("rule {:?}: the reference reads arguments {:?}, but nothing is injected", rule, exp_args.iter().map(|a| &a.val).collect::<Vec<_>>()),
                case,
                size,
            });
            return;
        }
        Some(o) => o,
    };
    let exp_vals: Vec<String> = exp_args.iter().map(|a| a.val.clone()).collect();
    if observed == exp_vals {
        l.hist(match observed.len() {
            0 => "c:faithful-0-args",
            1 => "c:faithful-1-arg",
            2 => "c:faithful-2-args",
            _ => "c:faithful-3+-args",
        });
        return;
    }
    l.hist("c:UNFAITHFUL");
    // classifier
    let sig = if observed.len() != exp_vals.len() {
        "c18.args.argument-count-differs".to_string()
    } else {
        let k = (0..observed.len()).find(|k| observed[*k] != exp_vals[*k]).unwrap();
        let a = exp_args[k];
        match a.quote {
            Some(q) => {
                let esc = format!("\\{}", q);
                if a.raw.contains(&esc) && observed[k].contains(&esc) {
                    // the backslash that made the quote part of the argument is still there
                    "c18.args.quoted.escaped-quote-keeps-its-backslash".to_string()
                } else {
                    "c18.args.quoted.decoded-differs".to_string()
                }
            }
            None => {
                if a.raw.contains("\\,") && format!("{}\\", observed[k]) == exp_vals[k] {
                    "c18.args.bare.final-backslash-lost-when-a-comma-was-escaped".to_string()
                } else {
                    "c18.args.bare.decoded-differs".to_string()
                }
            }
        }
    };
    l.mismatch(Mismatch {
        sig,
        what: format!("rule {:?}: reference arguments {:?}, emitted literals decode to {:?} (invocation {:?})", rule, exp_vals, observed, sc.invs[0]),
        case,
        size,
    });
}

// ---------------------------------------------------------------------------------------------
// (d) exceptions
// ---------------------------------------------------------------------------------------------

const BODIES: [&str; 20] = [
    "s", "s.js", "s, a", "s,a", "s, a ", "s, \"a\"", "s, 'a'", "s, A", "s, a, b", "s, b, a", "s, b", "s, a\\, b", "s, \"a, b\"", "t", "t, a", " s", "s, aa",
    "s, é", "zz", "t, a, b",
];
const D_S_BODY: &str = "function s(){/*body-s*/}";
const D_T_BODY: &str = "function t(){/*body-t*/}";

fn d_resources() -> Vec<Resource> {
    vec![resource("s.js", &[], JS, D_S_BODY, &[], 0), resource("t.js", &[], JS, D_T_BODY, &[], 0)]
}

/// (scriptlet, args) as the reference reads a body; `None` for a name that does not resolve.
fn d_meaning(body: &str) -> Option<(String, Vec<String>)> {
    let a = ref_args(body).ok()?;
    let name = a.first()?.val.trim_end_matches(".js").to_string();
    if name != "s" && name != "t" {
        return None;
    }
    Some((name, a[1..].iter().map(|x| x.val.clone()).collect()))
}

fn d_invocation(m: &(String, Vec<String>)) -> String {
    format!("{}({})", m.0, m.1.iter().map(|a| serde_json::to_string(a).unwrap()).collect::<Vec<_>>().join(", "))
}

/// injections: indices into BODIES; exception: Some(text) ("" = blanket); `exc_host`: host of the
/// exception rule; `exc_first`: exception line before the injection lines. The page is
/// sub.example.com; injection rules are written for example.com.
fn check_d(injections: &[usize], exception: Option<&str>, exc_host: &str, exc_first: bool, l: &mut Local) {
    check_d_at("example.com", injections, exception, exc_host, exc_first, l)
}

/// `inj_host`: the location of the injection rules (all of D_INJ_HOSTS cover the page).
fn check_d_at(inj_host: &str, injections: &[usize], exception: Option<&str>, exc_host: &str, exc_first: bool, l: &mut Local) {
    l.evaluations += 1;
    l.states += 1;
    l.transitions += 1;
    // `inj_host` may name several locations separated by '|': the same injection then reaches the
    // page through several rules (it is still one injection, and one exception removes it)
    let mut rules: Vec<String> = inj_host.split('|').flat_map(|h| injections.iter().map(move |b| format!("{}##+js({})", h, BODIES[*b]))).collect();
    if let Some(x) = exception {
        let r = format!("{}#@#+js({})", exc_host, x);
        if exc_first {
            rules.insert(0, r);
        } else {
            rules.push(r);
        }
    }
    let case = json!({"part":"d","inj_host":inj_host,"injections":injections,"exception":exception,"exc_host":exc_host,"exc_first":exc_first,"rules":rules});
    let size = injections.len() as u64 * 100 + exception.map(|x| x.len()).unwrap_or(0) as u64 + exc_first as u64 + exc_host.len() as u64;
    let refs: Vec<&str> = rules.iter().map(|s| s.as_str()).collect();
    let out = match cosmetic_script(&[(&refs[..], 0)], d_resources(), "https://sub.example.com/") {
        Ok(o) => o,
        Err(loc) => {
            l.mismatch(Mismatch { sig: format!("c18.exception.panic@{}", loc), what: format!("rules {:?}: panic at {}", rules, loc), case, size });
            return;
        }
    };
    let sc = match parse_script(&out) {
        Ok(s) => s,
        Err(e) => {
            l.mismatch(Mismatch { sig: "c18.exception.script-malformed".into(), what: format!("{}: {:?}", e, out), case, size });
            return;
        }
    };
    let applies = ["example.com", "sub.example.com", "example.*", "sub.example.*"].contains(&exc_host);
    // lower and upper bound on the multiset of invocations
    let mut must: Vec<String> = vec![];
    let mut may: Vec<String> = vec![];
    // the engine keys injections by their text: the same body twice is one injection
    let mut seen: Vec<usize> = vec![];
    for b in injections {
        if seen.contains(b) {
            continue;
        }
        seen.push(*b);
        let m = match d_meaning(BODIES[*b]) {
            Some(m) => m,
            None => continue,
        };
        let inv = d_invocation(&m);
        match exception {
            Some(x) if applies => {
                if x.is_empty() || x == BODIES[*b] {
                    // removed
                } else if !x.is_empty() && d_meaning(x).as_ref() == Some(&m) {
                    // different text, same scriptlet and arguments: "identical injection" could be
                    // read either way -> Unspecified whether it stays
                    may.push(inv);
                } else {
                    must.push(inv);
                }
            }
            _ => must.push(inv),
        }
    }
    l.compared += 1;
    if exception.is_some() && applies {
        l.nontrivial += 1;
    }
    if !may.is_empty() {
        l.unspecified += 1;
    }
    let mut obs = sc.invs.clone();
    obs.sort();
    let mut lost: Vec<String> = vec![];
    let mut rest = obs.clone();
    for m in &must {
        match rest.iter().position(|x| x == m) {
            Some(p) => {
                rest.remove(p);
            }
            None => lost.push(m.clone()),
        }
    }
    let mut extra: Vec<String> = vec![];
    let mut may_left = may.clone();
    for r in rest {
        match may_left.iter().position(|x| *x == r) {
            Some(p) => {
                may_left.remove(p);
            }
            None => extra.push(r),
        }
    }
    l.hist(match (exception, obs.is_empty()) {
        (None, _) => "d:no-exception",
        (Some(""), true) => "d:blanket,nothing-injected",
        (Some(""), false) => "d:blanket,something-injected",
        (Some(_), true) => "d:exception,nothing-injected",
        (Some(_), false) => "d:exception,something-injected",
    });
    if !lost.is_empty() {
        let sig = match exception {
            Some("") if !applies => "c18.exception.blanket-for-another-host-removes",
            Some("") => "c18.exception.blanket-removes-wrongly", // unreachable: must is empty
            Some(_) if !applies => "c18.exception.for-another-host-removes",
            Some(_) => "c18.exception.removes-a-different-injection",
            None => "c18.exception.injection-lost-without-exception",
        };
        l.mismatch(Mismatch { sig: sig.into(), what: format!("rules {:?}: invocations {:?} must remain but are gone (script has {:?})", rules, lost, obs), case: case.clone(), size });
    }
    if !extra.is_empty() {
        let sig = match exception {
            Some("") => "c18.exception.blanket-leaves-an-injection",
            Some(_) => "c18.exception.identical-text-not-removed",
            None => "c18.exception.unexpected-invocation",
        };
        l.mismatch(Mismatch { sig: sig.into(), what: format!("rules {:?}: invocations {:?} must not be there (script has {:?})", rules, extra, obs), case, size });
    }
}

const D_EXC_HOSTS: [&str; 3] = ["example.com", "sub.example.com", "other.com"];
/// second sweep: every location that covers the page sub.example.com (site, exact host, entity
/// forms) for the injection x every such location, an unrelated host and an unrelated entity for
/// the exception: an exception written for a less specific or a more specific location than the
/// injection removes it all the same
const D_INJ_HOSTS: [&str; 4] = ["example.com", "sub.example.com", "example.*", "sub.example.*"];
// (the last two carry a negated location on an exception: a double negation, refused as a whole -
// such a line changes nothing)
const D_EXC_HOSTS2: [&str; 8] = ["example.com", "sub.example.com", "example.*", "sub.example.*", "other.com", "other.*", "other.com,~sub.example.*", "other.com,~sub.example.com"];

// ---------------------------------------------------------------------------------------------
// replay and driver
// ---------------------------------------------------------------------------------------------

fn g_from_json(v: &Value) -> G {
    let mut perms = [0u8; 3];
    for k in 0..3 {
        perms[k] = v["perms"][k].as_u64().unwrap_or(0) as u8;
    }
    G {
        edges: v["edges"].as_u64().unwrap_or(0) as u16,
        miss: v["miss"].as_u64().unwrap_or(0) as u8,
        rev: v["rev"].as_bool().unwrap_or(false),
        perms,
        s2_tpl: v["s2_tpl"].as_bool().unwrap_or(false),
    }
}

fn replay(case: &Value, l: &mut Local) {
    let u8_of = |v: &Value| v.as_u64().unwrap_or(0) as u8;
    match case["part"].as_str().unwrap_or("") {
        "a-direct" => check_a_direct(u8_of(&case["res"]), u8_of(&case["list"]), l),
        "a-path" | "a-merge" => {
            let masks: Vec<u8> = case["lists"].as_array().map(|a| a.iter().map(u8_of).collect()).unwrap_or_default();
            check_a_path(u8_of(&case["shape"]), u8_of(&case["res"]), &masks, l)
        }
        "a-rejected" => check_a_rejected(u8_of(&case["which"]), u8_of(&case["r0"]), u8_of(&case["r1"]), u8_of(&case["list"]), l),
        "redirect" => check_redirect(u8_of(&case["mask"]), case["kind"].as_u64().unwrap_or(0) as usize, l),
        "b" => {
            let g = g_from_json(&case["graph"]);
            let mut subset: Vec<usize> = case["order"].as_array().map(|a| a.iter().map(|x| x.as_u64().unwrap_or(0) as usize % ELEMS.len()).collect()).unwrap_or_default();
            subset.sort();
            subset.dedup();
            let perm_tab: Vec<Vec<Vec<usize>>> = (0..=subset.len()).map(permutations).collect();
            check_b_graph(&g, &[subset], &perm_tab, l);
        }
        "c" => check_c_inner(case["inner"].as_str().unwrap_or("fs"), l),
        "d" => {
            let inj: Vec<usize> = case["injections"].as_array().map(|a| a.iter().map(|x| x.as_u64().unwrap_or(0) as usize % BODIES.len()).collect()).unwrap_or_default();
            check_d_at(case["inj_host"].as_str().unwrap_or("example.com"), &inj, case["exception"].as_str(), case["exc_host"].as_str().unwrap_or("example.com"), case["exc_first"].as_bool().unwrap_or(false), l)
        }
        _ => {}
    }
}

fn check(ctx: &Ctx) -> i32 {
    // ---- (a) ----
    ctx.bound("a_mask_pairs", 65536);
    ctx.bound("a_path_shapes", json!(["permission on function-style scriptlet", "permission on template-style scriptlet", "permission on fn/javascript dependency"]));
    ctx.par_range("a-direct", 65536, 4096, |i, l| check_a_direct((i >> 8) as u8, (i & 255) as u8, l));
    ctx.par_range("a-path", 65536 * 3, 256, |i, l| {
        let shape = (i / 65536) as u8;
        let k = i % 65536;
        if i == (ctx.seed.wrapping_mul(7919) + 70_000) % (65536 * 3) {
            l.samples.push(json!({"part":"a-path","shape":shape,"res":(k>>8) as u8,"lists":[(k&255) as u8],"rule":"example.com##+js(p)"}));
        }
        check_a_path(shape, (k >> 8) as u8, &[(k & 255) as u8], l)
    });
    let mbits: u64 = ctx.tier.pick(16, 64);
    ctx.bound("a_merge_masks_each_below", mbits);
    ctx.par_range("a-merge", mbits * mbits * mbits * 2, 256, |i, l| {
        let shape = if i % 2 == 0 { 0 } else { 2 };
        let i = i / 2;
        let r = (i % mbits) as u8;
        let m1 = ((i / mbits) % mbits) as u8;
        let m2 = (i / mbits / mbits) as u8;
        check_a_path(shape, r, &[m1, m2], l)
    });
    // a second, rejected offer of a stored name: every (stored mask, offered mask, list mask) below 8
    ctx.par_range("a-rejected", 3 * 8 * 8 * 8, 16, |i, l| check_a_rejected((i / 512) as u8, (i % 8) as u8, (i / 8 % 8) as u8, (i / 64 % 8) as u8, l));
    let nk = kinds().len() as u64;
    ctx.bound("redirect_masks_x_kinds", 256 * nk);
    ctx.par_range("redirect", 256 * nk, 32, |i, l| check_redirect((i / nk) as u8, (i % nk) as usize, l));

    // ---- (c) ----
    let alen: u32 = ctx.tier.pick(3, 4);
    let nstr = count_strings_upto(ARG_ALPHA.len() as u64, alen);
    ctx.bound("c_argument_max_len", alen);
    ctx.bound("c_argument_strings", nstr);
    ctx.bound("c_alphabet", json!(ARG_ALPHA));
    ctx.bound("c_styles", json!(STYLES));
    ctx.bound("c_positions", json!(POSITIONS));
    let per = (STYLES.len() * POSITIONS.len()) as u64;
    ctx.par_range("c-arguments", nstr * per, 64, |i, l| {
        let s = nth_string(i / per, &ARG_ALPHA);
        let style = ((i % per) / POSITIONS.len() as u64) as usize;
        let pos = ((i % per) % POSITIONS.len() as u64) as usize;
        let spelled = match spell(&s, style) {
            Some(x) => x,
            None => {
                l.count("c.style-coincides-with-plain-style", 1);
                return;
            }
        };
        let inner = place(&spelled, pos);
        let k = ctx.seed.wrapping_mul(7919);
        if (i % per == 0 && i / per == (k + 777) % nstr) || (i % per == 7 && i / per == (k + 1500) % nstr) {
            l.samples.push(json!({"part":"c","argument_text":s,"style":STYLES[style],"position":POSITIONS[pos],"rule":format!("example.com##+js({})", inner)}));
        }
        check_c_inner(&inner, l)
    });

    // every code point of a menu (all of U+0000..U+00A0 and a few above) as the middle character of
    // an argument, in the plain and the double-quoted spelling (the alphabet above has one control
    // character; escapes are produced per character class)
    let menu: Vec<char> = (0u32..=0xA0).chain([0xAD, 0x2028, 0x2029, 0xFEFF, 0xFFFD, 0xD7FF, 0xE000, 0x10FFFF]).filter_map(char::from_u32).collect();
    ctx.bound("c_code_point_menu", menu.len());
    ctx.par_range("c-code-points", menu.len() as u64 * 2, 16, |i, l| {
        let ch = menu[(i / 2) as usize];
        // characters that are part of the argument syntax itself are covered by the sweep above
        if [',', '\\', '"', '\'', '`', ')', '(', '\n', '\r'].contains(&ch) {
            return;
        }
        let s = format!("a{}b", ch);
        let spelled = if i % 2 == 0 { s } else { format!("\"{}\"", s) };
        check_c_inner(&place(&spelled, 0), l)
    });

    // two and three arguments, each in every spelling: state of the argument splitter (the current
    // separator / quote, pending escapes) must not leak from one argument into the next
    const PAIR_ALPHA: [&str; 5] = ["a", ",", "\\", "'", "\""];
    const THIRD: [&str; 5] = ["", "z", "'q'", "b\\,c", "\"x,y\""];
    let mut spelled_args: Vec<String> = vec![];
    for k in 0..count_strings_upto(PAIR_ALPHA.len() as u64, 2) {
        let t = nth_string(k, &PAIR_ALPHA);
        for style in 0..STYLES.len() {
            if let Some(x) = spell(&t, style) {
                if !spelled_args.contains(&x) {
                    spelled_args.push(x);
                }
            }
        }
    }
    let na = spelled_args.len() as u64;
    ctx.bound("c_pair_spelled_arguments", na);
    ctx.bound("c_pair_third_argument", json!(THIRD));
    ctx.par_range("c-argument-pairs", na * na * THIRD.len() as u64, 64, |i, l| {
        let (a, b, t) = ((i % na) as usize, (i / na % na) as usize, (i / na / na) as usize);
        let inner = if THIRD[t].is_empty() { format!("fs, {}, {}", spelled_args[a], spelled_args[b]) } else { format!("fs, {}, {}, {}", spelled_args[a], spelled_args[b], THIRD[t]) };
        check_c_inner(&inner, l)
    });

    // many arguments: 0 to 14 plain arguments (template scriptlets substitute {{1}}..{{9}}; a
    // function-style scriptlet receives every argument of the rule)
    ctx.par_range("c-many-arguments", 15, 1, |n, l| {
        let args: Vec<String> = (1..=n).map(|k| format!("a{}", k)).collect();
        let inner = if args.is_empty() { "fs".to_string() } else { format!("fs, {}", args.join(", ")) };
        check_c_inner(&inner, l)
    });

    // ---- (d) ----
    let nb = BODIES.len() as u64;
    ctx.bound("d_bodies", json!(BODIES));
    // pairs x exception host x line order
    ctx.par_range("d-pairs", nb * nb * 3 * 2, 16, |i, l| {
        let b1 = (i % nb) as usize;
        let b2 = ((i / nb) % nb) as usize;
        let h = ((i / nb / nb) % 3) as usize;
        let first = i / nb / nb / 3 == 1;
        if i == (ctx.seed.wrapping_mul(7919) + 1_003) % (nb * nb * 6) {
            l.samples.push(json!({"part":"d","rules":[format!("example.com##+js({})", BODIES[b1]), format!("{}#@#+js({})", D_EXC_HOSTS[h], BODIES[b2])]}));
        }
        check_d(&[b1], Some(BODIES[b2]), D_EXC_HOSTS[h], first, l)
    });
    // injection location x exception location, on a 6-body sub-alphabet (identical, other
    // arguments, other scriptlet, blanket)
    let sub: [usize; 6] = [0, 2, 3, 8, 13, 14];
    ctx.bound("d_location_sweep", json!({"injection_locations": D_INJ_HOSTS, "exception_locations": D_EXC_HOSTS2, "bodies": sub.iter().map(|b| BODIES[*b]).collect::<Vec<_>>()}));
    let (ni, ne, ns) = (D_INJ_HOSTS.len() as u64, D_EXC_HOSTS2.len() as u64, sub.len() as u64);
    ctx.par_range("d-locations", ni * ne * ns * (ns + 1) * 2, 16, |i, l| {
        let ih = D_INJ_HOSTS[(i % ni) as usize];
        let eh = D_EXC_HOSTS2[((i / ni) % ne) as usize];
        let b1 = sub[((i / ni / ne) % ns) as usize];
        let x = ((i / ni / ne / ns) % (ns + 1)) as usize;
        let first = i / ni / ne / ns / (ns + 1) == 1;
        let exc = if x < sub.len() { BODIES[sub[x]] } else { "" };
        check_d_at(ih, &[b1], Some(exc), eh, first, l);
    });
    // the same injection requested by two rules (two locations that both cover the page, or the
    // same rule twice) x exception location x exception body
    let doubles: Vec<String> = {
        let mut v = vec![];
        for (i, a) in D_INJ_HOSTS.iter().enumerate() {
            for b in D_INJ_HOSTS.iter().skip(i) {
                v.push(format!("{}|{}", a, b));
            }
        }
        v.push("example.com,sub.example.com".to_string()); // one rule, two locations
        v
    };
    ctx.bound("d_double_request_locations", json!(doubles));
    let nd = doubles.len() as u64;
    ctx.par_range("d-double-requests", nd * ne * ns * (ns + 1) * 2, 16, |i, l| {
        let ih = &doubles[(i % nd) as usize];
        let eh = D_EXC_HOSTS2[((i / nd) % ne) as usize];
        let b1 = sub[((i / nd / ne) % ns) as usize];
        let x = ((i / nd / ne / ns) % (ns + 1)) as usize;
        let first = i / nd / ne / ns / (ns + 1) == 1;
        let exc = if x < sub.len() { BODIES[sub[x]] } else { "" };
        check_d_at(ih, &[b1], Some(exc), eh, first, l);
    });
    // every body injected; one exception / blanket / none
    let all: Vec<usize> = (0..BODIES.len()).collect();
    ctx.par_range("d-all-bodies", (nb + 2) * 3 * 2, 1, |i, l| {
        let x = (i % (nb + 2)) as usize;
        let h = ((i / (nb + 2)) % 3) as usize;
        let first = i / (nb + 2) / 3 == 1;
        let exc = if x < BODIES.len() {
            Some(BODIES[x])
        } else if x == BODIES.len() {
            Some("")
        } else {
            None
        };
        check_d(&all, exc, D_EXC_HOSTS[h], first, l);
        // blanket against a single injection as well
        if x < BODIES.len() {
            check_d(&[x], Some(""), D_EXC_HOSTS[h], first, l);
        }
    });

    // ---- (b) ---- (last: it is the largest sweep)
    // quick: the 110 592 base graphs (dependencies listed ascending, s2 function-style) x every
    //        list of <= 2 of the 8 (s1|s2, mask) injections in every order, + `f` and `zz` alone;
    // thorough: all 442 368 graph configurations x every list of <= 2 of all 10 elements in every
    //        order, and the base graphs also x every list of exactly 3 of the 8 in every order.
    let thorough = ctx.tier == vh::Tier::Thorough;
    let mut subsets: Vec<Vec<usize>> = if thorough {
        subsets_upto(ELEMS.len(), 2)
    } else {
        let mut v = subsets_upto(8, 2);
        v.push(vec![8]);
        v.push(vec![9]);
        v
    };
    subsets.sort_by_key(|v| v.len());
    let triples: Vec<Vec<usize>> = if thorough { subsets_upto(8, 3).into_iter().filter(|s| s.len() == 3).collect() } else { vec![] };
    let subsets_base: Vec<Vec<usize>> = subsets.iter().chain(triples.iter()).cloned().collect();
    let perm_tab: Vec<Vec<Vec<usize>>> = (0..=3).map(permutations).collect();
    let ordered: usize = subsets.iter().map(|s| perm_tab[s.len()].len()).sum();
    let ordered3: usize = triples.iter().map(|s| perm_tab[s.len()].len()).sum();
    let ngraphs = if thorough { G::COUNT } else { G::BASE };
    ctx.bound("b_graph_configurations", ngraphs);
    ctx.bound("b_injection_alphabet", json!(ELEMS.iter().map(|e| json!([e.2, e.1])).collect::<Vec<_>>()));
    ctx.bound("b_ordered_injection_lists_per_graph", ordered);
    ctx.bound("b_ordered_injection_lists_of_3_per_base_graph", ordered3);
    ctx.par_range("b-graphs", ngraphs, 8, |i, l| {
        let g = G::from_index(i);
        if i % (ngraphs / 2) == (ctx.seed.wrapping_mul(7919) + 4_321) % (ngraphs / 2) {
            l.samples.push(json!({"part":"b","graph":g.json(),"ordered_injection_lists":ordered + if i < G::BASE { ordered3 } else { 0 }}));
        }
        check_b_graph(&g, if i < G::BASE { &subsets_base } else { &subsets }, &perm_tab, l);
    });

    ctx.finish(
        "model_checking",
        "(a) all 256x256 (resource mask, list mask) pairs, directly and through FilterSet->Engine->url_cosmetic_resources in 3 shapes, plus two lists with the same rule and different masks; all 256 masks x 13 resource kinds as redirect (direct by name/alias and through $redirect rules); (b) all 2^9 edge sets on {s1,s2,f} x optional edge to a missing name per node x both dependency listing orders x node permissions {0,1,2}^3 x s2 function/template style, each with every injection list of <=k elements of a 10-element alphabet in EVERY order through get_scriptlet_resources; (c) every argument text of length <=n over 13 symbols x 8 spellings x 3 positions through a function-style scriptlet in an engine; (d) 20x20 (injection, exception) body pairs x 3 exception hosts x 2 line orders, 4 injection locations x 6 exception locations (site, exact host, entity forms, unrelated) x 6x7 bodies x 2 line orders, the same for an injection requested by two rules at once (11 location pairs), plus all bodies with one/blanket/no exception. non-trivial = (a) resource needs a bit, (b) a permissioned resource is reachable from an injected scriptlet, (c) an argument holds a character other than a/z, (d) an applicable exception is present. states = engines / resource stores built, transitions = queries, traces_validated = results compared with the reference",
        &[
            "emitted argument literals are read as JSON string literals (RFC 8259); raw U+2028 inside a literal is legal there (and in JavaScript since ES2019)",
            "the +js grammar is pinned only as far as: comma separated, backslash-comma = literal comma, optional \"…\" '…' `…` quoting with backslash-quote = literal quote, blanks trimmed, everything else literal; Unspecified: unbalanced quote, text or trailing blanks after a closing quote, runs of >=2 backslashes before a separator, non-blank whitespace (LF, U+2028) at an argument edge, trailing empty argument, a single {…} argument",
            "a dependency name that does not resolve: whether the injection is dropped is Unspecified; that the result does not depend on the order of the injections is still required",
            "an exception whose text differs but reads as the same scriptlet and arguments: Unspecified whether it removes",
            "dependencies are named by canonical names (documented precondition of Resource::dependencies)",
        ],
    )
}

fn main() {
    run_main("C18", check, replay)
}
