//! C19 — thread-safe build: concurrent queries equal sequential ones.
//!
//! Two halves (DESIGN §4 C19):
//!  (a) SX, sync configuration only: stateless DFS with iterative preemption bounding over all
//!      interleavings of N real threads x M queries on one shared real `Engine`. Scheduling points
//!      come from the cfg-guarded seam in /repo (lock attempt on the regex-manager mutex, entry of
//!      RegexManager::matches / cleanup); blocking is decided by the real `Mutex::try_lock`.
//!  (b) BX across configurations: the unsync binary writes one hash per rule list of C01's quick
//!      universe (network verdict + CSP for every request, plus cosmetic answers); the sync binary
//!      recomputes them and compares.
//!
//! Invocation (driven by /verif/run):
//!   unsync:  c19 answers <file>            write the per-list answer hashes
//!            c19 answers-list <idx>        print the full answers of one list (used for witnesses)
//!   sync:    c19 <quick|thorough>          run (a) and (b), write evidence
//!            c19 explore <plan> <bound>    one child exploration, prints a JSON summary
//!            c19 replay <path>

use adblock::request::Request;
use adblock::Engine;
use serde_json::{json, Value};
use std::collections::BTreeSet;
use vh::alpha;
use vh::net::{csp_set, Verdict};
use vh::util::{count_arrangements_upto, nth_arrangement};

// ------------------------------------------------------------------------------------------
// (b) answers of a configuration
// ------------------------------------------------------------------------------------------

fn pool() -> Vec<(&'static str, bool)> {
    alpha::R_NET.iter().map(|r| (*r, false)).chain(alpha::R_HOSTS.iter().map(|r| (*r, true))).collect()
}

// (the last two generichide exceptions are filed under the hash of an initiator domain, not under a
// token of the page URL)
const COSMETIC_RULES: &[&str] = &[
    "x.com##.ad", "##.generic", "x.com##+js(s1, v)", "x.com#@#.generic", "@@||gh.com^$generichide", "ads.net##.banner:style(top:0)",
    "@@*$generichide,domain=gd.com|gd2.com", "@@/article/*$generichide,domain=news.com",
    // one regex text with and without match-case, reachable by different request types
    "/Fo+\\/Bar/$match-case,script", "/Fo+\\/Bar/$image",
];

/// Lists outside the arrangement scheme: compiled regexes of a size the small lists never reach (one
/// full regex with a large counted repetition, 1 800 wildcard rules that share one bucket and are
/// fused, a long run of one character). Both builds must compile and answer them alike.
const SPECIAL_LISTS: u64 = 3;
fn special_answers(k: u64, full: bool) -> (u64, Vec<String>) {
    let (rules, urls): (Vec<String>, Vec<String>) = match k {
        0 => (vec!["/big(?:ab|cd|ef){1,3000}z/".to_string()], vec!["https://x.com/bigabcdz".into(), "https://x.com/bigz".into(), "https://x.com/bigababefabz".into(), "https://x.com/bigabc".into()]),
        1 => (
            (0..1800).map(|i| format!("/promo/a*b{}z", i)).collect(),
            vec!["https://x.com/promo/a-7-b7z".into(), "https://x.com/promo/a-1799-b1799z".into(), "https://x.com/promo/a-b1800z".into(), "https://x.com/promo/ab0z".into()],
        ),
        _ => (vec!["/wide\\/x{1,20000}y/".to_string()], vec!["https://x.com/wide/xxxy".into(), "https://x.com/wide/y".into(), format!("https://x.com/wide/{}y", "x".repeat(500))]),
    };
    let refs: Vec<&str> = rules.iter().map(|r| r.as_str()).collect();
    let e = vh::netsweep::build_engine(&refs, &[], true, false);
    let mut h: u64 = 0xcbf29ce484222325;
    let mut lines = vec![];
    for u in &urls {
        for ty in ["script", "image"] {
            let rq = adblock::request::Request::new(u, "https://y.org/", ty).unwrap();
            let s = format!("special{} {} {} -> {:?}", k, u, ty, Verdict::of(&e.check_network_request(&rq)));
            h = seahash::hash(format!("{}|{}", h, s).as_bytes());
            if full {
                lines.push(s);
            }
        }
    }
    (h, lines)
}

fn list_answers(idx: u64, reqs: &[alpha::Req], full: bool) -> (u64, Vec<String>) {
    let pool = pool();
    let base_n = count_arrangements_upto(pool.len() as u64, 2);
    if idx >= base_n {
        return special_answers(idx - base_n, full);
    }
    let mut ix = vec![];
    nth_arrangement(idx, pool.len() as u64, &mut ix);
    let std_rules: Vec<&str> = ix.iter().filter(|&&j| !pool[j].1).map(|&j| pool[j].0).chain(COSMETIC_RULES.iter().copied()).collect();
    let hosts: Vec<&str> = ix.iter().filter(|&&j| pool[j].1).map(|&j| pool[j].0).collect();
    let mut e = vh::netsweep::build_engine(&std_rules, &hosts, true, true);
    let tags = alpha::tags_in(&std_rules);
    let mut h: u64 = 0xcbf29ce484222325;
    let mut lines = vec![];
    let mut feed = |s: String| {
        h = seahash::hash(format!("{}|{}", h, s).as_bytes());
        if full {
            lines.push(s);
        }
    };
    for tagset in vh::util::subsets_of(&tags) {
        let refs: Vec<&str> = tagset.iter().map(|s| s.as_str()).collect();
        e.use_tags(&refs);
        for rq in reqs {
            let r = e.check_network_request(&rq.req);
            let c = csp_set(&e.get_csp_directives(&rq.req));
            // the two restricted forms of the check as well (a rule matched earlier; exceptions forced)
            let s1 = Verdict::of(&e.check_network_request_subset(&rq.req, true, false));
            let s2 = Verdict::of(&e.check_network_request_subset(&rq.req, false, true));
            feed(format!("{:?} {} {} {} -> {:?} {:?} {} {}", tagset, rq.url, rq.source, rq.ty, Verdict::of(&r), c, s1.short(), s2.short()));
        }
    }
    // the same engine once more after its compiled regexes were thrown away (query, discard, query)
    e.set_regex_discard_policy(adblock::regex_manager::RegexManagerDiscardPolicy { cleanup_interval: std::time::Duration::from_nanos(1), discard_unused_time: std::time::Duration::ZERO });
    for rq in reqs.iter().step_by(7) {
        let r = e.check_network_request(&rq.req);
        feed(format!("after-discard {} {} {} -> {:?}", rq.url, rq.source, rq.ty, Verdict::of(&r)));
    }
    for u in ["https://x.com/", "https://gh.com/", "https://ads.net/a", "https://gd.com/", "https://sub.gd2.com/p", "https://news.com/article/1", "https://news.com/other"] {
        let r = e.url_cosmetic_resources(u);
        let hs: BTreeSet<_> = r.hide_selectors.iter().cloned().collect();
        let pa: BTreeSet<_> = r.procedural_actions.iter().cloned().collect();
        let ex: BTreeSet<_> = r.exceptions.iter().cloned().collect();
        feed(format!("cosmetic {} -> {:?} {:?} {:?} {} {}", u, hs, pa, ex, r.injected_script.len(), r.generichide));
    }
    let mut sel = e.hidden_class_id_selectors(["generic", "ad"], ["x"], &Default::default());
    sel.sort();
    feed(format!("hidden -> {:?}", sel));
    (h, lines)
}

fn answers_universe() -> (u64, Vec<alpha::Req>) {
    let n = count_arrangements_upto(pool().len() as u64, 2) + SPECIAL_LISTS;
    // every third request of C01's quick universe keeps the file small while still containing
    // every URL shape, initiator and type
    let reqs: Vec<alpha::Req> = alpha::requests(false, false).into_iter().enumerate().filter(|(i, _)| i % 3 == 0).map(|(_, r)| r).collect();
    (n, reqs)
}

fn write_answers(path: &str) {
    let (n, reqs) = answers_universe();
    let threads = 16;
    let hashes: Vec<u64> = std::thread::scope(|sc| {
        let hs: Vec<_> = (0..threads)
            .map(|t| {
                let reqs = &reqs;
                sc.spawn(move || (0..n).filter(|i| i % threads == t).map(|i| (i, list_answers(i, reqs, false).0)).collect::<Vec<_>>())
            })
            .collect();
        let mut all: Vec<(u64, u64)> = hs.into_iter().flat_map(|h| h.join().unwrap()).collect();
        all.sort();
        all.into_iter().map(|x| x.1).collect()
    });
    let body = json!({"lists": n, "requests": reqs.len(), "hashes": hashes});
    std::fs::write(path, serde_json::to_string(&body).unwrap()).expect("cannot write answers file");
}

// ------------------------------------------------------------------------------------------
// (a) schedule explorer — only in the sync configuration
// ------------------------------------------------------------------------------------------

#[cfg(feature = "sync")]
mod sx {
    use super::*;
    use adblock::regex_manager::RegexManagerDiscardPolicy;
    use adblock::verif_hooks::{self, Event};
    use std::cell::Cell;
    use std::collections::HashSet;
    use std::sync::{Arc, Condvar, Mutex, OnceLock};
    use std::time::Duration;

    #[derive(Clone, Copy, PartialEq, Debug)]
    enum St {
        NotStarted,
        AtPoint,
        Waiting(u64),
        Running,
        Done,
    }
    pub struct Point {
        pub enabled: Vec<usize>,
        pub chosen: usize,
        pub current_enabled: bool,
    }
    struct State {
        st: Vec<St>,
        current: Option<usize>,
        productive: u64,
        prefix: Vec<usize>,
        points: Vec<Point>,
        trace: Vec<(usize, &'static str)>,
        deadlock: bool,
        divergence: bool,
        active: bool,
        blocked_events: u64,
        /// set by the controller's watchdog: the running thread reached no scheduling point for
        /// VERIF_C19_HANG_MS although it was the only thread allowed to run
        hang: bool,
    }
    pub struct Sched {
        m: Mutex<State>,
        cv: Condvar,
    }
    thread_local! { static TID: Cell<Option<usize>> = const { Cell::new(None) }; }
    static SCHED: OnceLock<Arc<Sched>> = OnceLock::new();

    impl Sched {
        /// Called with the state lock held, by thread `me` (None = controller), to pick the next
        /// runner. Enabled threads in canonical order: the running thread first if still enabled,
        /// then ascending ids. A waiting thread is only re-enabled after a *productive* step of
        /// some thread (the only way the lock can have been released).
        fn pick(&self, s: &mut State, me: Option<usize>) {
            let n = s.st.len();
            let is_en = |s: &State, t: usize| match s.st[t] {
                St::AtPoint | St::NotStarted => true,
                St::Waiting(since) => s.productive > since,
                _ => false,
            };
            let mut enabled: Vec<usize> = vec![];
            let cur_en = me.map(|t| is_en(s, t)).unwrap_or(false);
            if let Some(t) = me {
                if cur_en {
                    enabled.push(t);
                }
            }
            for t in 0..n {
                if Some(t) != me && is_en(s, t) {
                    enabled.push(t);
                }
            }
            if enabled.is_empty() {
                if s.st.iter().any(|x| *x != St::Done) {
                    s.deadlock = true;
                }
                s.current = None;
                self.cv.notify_all();
                return;
            }
            let i = s.points.len();
            let choice = if i < s.prefix.len() {
                let c = s.prefix[i];
                if c >= enabled.len() {
                    // replaying a prefix must never diverge: hard machinery error
                    s.divergence = true;
                    0
                } else {
                    c
                }
            } else {
                0
            };
            s.points.push(Point { enabled: enabled.clone(), chosen: choice, current_enabled: cur_en });
            let t = enabled[choice];
            s.st[t] = St::Running;
            s.current = Some(t);
            self.cv.notify_all();
        }

        fn at(&self, ev: Event) -> bool {
            let me = match TID.with(|t| t.get()) {
                Some(t) => t,
                None => return false,
            };
            let mut s = self.m.lock().unwrap();
            if !s.active {
                return false;
            }
            let name = match ev {
                Event::Acquire(n) | Event::Point(n) => {
                    s.st[me] = St::AtPoint;
                    s.productive += 1;
                    n
                }
                Event::Blocked(n) => {
                    let since = s.productive;
                    s.st[me] = St::Waiting(since);
                    s.blocked_events += 1;
                    n
                }
            };
            s.trace.push((me, name));
            self.pick(&mut s, Some(me));
            while s.current != Some(me) {
                if s.deadlock {
                    drop(s);
                    panic!("deadlock");
                }
                s = self.cv.wait(s).unwrap();
            }
            true
        }
    }

    pub fn install() {
        if SCHED.get().is_some() {
            return;
        }
        let sched = Arc::new(Sched {
            m: Mutex::new(State { st: vec![], current: None, productive: 0, prefix: vec![], points: vec![], trace: vec![], deadlock: false, divergence: false, active: false, blocked_events: 0, hang: false }),
            cv: Condvar::new(),
        });
        SCHED.set(sched.clone()).ok();
        let s2 = sched.clone();
        assert!(verif_hooks::install(Box::new(move |ev| s2.at(ev))), "scheduler already installed");
    }

    // ---- subject ----------------------------------------------------------------------------

    pub const RULES: &[&str] = &[
        "foo*bar",
        "||ads.net^x",
        "@@baz^qux",
        "/ad[0-9]+/$script",
        "plain",
        "tagged*rule$tag=t",
        "||x.com^$csp=d1",
        "x.com##.ad",
        "x.com##+js(s1, v)",
        "##.generic",
        "*$removeparam=utm",
        "||x.com^$removeparam=ref",
        // a rewriting rule that needs a compiled regex, for two URLs of equal length that differ in
        // whether it applies (28 / 29 below)
        "||q.com/r*a/p$removeparam=sid",
        "@@||gh.com^$generichide",
        "gh.com##.own",
        "||gh.com^$csp=d3",
        "||gh.com/p^$csp=d4",
        "||r.com^$redirect=a",
        "||r.com/q^*$redirect-rule=b:5",
        // csp rules that need a compiled regex (under the always-discard policy they are recompiled in
        // every critical section of a csp query)
        "|https://x.*/$csp=d9",
        "|https://gh.*/$csp=d10",
        // a second tagged regex rule under another tag (history plans switch between the two)
        "other*rule$tag=u",
        // more of each: a switch t -> u -> t re-creates the t rules at the freed addresses of their
        // predecessors in some other order (regexes are cached under the rule's address)
        "tagged*two$tag=t",
        "tagged*three$tag=t",
        "other*two$tag=u",
        "other*three$tag=u",
        // more regex rules: the timed history plans fill the regex manager with more than a handful
        // of entries before the clock is moved
        // (each has a token of its own, so that the other plans never visit them)
        "/rex1/*gg", "/rex2/*gg", "/rex3/*gg", "/rex4/*gg", "/rex5/*gg", "/rex6/*gg", "/rex7/*gg", "/rex8/*gg", "/rex9/*gg", "/rex10/*gg",
    ];

    #[derive(Clone, Copy, Debug, PartialEq)]
    pub enum Q {
        Check(usize),
        Csp,
        /// get_csp_directives of two other pages with other answers
        CspGh,
        CspGhP,
        Cosmetic,
        /// url_cosmetic_resources of a page with the opposite generichide verdict
        CosmeticGh,
        Hidden,
        /// check_network_request_subset(previously matched, force exceptions)
        Subset(usize, bool, bool),
        /// serialize_raw through the shared reference (answer: a digest of the bytes)
        Serialize,
        /// get_regex_debug_info through the shared reference (takes the regex manager; what it
        /// reports depends on the schedule, so it answers nothing)
        DebugInfo,
        TagExists,
    }
    const URLS: &[&str] = &[
        "https://x.com/foo1bar", "https://a.ads.net/x", "https://x.com/baz/qux", "https://x.com/ad12", "https://x.com/plain", "https://x.com/tagged1rule",
        // requests whose answers carry per-request data (different rewritten URLs)
        "https://x.com/p?utm=1&a=2", "https://x.com/q?ref=9&b=3&utm=2",
        // blocked (foo*bar), excepted (@@baz^qux) and rewritten (utm) at once: the longest path
        // through check_parameterised, every lookup of it under the lock
        "https://x.com/baz/qux?utm=1&k=foo1bar",
        // redirected requests (one of them also rewritten): the redirect section sits between the
        // lookups and the removeparam pass of check_parameterised
        "https://r.com/x",
        "https://r.com/q/y?utm=1",
        "https://x.com/other1rule",
        "https://x.com/tagged1two",
        "https://x.com/tagged1three",
        "https://x.com/other1two",
        "https://x.com/other1three",
        "https://x.com/rex1/1gg", "https://x.com/rex2/1gg", "https://x.com/rex3/1gg", "https://x.com/rex4/1gg", "https://x.com/rex5/1gg",
        "https://x.com/rex6/1gg", "https://x.com/rex7/1gg", "https://x.com/rex8/1gg", "https://x.com/rex9/1gg", "https://x.com/rex10/1gg",
        // requests that visit two / three regex rules at once (26, 27): only the last pattern of the
        // path matches, the buckets of the others are visited on the way
        "https://x.com/rex1/rex2/1hh/rex2/2gg", "https://x.com/rex3/rex4/rex5/1hh/rex5/2gg",
        "https://q.com/rxa/p?sid=1&x=2", "https://q.com/rxb/p?sid=1&x=2",
    ];

    /// Operations of a preamble: executed by the controlling thread (no scheduling points) on the
    /// fresh engine of an execution, before the threads of the plan start.
    #[derive(Clone, Debug, PartialEq)]
    pub enum P {
        Ask(Q),
        Tags(&'static [&'static str]),
        /// back to the default discard policy (compiled regexes stay cached): under the always-discard
        /// policy of the base plans every use recompiles from the rule at hand, which hides whatever
        /// a stale cache entry would do
        KeepCompiled,
        /// serialize the engine and deserialize the bytes into the same engine
        Reload,
        /// discard policy (cleanup interval, discard-unused time) in milliseconds
        Policy(u64, u64),
        /// move the virtual clock (timed plans only: their child process runs on the virtual clock
        /// of the verification hooks, which stands still otherwise)
        Advance(u64),
    }
    static PREAMBLE: Mutex<Vec<P>> = Mutex::new(Vec::new());
    pub fn set_preamble(p: &[P]) {
        *PREAMBLE.lock().unwrap() = p.to_vec();
    }

    pub fn engine() -> Engine {
        let mut e = Engine::from_rules_parametrised(RULES, Default::default(), true, false);
        e.use_tags(&["t"]);
        let mut res = vh::net::std_resources();
        res.push(vh::net::resource("s1.js", &["s1"], adblock::resources::ResourceType::Mime(adblock::resources::MimeType::ApplicationJavascript), "function s1(a){}", &[], 0));
        e.use_resources(res);
        // aggressive policy: every critical section runs the cleanup, discards and recompiles
        e.set_regex_discard_policy(RegexManagerDiscardPolicy { cleanup_interval: Duration::from_nanos(1), discard_unused_time: Duration::ZERO });
        for op in PREAMBLE.lock().unwrap().clone() {
            match op {
                P::Ask(q) => {
                    let _ = ask(&e, q);
                }
                P::Tags(t) => e.use_tags(t),
                P::KeepCompiled => e.set_regex_discard_policy(Default::default()),
                P::Policy(i, d) => e.set_regex_discard_policy(RegexManagerDiscardPolicy { cleanup_interval: Duration::from_millis(i), discard_unused_time: Duration::from_millis(d) }),
                P::Advance(ms) => verif_hooks::advance_clock(Duration::from_millis(ms)),
                P::Reload => {
                    let bytes = e.serialize_raw().expect("serialize");
                    e.deserialize(&bytes).expect("deserialize");
                }
            }
        }
        e
    }

    pub fn ask(e: &Engine, q: Q) -> String {
        match q {
            Q::Check(i) => format!("{:?}", Verdict::of(&e.check_network_request(&Request::new(URLS[i], "https://y.com/", if i >= 6 { "xmlhttprequest" } else { "script" }).unwrap()))),
            Q::Csp => format!("{:?}", csp_set(&e.get_csp_directives(&Request::new("https://x.com/", "https://x.com/", "document").unwrap()))),
            Q::CspGh => format!("{:?}", csp_set(&e.get_csp_directives(&Request::new("https://gh.com/", "https://gh.com/", "document").unwrap()))),
            Q::CspGhP => format!("{:?}", csp_set(&e.get_csp_directives(&Request::new("https://gh.com/p/", "https://gh.com/", "subdocument").unwrap()))),
            Q::Cosmetic => {
                let r = e.url_cosmetic_resources("https://x.com/");
                let hs: BTreeSet<_> = r.hide_selectors.into_iter().collect();
                format!("{:?} {} {}", hs, r.injected_script.len(), r.generichide)
            }
            Q::CosmeticGh => {
                let r = e.url_cosmetic_resources("https://gh.com/");
                let hs: BTreeSet<_> = r.hide_selectors.into_iter().collect();
                format!("{:?} {} {}", hs, r.injected_script.len(), r.generichide)
            }
            Q::Hidden => {
                let mut v = e.hidden_class_id_selectors(["generic"], ["x"], &Default::default());
                v.sort();
                format!("{:?}", v)
            }
            Q::Subset(i, p, f) => format!("{:?}", Verdict::of(&e.check_network_request_subset(&Request::new(URLS[i], "https://y.com/", if i >= 6 { "xmlhttprequest" } else { "script" }).unwrap(), p, f))),
            Q::Serialize => {
                let b = e.serialize_raw().unwrap();
                format!("{} bytes, digest {:x}", b.len(), adblock::utils::fast_hash(&String::from_utf8_lossy(&b)))
            }
            Q::DebugInfo => {
                let _ = e.get_regex_debug_info();
                "asked".to_string()
            }
            Q::TagExists => format!("{} {} {}", e.tag_exists("t"), e.tag_exists("u"), e.tag_exists("nope")),
        }
    }

    pub fn plans() -> Vec<(&'static str, Vec<Vec<Q>>)> {
        use Q::*;
        vec![
            ("2x2", vec![vec![Check(0), Check(3)], vec![Check(3), Check(0)]]),
            ("3x1", vec![vec![Check(0)], vec![Check(0)], vec![Check(3)]]),
            ("3x2", vec![vec![Check(0), Check(3)], vec![Check(3), Check(0)], vec![Check(1), Check(5)]]),
            ("2x3", vec![vec![Check(2), Csp, Check(0)], vec![Cosmetic, Check(0), Check(2)]]),
            ("2x2-mixed", vec![vec![Cosmetic, Check(5)], vec![Csp, Hidden]]),
            ("2x2-rewrite", vec![vec![Check(6), Check(0)], vec![Check(7), Check(6)]]),
            ("2x2-excepted", vec![vec![Check(8), Check(0)], vec![Check(2), Check(8)]]),
            // the same page twice in one thread, a page with the opposite generichide verdict in the other
            ("2x2-cosmetic", vec![vec![Cosmetic, Cosmetic], vec![CosmeticGh, Cosmetic]]),
            ("2x2-csp", vec![vec![Csp, Csp], vec![CspGh, Csp]]),
            ("2x2-redirect", vec![vec![Check(9), Check(10)], vec![Check(10), Check(9)]]),
            // the other entry points that take a shared reference
            ("2x2-rewrite-regex", vec![vec![Check(28), Check(29)], vec![Check(29), Check(28)]]),
            ("2x2-subset", vec![vec![Subset(0, true, false), Check(8)], vec![Check(3), Subset(8, false, true)]]),
            ("2x2-serialize", vec![vec![Serialize, Check(0)], vec![Check(3), Serialize]]),
            ("2x2-debuginfo", vec![vec![DebugInfo, Check(0), TagExists], vec![Check(3), DebugInfo]]),
        ]
    }

    /// History plans: the engine is first used and re-tagged by one thread (compiled regexes of the
    /// tagged rules are cached, the tagged rules are freed and re-created, possibly at the addresses
    /// of their predecessors), then queried by two threads at once. Whatever per-engine state a tag
    /// change leaves for "the next query" to settle must be settled for every thread's next query.
    const TAGSETS: [&[&str]; 4] = [&[], &["t"], &["u"], &["t", "u"]];
    pub fn preambles() -> Vec<(String, Vec<P>)> {
        let warm: Vec<P> = [5usize, 11, 12, 13, 14, 15].iter().map(|&i| P::Ask(Q::Check(i))).collect();
        let warm0: Vec<P> = std::iter::once(P::KeepCompiled).chain(warm.iter().cloned()).collect();
        let nm = |t: &[&str]| format!("[{}]", t.join(","));
        let mut v = vec![];
        for a in TAGSETS {
            let mut p = warm0.clone();
            p.push(P::Tags(a));
            v.push((format!("warm,tags{}", nm(a)), p));
            for b in TAGSETS {
                let mut p = warm0.clone();
                p.push(P::Tags(a));
                p.push(P::Tags(b));
                v.push((format!("warm,tags{},tags{}", nm(a), nm(b)), p));
                let mut p = warm0.clone();
                p.push(P::Tags(a));
                p.extend(warm.clone());
                p.push(P::Tags(b));
                v.push((format!("warm,tags{},warm,tags{}", nm(a), nm(b)), p));
            }
        }
        // timed plans (names start with "t:"; virtual clock): a policy whose cleanup interval lies
        // between "always" and "never", every regex rule used once, then the clock is moved so that
        // the cleanup is due (and entries are or are not old enough to be discarded) exactly when
        // the threads start; the second variant lets one query run in between
        let warm_all: Vec<P> = (0..URLS.len()).map(|i| P::Ask(Q::Check(i))).collect();
        for (i, d, adv) in [(10u64, 3_600_000u64, 20u64), (10, 15, 20), (10, 15, 12), (10, 30, 20), (10, 0, 20)] {
            let mut p = vec![P::Policy(i, d)];
            p.extend(warm_all.clone());
            p.push(P::Advance(adv));
            v.push((format!("t:policy({},{}),warm-all,advance({})", i, d, adv), p.clone()));
            p.push(P::Ask(Q::Check(0)));
            p.push(P::Advance(adv));
            v.push((format!("t:policy({},{}),warm-all,advance({}),ask,advance({})", i, d, adv, adv), p));
        }
        // reloads: every rule of the engine is re-created
        for (name, ops) in [
            ("warm,reload", vec![P::Reload]),
            ("warm,tags[u],reload", vec![P::Tags(&["u"]), P::Reload]),
            ("warm,reload,tags[u]", vec![P::Reload, P::Tags(&["u"])]),
            ("warm,reload,warm,tags[t,u]", std::iter::once(P::Reload).chain(warm.iter().cloned()).chain(std::iter::once(P::Tags(&["t", "u"]))).collect()),
        ] {
            let mut p = warm0.clone();
            p.extend(ops);
            v.push((name.to_string(), p));
        }
        v
    }

    /// Base plans (no preamble) followed by the history plans.
    pub fn all_plans() -> Vec<(String, Vec<Vec<Q>>, Vec<P>)> {
        use Q::*;
        let mut v: Vec<(String, Vec<Vec<Q>>, Vec<P>)> = plans().into_iter().map(|(n, p)| (n.to_string(), p, vec![])).collect();
        for (pn, pre) in preambles() {
            v.push((format!("h:{}|2x1", pn), vec![vec![Check(11)], vec![Check(5)]], pre.clone()));
            v.push((format!("h:{}|2x1b", pn), vec![vec![Check(12)], vec![Check(13)]], pre.clone()));
            v.push((format!("h:{}|2x1c", pn), vec![vec![Check(14)], vec![Check(15)]], pre.clone()));
            v.push((format!("h:{}|2x2", pn), vec![vec![Check(11), Check(5)], vec![Check(5), Check(11)]], pre.clone()));
            v.push((format!("h:{}|2x3", pn), vec![vec![Check(12), Check(13), Check(5)], vec![Check(14), Check(15), Check(11)]], pre));
        }
        // cold cache under the default policy (whatever is compiled stays): one thread's request visits
        // several regex rules nobody has used yet while the other thread uses one of them; afterwards
        // both ask for the others
        let cold = vec![P::KeepCompiled];
        v.push(("h:cold|two-regexes".to_string(), vec![vec![Check(26), Check(17), Check(16)], vec![Check(16), Check(17)]], cold.clone()));
        v.push(("h:cold|two-regexes-b".to_string(), vec![vec![Check(26), Check(16)], vec![Check(17), Check(16), Check(17)]], cold.clone()));
        v.push(("h:cold|three-regexes".to_string(), vec![vec![Check(27), Check(19), Check(20)], vec![Check(18), Check(20), Check(19)]], cold.clone()));
        v.push(("h:cold|three-regexes-b".to_string(), vec![vec![Check(27), Check(18), Check(20)], vec![Check(19), Check(20), Check(18)]], cold));
        v
    }

    pub struct Outcome {
        pub points: Vec<Point>,
        pub results: Vec<Vec<String>>,
        pub deadlock: bool,
        pub divergence: bool,
        pub trace: Vec<(usize, &'static str)>,
        pub panicked: Option<String>,
        pub poisoned: bool,
        pub blocked_events: u64,
        pub hang: bool,
    }

    pub fn run_once(prefix: &[usize], plan: &[Vec<Q>]) -> Outcome {
        let sched = SCHED.get().unwrap().clone();
        let n = plan.len();
        let e = engine();
        {
            let mut s = sched.m.lock().unwrap();
            *s = State { st: vec![St::NotStarted; n], current: None, productive: 0, prefix: prefix.to_vec(), points: vec![], trace: vec![], deadlock: false, divergence: false, active: true, blocked_events: 0, hang: false };
        }
        let e = &e;
        let mut results = vec![vec![]; n];
        let mut panicked = None;
        std::thread::scope(|sc| {
            let hs: Vec<_> = (0..n)
                .map(|t| {
                    let sched = sched.clone();
                    let ops = plan[t].clone();
                    sc.spawn(move || {
                        TID.with(|x| x.set(Some(t)));
                        {
                            let mut s = sched.m.lock().unwrap();
                            while s.current != Some(t) {
                                if s.deadlock {
                                    break;
                                }
                                s = sched.cv.wait(s).unwrap();
                            }
                        }
                        let r = vh::util::catch(|| ops.iter().map(|q| ask(e, *q)).collect::<Vec<String>>());
                        let mut s = sched.m.lock().unwrap();
                        s.st[t] = St::Done;
                        s.productive += 1;
                        sched.pick(&mut s, Some(t));
                        r
                    })
                })
                .collect();
            {
                let mut s = sched.m.lock().unwrap();
                sched.pick(&mut s, None);
            }
            // watchdog: the scheduler lets exactly one thread run. If that thread reaches neither a
            // scheduling point nor its end for a long time, it is blocked on something a parked
            // thread holds (a lock the seam does not see) or spins: a deadlock of this schedule,
            // not of the explorer. The parked threads are released (they unwind with "deadlock"),
            // which frees whatever they hold, so that the execution can be torn down.
            let hang_ms: u128 = std::env::var("VERIF_C19_HANG_MS").ok().and_then(|v| v.parse().ok()).unwrap_or(5000);
            let mut last = (usize::MAX, std::time::Instant::now());
            loop {
                let mut s = sched.m.lock().unwrap();
                if s.deadlock || s.st.iter().all(|x| *x == St::Done) {
                    break;
                }
                let progress = s.trace.len() + s.st.iter().filter(|x| **x == St::Done).count() * 1_000_000;
                if progress != last.0 {
                    last = (progress, std::time::Instant::now());
                } else if last.1.elapsed().as_millis() > hang_ms {
                    s.deadlock = true;
                    s.hang = true;
                    s.current = None;
                    sched.cv.notify_all();
                    break;
                }
                let _ = sched.cv.wait_timeout(s, Duration::from_millis(20)).unwrap();
            }
            for (t, h) in hs.into_iter().enumerate() {
                match h.join().unwrap() {
                    Ok(v) => results[t] = v,
                    Err(loc) => panicked = Some(loc),
                }
            }
        });
        let mut s = sched.m.lock().unwrap();
        s.active = false;
        let out_points = std::mem::take(&mut s.points);
        let trace = std::mem::take(&mut s.trace);
        let (deadlock, divergence, blocked_events, hang) = (s.deadlock, s.divergence, s.blocked_events, s.hang);
        drop(s);
        // lock poisoning: one more query from the controlling thread
        let poisoned = vh::util::catch(|| ask(e, Q::Check(0))).is_err();
        Outcome { points: out_points, results, deadlock, divergence, trace, panicked, poisoned, blocked_events, hang }
    }

    pub struct Stats {
        pub schedules: u64,
        pub points: u64,
        pub traces: HashSet<u64>,
        pub violations: Vec<(String, Vec<usize>, String)>,
        pub max_blocked: u64,
        pub divergences: u64,
        pub hangs: u64,
    }

    pub fn explore(prefix: Vec<usize>, bound: usize, plan: &[Vec<Q>], expect: &[Vec<String>], st: &mut Stats) {
        let o = run_once(&prefix, plan);
        st.schedules += 1;
        st.points += o.trace.len() as u64;
        st.max_blocked = st.max_blocked.max(o.blocked_events);
        if o.divergence {
            st.divergences += 1;
        }
        let th = seahash::hash(format!("{:?}", o.trace).as_bytes());
        st.traces.insert(th);
        let choices: Vec<usize> = o.points.iter().map(|p| p.chosen).collect();
        if o.hang {
            st.hangs += 1;
        }
        let kind = if o.hang {
            Some("deadlock-on-a-lock-outside-the-seam")
        } else if o.deadlock {
            Some("deadlock")
        } else if o.poisoned {
            Some("lock-poisoned")
        } else if o.panicked.is_some() {
            Some("panic")
        } else if o.results != expect {
            Some("answer-differs-from-sequential")
        } else {
            None
        };
        if let Some(k) = kind {
            if st.violations.len() < 16 {
                st.violations.push((k.to_string(), choices.clone(), format!("results {:?} panicked {:?}", o.results, o.panicked)));
            }
        }
        if st.hangs >= 2 {
            // every hanging schedule costs the watchdog time: two witnesses are enough
            return;
        }
        let mut pre = 0usize;
        for i in 0..o.points.len() {
            let p = &o.points[i];
            if i >= prefix.len() {
                for alt in 1..p.enabled.len() {
                    let cost = pre + if p.current_enabled { 1 } else { 0 };
                    if cost <= bound {
                        let mut np = choices[..i].to_vec();
                        np.push(alt);
                        explore(np, bound, plan, expect, st);
                    }
                }
            }
            if p.current_enabled && p.chosen != 0 {
                pre += 1;
            }
        }
    }

    /// The single-thread answers of a fresh engine per thread of the plan. They are computed
    /// under the scheduler too (a one-thread plan has exactly one schedule), so that a thread that
    /// blocks on a lock it holds itself is reported as a deadlock instead of hanging the explorer.
    pub fn sequential_expectation(plan: &[Vec<Q>]) -> Result<Vec<Vec<String>>, String> {
        let mut out = vec![];
        for ops in plan {
            let o = run_once(&[], &[ops.clone()]);
            if o.deadlock {
                return Err(format!("deadlock: a single thread running {:?} blocks on a lock it already holds", ops));
            }
            if let Some(p) = o.panicked {
                return Err(format!("panic: a single thread running {:?} panicked at {}", ops, p));
            }
            out.push(o.results[0].clone());
        }
        Ok(out)
    }

    /// Child mode: explore one plan to one bound; print a JSON summary.
    pub fn child(plan_idx: usize, bound: usize) {
        // watchdog: an exploration that does not finish is a machinery failure, never a verdict
        unsafe {
            libc::alarm(std::env::var("VERIF_C19_CHILD_LIMIT_S").ok().and_then(|s| s.parse().ok()).unwrap_or(3600));
        }
        install();
        let plans = all_plans();
        let (name, plan, pre) = &plans[plan_idx];
        if name.starts_with("h:t:") {
            verif_hooks::use_virtual_clock();
        }
        set_preamble(pre);
        let expect = match sequential_expectation(plan) {
            Ok(e) => e,
            Err(what) => {
                let kind = if what.starts_with("deadlock") { "deadlock" } else { "panic" };
                println!(
                    "{}",
                    json!({"plan": name, "plan_idx": plan_idx, "bound": bound, "schedules": 1, "points": 0, "distinct_traces": 1, "max_blocked_events_in_one_schedule": 1, "divergences": 0,
                           "violations": [{"kind": format!("single-thread-{}", kind), "schedule": [], "what": what, "replayed_identically": sequential_expectation(plan).is_err()}],
                           "default_schedule_replays_identically": true, "sample_trace": [], "wall_s": 0.0})
                );
                return;
            }
        };
        let mut st = Stats { schedules: 0, points: 0, traces: HashSet::new(), violations: vec![], max_blocked: 0, divergences: 0, hangs: 0 };
        let t0 = std::time::Instant::now();
        explore(vec![], bound, plan, &expect, &mut st);
        // replay determinism: re-execute every violating schedule twice
        let mut confirmed = vec![];
        for (k, choices, what) in &st.violations {
            let a = run_once(choices, plan);
            let b = run_once(choices, plan);
            let same = format!("{:?}", a.trace) == format!("{:?}", b.trace) && a.results == b.results;
            confirmed.push(json!({"kind": k, "schedule": choices, "what": what, "replayed_identically": same}));
        }
        // and one ordinary schedule, for the evidence
        let a = run_once(&[], plan);
        let b = run_once(&[], plan);
        let det = format!("{:?}", a.trace) == format!("{:?}", b.trace);
        println!(
            "{}",
            json!({"plan": name, "plan_idx": plan_idx, "bound": bound, "schedules": st.schedules, "points": st.points, "distinct_traces": st.traces.len(),
                   "max_blocked_events_in_one_schedule": st.max_blocked, "divergences": st.divergences, "violations": confirmed, "default_schedule_replays_identically": det,
                   "sample_trace": a.trace.iter().take(24).map(|(t, n)| format!("T{}:{}", t, n)).collect::<Vec<_>>(), "wall_s": t0.elapsed().as_secs_f64()})
        );
    }

    /// Free-running supplement (NOT exhaustive, labelled so in the evidence): `threads` real threads
    /// hammer one shared engine with every query kind for `millis` ms, no scheduler installed, every
    /// answer compared with the single-thread answer. It exists for one reason: the schedule
    /// explorer can only switch threads at the seam (the regex-manager lock and the points inside
    /// it); state that is shared *outside* that lock (an atomic, a second mutex) has no seam
    /// points, and a race on it is only reachable by real preemption. A mismatch here is a real
    /// wrong answer; silence proves nothing.
    pub fn stress(threads: usize, millis: u64) -> (u64, Option<String>) {
        // two phases: the default discard policy (fast queries, many overlaps) and a policy whose
        // cleanup is due at every acquisition (the bookkeeping around the lock has work to do)
        let (r1, b1) = stress_phase(threads, millis * 3 / 5, false);
        if b1.is_some() {
            return (r1, b1);
        }
        let (r2, b2) = stress_phase(threads, millis * 2 / 5, true);
        (r1 + r2, b2.map(|b| format!("(cleanup due at every acquisition) {}", b)))
    }
    fn stress_phase(threads: usize, millis: u64, aggressive: bool) -> (u64, Option<String>) {
        use std::sync::atomic::{AtomicBool, AtomicU64, AtomicUsize, Ordering};
        let all: Arc<Vec<Q>> = Arc::new(vec![Q::Check(0), Q::Check(2), Q::Check(6), Q::Check(8), Q::Check(9), Q::Check(10), Q::Csp, Q::CspGh, Q::CspGhP, Q::Cosmetic, Q::CosmeticGh, Q::Hidden]);
        // default discard policy: the queries are fast, which is what makes overlaps likely
        let mut e = Engine::from_rules_parametrised(RULES, Default::default(), true, false);
        e.use_tags(&["t"]);
        if aggressive {
            e.set_regex_discard_policy(RegexManagerDiscardPolicy { cleanup_interval: Duration::from_nanos(1), discard_unused_time: Duration::ZERO });
        }
        let expect: Arc<Vec<String>> = Arc::new(all.iter().map(|q| ask(&e, *q)).collect());
        let e = Arc::new(e);
        let stop = Arc::new(AtomicBool::new(false));
        let rounds = Arc::new(AtomicU64::new(0));
        let returned = Arc::new(AtomicUsize::new(0));
        let first_bad: Arc<Mutex<Option<String>>> = Arc::new(Mutex::new(None));
        // detached threads (not a scope): without a scheduler nothing can wake threads that block
        // each other, and a scope would wait for them for ever; the controller only waits a grace period
        for t in 0..threads {
            let (e, all, expect, stop, rounds, returned, first_bad) = (e.clone(), all.clone(), expect.clone(), stop.clone(), rounds.clone(), returned.clone(), first_bad.clone());
            std::thread::spawn(move || {
                let mut k = t * 3;
                while !stop.load(Ordering::Relaxed) {
                    // csp queries are taken twice as often (two pages alternate quickly)
                    let i = if k % 2 == 0 { 6 + (k / 2) % 3 } else { k % all.len() };
                    k += 1;
                    let got = vh::util::catch(|| ask(&e, all[i])).unwrap_or_else(|loc| format!("panic@{}", loc));
                    rounds.fetch_add(1, Ordering::Relaxed);
                    if got != expect[i] {
                        let mut g = first_bad.lock().unwrap();
                        if g.is_none() {
                            *g = Some(format!("{:?}: concurrent answer {} but a single thread is told {}", all[i], got, expect[i]));
                        }
                        stop.store(true, Ordering::Relaxed);
                    }
                }
                returned.fetch_add(1, Ordering::Relaxed);
            });
        }
        let t0 = std::time::Instant::now();
        while t0.elapsed().as_millis() < millis as u128 && !stop.load(Ordering::Relaxed) {
            std::thread::sleep(Duration::from_millis(5));
        }
        stop.store(true, Ordering::Relaxed);
        let grace = std::time::Instant::now();
        while returned.load(Ordering::Relaxed) < threads && grace.elapsed().as_secs() < 10 {
            std::thread::sleep(Duration::from_millis(5));
        }
        let back = returned.load(Ordering::Relaxed);
        let mut bad = first_bad.lock().unwrap().clone();
        if back < threads && bad.is_none() {
            bad = Some(format!("{} of {} free-running threads did not come back within 10 s of the stop signal: they block each other (deadlock)", threads - back, threads));
        }
        (rounds.load(Ordering::Relaxed), bad)
    }

    pub fn replay_case(case: &Value) -> Option<String> {
        if case["kind"].as_str() == Some("stress") {
            return stress(8, 10_000).1;
        }
        install();
        let plans = all_plans();
        let pi = case["plan_idx"].as_u64().unwrap_or(0) as usize;
        let (name, plan, pre) = &plans[pi.min(plans.len() - 1)];
        if name.starts_with("h:t:") {
            verif_hooks::use_virtual_clock();
        }
        set_preamble(pre);
        let choices: Vec<usize> = case["schedule"].as_array().map(|a| a.iter().filter_map(|v| v.as_u64().map(|x| x as usize)).collect()).unwrap_or_default();
        let expect = match sequential_expectation(plan) {
            Ok(e) => e,
            Err(what) => return Some(what),
        };
        let o = run_once(&choices, plan);
        if o.divergence {
            eprintln!("machinery: schedule diverged while replaying its prefix");
            std::process::exit(3);
        }
        if o.hang {
            Some("deadlock-on-a-lock-outside-the-seam".into())
        } else if o.deadlock {
            Some("deadlock".into())
        } else if o.poisoned {
            Some("lock-poisoned".into())
        } else if o.panicked.is_some() {
            Some("panic".into())
        } else if o.results != expect {
            Some("answer-differs-from-sequential".into())
        } else {
            None
        }
    }
}

// ------------------------------------------------------------------------------------------
// main
// ------------------------------------------------------------------------------------------

#[cfg(feature = "sync")]
fn sync_main(tier: vh::Tier) -> i32 {
    use vh::{Ctx, Local, Mismatch};
    let ctx = Ctx::new("C19", tier);
    let exe = std::env::current_exe().unwrap();
    // (a) schedules: one child process per (plan, bound); the scheduler callback is process-global
    let plans = sx::all_plans();
    let mut jobs: Vec<(usize, usize)> = vec![];
    for (pi, (name, _, _)) in plans.iter().enumerate() {
        if name.starts_with("h:") {
            // history plans: one exploration at the highest bound (it contains the lower ones);
            // the 2x2 thread plans in the thorough tier only
            if name.contains("|2x1") || name.starts_with("h:cold|") || tier == vh::Tier::Thorough {
                // (2x3 after a preamble: bound 2 - at bound 3 the 50 preambles alone exceed the tier's time)
                jobs.push((pi, if tier == vh::Tier::Quick || name.ends_with("|2x3") { 2 } else { 3 }));
            }
            continue;
        }
        let max_bound = match (tier, name.as_str()) {
            (vh::Tier::Quick, "3x2") => 1, // 3x2 with 2 preemptions is 10 660 schedules (~40 s): thorough only
            (vh::Tier::Quick, _) => 2,
            (vh::Tier::Thorough, "2x2") | (vh::Tier::Thorough, "2x2-mixed") | (vh::Tier::Thorough, "2x2-rewrite") | (vh::Tier::Thorough, "2x2-excepted") | (vh::Tier::Thorough, "2x2-cosmetic") | (vh::Tier::Thorough, "2x2-csp") | (vh::Tier::Thorough, "2x2-redirect") => 4,
            // (3x2 with 3 preemptions is 506 226 schedules in ONE sequential exploration, 26 minutes:
            // more than the tier's whole time; bound 2 = 21 424 schedules)
            (vh::Tier::Thorough, "3x2") => 2,
            (vh::Tier::Thorough, _) => 3,
        };
        for b in 0..=max_bound {
            jobs.push((pi, b));
        }
    }
    // longest explorations first
    jobs.sort_by_key(|j| std::cmp::Reverse((j.1, plans[j.0].1.iter().map(|t| t.len()).sum::<usize>() * plans[j.0].1.len())));
    ctx.bound("plans", json!(plans.iter().filter(|p| !p.0.starts_with("h:")).map(|p| p.0.clone()).collect::<Vec<_>>()));
    ctx.bound("history_plans", json!(jobs.iter().filter(|j| plans[j.0].0.starts_with("h:")).count()));
    ctx.bound("history_preambles", json!(sx::preambles().iter().map(|p| p.0.clone()).collect::<Vec<_>>()));
    ctx.bound("max_preemption_bound", json!(jobs.iter().map(|j| j.1).max()));
    let next = std::sync::atomic::AtomicUsize::new(0);
    let results: Vec<(usize, usize, Result<Value, String>)> = std::thread::scope(|sc| {
        let hs: Vec<_> = (0..16)
            .map(|_| {
                let exe = exe.clone();
                let (jobs, next) = (&jobs, &next);
                sc.spawn(move || {
                    let mut mine = vec![];
                    loop {
                        let k = next.fetch_add(1, std::sync::atomic::Ordering::Relaxed);
                        if k >= jobs.len() {
                            break;
                        }
                        let (pi, b) = jobs[k];
                        let out = std::process::Command::new(&exe).args(["explore", &pi.to_string(), &b.to_string()]).output();
                        let r = match out {
                            Ok(o) if o.status.success() => serde_json::from_slice::<Value>(o.stdout.split(|c| *c == b'\n').filter(|l| l.starts_with(b"{")).last().unwrap_or(b"{}")).map_err(|e| e.to_string()),
                            Ok(o) => Err(format!("child exited with {:?}: {}", o.status.code(), String::from_utf8_lossy(&o.stderr).chars().take(400).collect::<String>())),
                            Err(e) => Err(e.to_string()),
                        };
                        mine.push((pi, b, r));
                    }
                    mine
                })
            })
            .collect();
        hs.into_iter().flat_map(|h| h.join().unwrap()).collect()
    });
    let mut l = Local::default();
    let mut per_bound = serde_json::Map::new();
    let mut machinery_failure = false;
    for (pi, b, r) in results {
        match r {
            Err(e) => {
                eprintln!("machinery: exploration child plan {} bound {} failed: {}", plans[pi].0, b, e);
                machinery_failure = true;
            }
            Ok(v) => {
                let n = v["schedules"].as_u64().unwrap_or(0);
                l.evaluations += n;
                l.compared += n;
                l.states += v["distinct_traces"].as_u64().unwrap_or(0);
                l.transitions += v["points"].as_u64().unwrap_or(0);
                l.nontrivial += v["distinct_traces"].as_u64().unwrap_or(0);
                l.hist(&if plans[pi].0.starts_with("h:") { format!("history{}:explored", &plans[pi].0[plans[pi].0.rfind('|').unwrap_or(0)..]) } else { format!("{}:explored", plans[pi].0) });
                if v["divergences"].as_u64().unwrap_or(0) > 0 || v["default_schedule_replays_identically"] == json!(false) {
                    eprintln!("machinery: replay divergence in plan {} bound {}", plans[pi].0, b);
                    machinery_failure = true;
                }
                per_bound.insert(
                    format!("{}@<={}", plans[pi].0, b),
                    json!({"schedules": n, "distinct_traces": v["distinct_traces"], "scheduling_points": v["points"], "max_blocked_events": v["max_blocked_events_in_one_schedule"], "wall_s": v["wall_s"]}),
                );
                if l.samples.len() < 3 && b == 1 {
                    l.samples.push(json!({"plan": plans[pi].0, "default_schedule_trace_prefix": v["sample_trace"]}));
                }
                for viol in v["violations"].as_array().cloned().unwrap_or_default() {
                    let kind = viol["kind"].as_str().unwrap_or("?").to_string();
                    l.mismatch(Mismatch {
                        sig: format!("c19.sched.{}{}", kind, if viol["replayed_identically"] == json!(true) { "" } else { ".not-reproducible" }),
                        what: format!("plan {} schedule {}: {}", plans[pi].0, viol["schedule"], viol["what"]),
                        case: json!({"kind":"schedule","plan_idx":pi,"schedule":viol["schedule"]}),
                        size: viol["schedule"].as_array().map(|a| a.len()).unwrap_or(0) as u64,
                    });
                }
            }
        }
    }
    ctx.bound("schedules_per_plan_and_bound", Value::Object(per_bound));
    ctx.merge(l);
    // (b) cross-configuration answers
    if let Ok(path) = std::env::var("VERIF_C19_ANSWERS") {
        match std::fs::read_to_string(&path).ok().and_then(|t| serde_json::from_str::<Value>(&t).ok()) {
            None => {
                eprintln!("machinery: cannot read unsync answers file {}", path);
                machinery_failure = true;
            }
            Some(v) => {
                let (n, reqs) = answers_universe();
                let hashes: Vec<u64> = v["hashes"].as_array().map(|a| a.iter().filter_map(|x| x.as_u64()).collect()).unwrap_or_default();
                if hashes.len() as u64 != n {
                    eprintln!("machinery: answers file has {} lists, expected {}", hashes.len(), n);
                    machinery_failure = true;
                } else {
                    ctx.bound("cross_config_lists", n);
                    ctx.bound("cross_config_requests_per_list", reqs.len());
                    ctx.par_range("cross-configuration answers", n, 4, |i, l| {
                        l.evaluations += 1;
                        l.states += 1;
                        l.transitions += reqs.len() as u64;
                        l.compared += 1;
                        let (h, _) = list_answers(i, &reqs, false);
                        l.hist(if h == hashes[i as usize] { "configs-agree" } else { "configs-DIFFER" });
                        if h != hashes[i as usize] {
                            // witness: ask the unsync binary for the full answers of this list
                            let mut what = format!("list #{}: answers of the thread-safe build differ from the single-thread build", i);
                            if let Ok(bin) = std::env::var("VERIF_C19_UNSYNC_BIN") {
                                if let Ok(o) = std::process::Command::new(bin).args(["answers-list", &i.to_string()]).output() {
                                    let theirs: Vec<String> = String::from_utf8_lossy(&o.stdout).lines().map(|s| s.to_string()).collect();
                                    let (_, mine) = list_answers(i, &reqs, true);
                                    if let Some(k) = mine.iter().zip(theirs.iter()).position(|(a, b)| a != b) {
                                        what = format!("list #{}: sync {:?} vs unsync {:?}", i, mine[k], theirs[k]);
                                    }
                                }
                            }
                            l.mismatch(Mismatch { sig: "c19.configs.answers-differ".into(), what, case: json!({"kind":"config","list_idx":i}), size: i });
                        }
                    });
                }
            }
        }
    } else {
        ctx.note("cross-configuration half skipped: VERIF_C19_ANSWERS not set (run through /verif/run)");
    }
    // free-running supplement: real preemption for state shared outside the seam (not exhaustive)
    {
        let (threads, millis) = match tier { vh::Tier::Quick => (8usize, 2500u64), vh::Tier::Thorough => (8, 30_000) };
        let (rounds, bad) = sx::stress(threads, millis);
        ctx.bound("free_running_stress", json!({"threads": threads, "millis": millis, "queries_answered": rounds, "exhaustive": false, "mismatch": bad.is_some()}));
        ctx.note("free-running stress pass: sampling, not exhaustive; it covers races on state outside the regex-manager lock, which have no scheduling point in the seam");
        // (its rounds are reported under bounds.free_running_stress only: the coverage counters of
        // this evidence file count enumerated schedules and lists, never samples)
        let mut l = Local::default();
        if let Some(what) = bad {
            l.mismatch(Mismatch { sig: "c19.stress.answer-differs-from-sequential".into(), what, case: json!({"kind":"stress"}), size: 1 });
        }
        ctx.merge(l);
    }
    // Miri data-race pass (thorough only, explicitly not exhaustive)
    if tier == vh::Tier::Thorough {
        let t0 = std::time::Instant::now();
        let out = std::process::Command::new("cargo")
            .current_dir(vh::core::verif_root().join("harness"))
            .env("MIRIFLAGS", "-Zmiri-disable-isolation -Zmiri-ignore-leaks -Zmiri-many-seeds=0..4")
            .env("CARGO_TARGET_DIR", vh::core::verif_root().join("harness").join("target-miri"))
            .args(["+nightly", "miri", "run", "--no-default-features", "--features", "sync", "--bin", "c19_miri"])
            .output();
        match out {
            Ok(o) => {
                let txt = format!("{}{}", String::from_utf8_lossy(&o.stdout), String::from_utf8_lossy(&o.stderr));
                let race = txt.contains("Data race detected");
                ctx.bound("miri_free_running_pass", json!({"ran": true, "exit_ok": o.status.success(), "data_race_reported": race, "seeds": 4, "wall_s": t0.elapsed().as_secs_f64(), "exhaustive": false, "tail": txt.lines().rev().take(4).collect::<Vec<_>>()}));
                if race {
                    let mut l = Local::default();
                    l.mismatch(Mismatch { sig: "c19.miri.data-race".into(), what: txt.lines().filter(|l| l.contains("Data race")).take(2).collect::<Vec<_>>().join(" | "), case: json!({"kind":"miri"}), size: 1 });
                    ctx.merge(l);
                }
            }
            Err(e) => ctx.bound("miri_free_running_pass", json!({"ran": false, "error": e.to_string()})),
        }
    }
    if machinery_failure {
        // a wrong answer observed on the real engine stays a wrong answer even if some other
        // schedule of the run did not replay identically (when answers depend on where rules happen
        // to be allocated, traces do too): violations take precedence, otherwise machinery failure
        let code = ctx.finish("model_checking", "see design", &[]);
        return if code == 1 { 1 } else { 3 };
    }
    ctx.finish(
        "model_checking",
        "(a) every interleaving of the thread plans (2x2, 3x1, 3x2, 2x3, 2x2-mixed, 2x2-rewrite, 2x2-excepted, 2x2-cosmetic, 2x2-csp, 2x2-redirect: real OS threads on one shared real engine of the Sync build, regex-heavy rules, always-discard policy) with at most k preemptions, k = 0..bound, explored by stateless DFS; scheduling points at the real regex-manager lock (try_lock decides blocking) and inside the critical section; oracle per schedule: every answer equals the single-thread answer of a fresh engine, no panic, no deadlock, lock not poisoned; (a') history plans: 36 preambles run by one thread on the fresh engine (default discard policy, every tagged regex rule used once, then one or two tag switches over {[],[t],[u],[t,u]} with or without queries in between - the tagged rules are freed and re-created while their compiled regexes were cached under their addresses), each followed by 2x1 thread plans (quick) and also 2x2 / 2x3 plans (thorough) explored the same way at the highest bound; (b) one engine per list of C01's quick universe (+ cosmetic rules): all answers hashed by the single-thread build and recomputed by the thread-safe build; states = distinct traces + engines, transitions = scheduling points + queries; non-trivial = distinct traces",
        &[
            "no preemption between two scheduling points: sound if no shared mutable state is touched outside the lock (checked separately, non-exhaustively, by a free-running Miri pass in the thorough tier)",
            "weak-memory behaviours below the mutex are not modelled",
            "state shared outside the regex-manager lock has no scheduling point: races on it are only sampled (free-running stress pass, Miri pass), not enumerated",
        ],
    )
}

fn main() {
    vh::util::install_quiet_panic_hook();
    let args: Vec<String> = std::env::args().collect();
    let mode = args.get(1).map(|s| s.as_str()).unwrap_or("quick");
    match mode {
        "answers" => {
            write_answers(args.get(2).expect("answers <file>"));
        }
        "answers-list" => {
            let i: u64 = args.get(2).and_then(|s| s.parse().ok()).expect("answers-list <idx>");
            let (_, reqs) = answers_universe();
            for l in list_answers(i, &reqs, true).1 {
                println!("{}", l);
            }
        }
        #[cfg(feature = "sync")]
        "explore" => {
            let pi: usize = args[2].parse().unwrap();
            let b: usize = args[3].parse().unwrap();
            sx::child(pi, b);
        }
        #[cfg(feature = "sync")]
        "replay" => {
            let txt = std::fs::read_to_string(&args[2]).expect("replay file");
            let v: Value = serde_json::from_str(&txt).unwrap();
            let case = v.get("case").cloned().unwrap_or(v);
            match case["kind"].as_str().unwrap_or("schedule") {
                "schedule" => match (sx::replay_case(&case), sx::replay_case(&case)) {
                    (a, b) if a != b => {
                        eprintln!("machinery: two replays of the same schedule disagree: {:?} vs {:?}", a, b);
                        std::process::exit(3);
                    }
                    (Some(k), _) => {
                        println!("VIOLATION property=C19 replay={}", args[2]);
                        eprintln!("  {}", k);
                        std::process::exit(1);
                    }
                    _ => {
                        println!("REPLAY property=C19 result=holds");
                    }
                },
                _ => {
                    eprintln!("config-difference cases are replayed by re-running `./run C19 quick`");
                    std::process::exit(2);
                }
            }
        }
        #[cfg(feature = "sync")]
        "quick" | "thorough" => {
            let tier = if mode == "quick" { vh::Tier::Quick } else { vh::Tier::Thorough };
            std::process::exit(sync_main(tier));
        }
        other => {
            eprintln!("c19: mode {:?} is not available in this configuration", other);
            std::process::exit(2);
        }
    }
}
