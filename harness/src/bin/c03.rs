//! C03 — rule options restrict matching exactly as the option semantics specify.
//!
//! BX over four finite universes of (rule, request) pairs, every rule parsed by the real
//! `NetworkFilter::parse` and evaluated (a) with `NetworkMatchable::matches` and (b) on a
//! single-rule `Engine` through `check_network_request` (blocking rules) or
//! `check_network_request_subset(.., true, true)` (exception rules: the only way to observe an
//! exception on a single-rule engine), against an independent predicate over an option AST that
//! this file parses from the rule text itself (DESIGN §4 C03):
//!
//!  A  type x party x scheme cube: pattern forms `ads`, `||example.com^`, `|http://`, `|https://`,
//!     `|ws://`, `|wss://` x every purely positive / purely negated list over the 11 type atoms x
//!     with/without `document` x 7 party spellings x exception x important, against 25 request type
//!     strings x 6 schemes x {first-party, third-party, absent} initiators;
//!  B  domain-list x initiator cube: each of a.com, sub.a.com, b.com in {absent, listed, ~listed} in
//!     every order, `domain=` and `from=`, crossed with party and a few type lists, against
//!     initiators a.com, sub.a.com, x.sub.a.com, b.com, c.com, absent x first-/third-party hosts;
//!  C  match-case: full-regex rules with and without `match-case` x URL case variants, and
//!     `match-case` on non-regex rules (must be rejected);
//!  D  option spellings (aliases), pairs of spellings, reversed option order, mixed lists.

use adblock::filters::network::{NetworkFilter, NetworkMatchable};
use adblock::regex_manager::RegexManager;
use adblock::request::Request;
use adblock::Engine;
use serde_json::{json, Value};
use vh::util::catch;
use vh::{run_main, Ctx, Local, Mismatch, Tri};

// ------------------------------------------------------------------------------------------------
// Reference model: option AST, parsed here from the rule text (nothing shared with /repo)
// ------------------------------------------------------------------------------------------------

/// The 11 resource-type atoms; bit i of a type set is `NET_NAMES[i]`, bit 11 is `document`.
const NET_NAMES: [&str; 11] = [
    "image", "media", "object", "other", "ping", "script", "stylesheet", "subdocument", "xmlhttprequest", "websocket", "font",
];
const NET: u16 = (1 << 11) - 1;
const DOC: u16 = 1 << 11;
const WEBSOCKET: u16 = 1 << 9;

/// Option spelling -> type bit (canonical names and the documented aliases).
fn type_option_bit(name: &str) -> Option<u16> {
    let canon = match name {
        "object-subrequest" => "object",
        "beacon" => "ping",
        "css" => "stylesheet",
        "frame" => "subdocument",
        "xhr" => "xmlhttprequest",
        "document" | "doc" => return Some(DOC),
        n => n,
    };
    NET_NAMES.iter().position(|n| *n == canon).map(|i| 1u16 << i)
}

/// Request type string (WebRequest ResourceType vocabulary) -> type bit. `None`: the property does
/// not say which of the 11 atoms (if any) the string denotes.
fn request_type_bit(ty: &str) -> Option<u16> {
    let name = match ty {
        "beacon" | "ping" => "ping",
        "document" | "main_frame" => return Some(DOC),
        "font" => "font",
        "image" | "imageset" => "image",
        "media" => "media",
        "object" | "object_subrequest" => "object",
        "script" => "script",
        "stylesheet" => "stylesheet",
        "sub_frame" | "subdocument" => "subdocument",
        "websocket" => "websocket",
        "xhr" | "xmlhttprequest" => "xmlhttprequest",
        "other" | "speculative" | "web_manifest" | "xbl" | "xml_dtd" | "xslt" => "other",
        _ => return None, // csp_report, unknown strings
    };
    type_option_bit(name)
}

/// All type strings `Request::new` gives a meaning to, plus one unknown string.
const TYPE_STRINGS: [&str; 25] = [
    "script", "image", "stylesheet", "document", "subdocument", "xmlhttprequest", "websocket", "font", "media", "object", "other", "ping",
    "beacon", "main_frame", "imageset", "object_subrequest", "sub_frame", "xhr", "speculative", "web_manifest", "xbl", "xml_dtd", "xslt",
    "csp_report", "fetch",
];

#[derive(Clone, Debug, PartialEq)]
enum Form {
    /// plain substring pattern (case-insensitive; stored lower-cased)
    Plain(String),
    /// `||host^`
    HostCaret(String),
    /// `|scheme://`
    Pinned(String),
    /// `/literal/` full regex whose body is a plain alphanumeric literal
    Regex(String),
    /// `*`
    Any,
    /// any other ABP pattern (cube F: shapes next to `||host^`); matched by the pattern reference
    Shape(String),
}

#[derive(Clone, Debug)]
struct Ast {
    exception: bool,
    form: Form,
    pos: u16,
    neg: u16,
    first_ok: bool,
    third_ok: bool,
    party: Option<String>,
    dom_pos: Vec<String>,
    dom_neg: Vec<String>,
    important: bool,
    match_case: bool,
    /// lower-cased body of a `Form::Regex`
    regex_lower: String,
}

fn parse_rule(text: &str) -> Result<Ast, String> {
    let (exception, rest) = match text.strip_prefix("@@") {
        Some(r) => (true, r),
        None => (false, text),
    };
    let (pat, opts) = match rest.rfind('$') {
        Some(i) => (&rest[..i], Some(&rest[i + 1..])),
        None => (rest, None),
    };
    let alnum = |s: &str| !s.is_empty() && s.bytes().all(|b| b.is_ascii_alphanumeric());
    let hostish = |s: &str| !s.is_empty() && s.bytes().all(|b| b.is_ascii_alphanumeric() || b == b'.' || b == b'-');
    let form = if pat == "*" {
        Form::Any
    } else if let Some(h) = pat.strip_prefix("||") {
        match h.strip_suffix('^') {
            Some(h) if hostish(h) => Form::HostCaret(h.to_ascii_lowercase()),
            _ if SHAPES_F.contains(&pat) => Form::Shape(pat.to_string()),
            _ => return Err(format!("pattern outside the model: {:?}", pat)),
        }
    } else if SHAPES_F.contains(&pat) {
        Form::Shape(pat.to_string())
    } else if let Some(s) = pat.strip_prefix('|') {
        match s.strip_suffix("://") {
            Some(s) if alnum(s) => Form::Pinned(s.to_string()),
            _ => return Err(format!("pattern outside the model: {:?}", pat)),
        }
    } else if pat.len() > 2 && pat.starts_with('/') && pat.ends_with('/') && alnum(&pat[1..pat.len() - 1]) {
        Form::Regex(pat[1..pat.len() - 1].to_string())
    } else if alnum(pat) {
        Form::Plain(pat.to_ascii_lowercase())
    } else {
        return Err(format!("pattern outside the model: {:?}", pat));
    };
    let mut a = Ast {
        exception,
        form,
        pos: 0,
        neg: 0,
        first_ok: true,
        third_ok: true,
        party: None,
        dom_pos: vec![],
        dom_neg: vec![],
        important: false,
        match_case: false,
        regex_lower: String::new(),
    };
    if let Form::Regex(b) = &a.form {
        a.regex_lower = b.to_ascii_lowercase();
    }
    if let Some(opts) = opts {
        for o in opts.split(',') {
            let (negated, o) = match o.strip_prefix('~') {
                Some(r) => (true, r),
                None => (false, o),
            };
            let (name, value) = match o.split_once('=') {
                Some((n, v)) => (n, Some(v)),
                None => (o, None),
            };
            match name {
                "important" if !negated => a.important = true,
                "match-case" if !negated => a.match_case = true,
                "third-party" | "3p" | "first-party" | "1p" => {
                    let third = (name == "third-party" || name == "3p") != negated;
                    if third {
                        a.first_ok = false;
                    } else {
                        a.third_ok = false;
                    }
                    a.party = Some(format!("{}{}", if negated { "~" } else { "" }, name));
                }
                "domain" | "from" if !negated => {
                    for d in value.unwrap_or("").split('|') {
                        match d.strip_prefix('~') {
                            Some(d) => a.dom_neg.push(ascii_host(d)),
                            None => a.dom_pos.push(ascii_host(d)),
                        }
                    }
                }
                n => match type_option_bit(n) {
                    Some(DOC) if negated => return Err("negated document is outside the model".into()),
                    Some(b) if negated => a.neg |= b,
                    Some(b) => a.pos |= b,
                    None => return Err(format!("option outside the model: {:?}", o)),
                },
            }
        }
    }
    Ok(a)
}

/// `match-case` is only valid on full-regex rules.
fn rule_valid(a: &Ast) -> bool {
    !a.match_case || matches!(a.form, Form::Regex(_))
}

#[derive(Clone, Copy, PartialEq, Eq, Debug)]
enum Scheme {
    Http,
    Https,
    Ws,
    Wss,
    Unsupported,
}

/// Oracle-side view of a request, derived from the three input strings only.
#[derive(Clone, Debug)]
struct ORq {
    scheme: Scheme,
    scheme_txt: String,
    /// type bit named by the type string (before the websocket-scheme rule); None = not pinned
    ty: Option<u16>,
    host: String,
    init: Option<String>,
    url: String,
    url_lower: String,
}

fn split_url(url: &str) -> (String, String) {
    let (scheme, rest) = match url.find(':') {
        Some(i) => (&url[..i], &url[i + 1..]),
        None => ("", url),
    };
    let host = match rest.strip_prefix("//") {
        Some(r) => {
            let end = r.find(|c| c == '/' || c == '?' || c == '#').unwrap_or(r.len());
            r[..end].to_ascii_lowercase()
        }
        None => String::new(),
    };
    (scheme.to_ascii_lowercase(), host)
}

fn orq(url: &str, src: &str, ty: &str) -> ORq {
    let (scheme_txt, host) = split_url(url);
    let scheme = match scheme_txt.as_str() {
        "http" => Scheme::Http,
        "https" => Scheme::Https,
        "ws" => Scheme::Ws,
        "wss" => Scheme::Wss,
        _ => Scheme::Unsupported,
    };
    let init = if src.is_empty() { None } else { Some(ascii_host(&split_url(src).1)) };
    ORq { scheme, scheme_txt, ty: request_type_bit(ty), host, init, url: url.to_string(), url_lower: url.to_ascii_lowercase() }
}

/// Registrable domain of the hosts of this universe (all under .com / .net): the last two labels.
fn registrable(h: &str) -> &str {
    let mut dots = h.rmatch_indices('.');
    dots.next();
    match dots.next() {
        Some((i, _)) => &h[i + 1..],
        None => h,
    }
}

fn covers(listed: &str, host: &str) -> bool {
    host == listed || (host.len() > listed.len() && host.ends_with(listed) && host.as_bytes()[host.len() - listed.len() - 1] == b'.')
}

fn is_ws(o: &ORq) -> bool {
    matches!(o.scheme, Scheme::Ws | Scheme::Wss)
}

/// The request's effective type: a websocket scheme forces the websocket type.
fn effective_type(o: &ORq) -> Option<u16> {
    if is_ws(o) {
        Some(WEBSOCKET)
    } else {
        o.ty
    }
}

/// The set of types the rule's type options allow (None: mixed positive and negated list).
fn allowed_types(a: &Ast) -> Option<u16> {
    if a.pos & NET != 0 && a.neg != 0 {
        return None;
    }
    Some(if a.neg != 0 {
        // any negated network type => all network types minus the negated ones (+ explicit document)
        (NET & !a.neg) | (a.pos & DOC)
    } else if a.pos == 0 {
        // no positive type => all network types but not document; `||host^` => all types
        if matches!(a.form, Form::HostCaret(_)) {
            NET | DOC
        } else {
            NET
        }
    } else {
        a.pos
    })
}

fn type_clause(a: &Ast, o: &ORq) -> Tri {
    let allowed = match allowed_types(a) {
        Some(x) => x,
        None => return Tri::Unspec,
    };
    let rt = match effective_type(o) {
        Some(b) => b,
        None => return Tri::Unspec,
    };
    if a.exception && rt == DOC {
        // an exception applies to document requests whatever its types
        return Tri::Must(true);
    }
    Tri::Must(allowed & rt != 0)
}

fn party_clause(a: &Ast, o: &ORq) -> Tri {
    if a.first_ok && a.third_ok {
        return Tri::Must(true);
    }
    match &o.init {
        None => Tri::Unspec,
        Some(i) => {
            let first = registrable(i) == registrable(&o.host);
            Tri::Must(if first { a.first_ok } else { a.third_ok })
        }
    }
}

fn domain_clause(a: &Ast, o: &ORq) -> Tri {
    match &o.init {
        None => {
            if a.dom_pos.is_empty() {
                Tri::Must(true) // nothing can be excluded, nothing is required
            } else {
                // no initiator is among the listed domains: the option is not satisfied (the
                // repaired D5; the index never probes a domain hash for such a request either)
                Tri::Must(false)
            }
        }
        Some(i) => {
            if a.dom_neg.iter().any(|d| covers(d, i)) {
                return Tri::Must(false); // exclusions win
            }
            Tri::Must(a.dom_pos.is_empty() || a.dom_pos.iter().any(|d| covers(d, i)))
        }
    }
}

fn scheme_clause(a: &Ast, o: &ORq) -> bool {
    match &a.form {
        Form::Pinned(s) => &o.scheme_txt == s,
        _ => true,
    }
}

fn pattern_clause(a: &Ast, o: &ORq) -> bool {
    match &a.form {
        Form::Plain(t) => o.url_lower.contains(t.as_str()),
        Form::HostCaret(h) => covers(h, &o.host),
        Form::Pinned(_) | Form::Any => true,
        Form::Shape(p) => {
            let hs = o.url.find("://").map(|i| i + 3).unwrap_or(0);
            let u = vh::oracle::pattern::Url { text: o.url.as_bytes(), host_start: hs, host_end: hs + o.host.len() };
            // (the Unspecified spellings of the pattern reference are not part of SHAPES_F)
            vh::oracle::pattern::reference(&vh::oracle::pattern::parse(p), &u) == Tri::Must(true)
        }
        Form::Regex(b) => {
            if a.match_case {
                o.url.contains(b.as_str())
            } else {
                o.url_lower.contains(a.regex_lower.as_str())
            }
        }
    }
}

struct Eval {
    ty: Tri,
    party: Tri,
    domain: Tri,
    scheme: bool,
    pattern: bool,
    /// the pattern spelling has a reading of its own in this code base (`||host|`, `||host^|`:
    /// "hostname ends here", pinned by the repo's unit tests; C02 does not compare them either)
    pattern_unspec: bool,
}

fn and3(v: &[Tri]) -> Tri {
    if v.iter().any(|t| *t == Tri::Must(false)) {
        Tri::Must(false)
    } else if v.iter().any(|t| *t == Tri::Unspec) {
        Tri::Unspec
    } else {
        Tri::Must(true)
    }
}

impl Eval {
    fn of(a: &Ast, o: &ORq) -> Eval {
        let mut e = Eval { ty: type_clause(a, o), party: party_clause(a, o), domain: domain_clause(a, o), scheme: scheme_clause(a, o), pattern: pattern_clause(a, o), pattern_unspec: matches!(&a.form, Form::Shape(p) if p.starts_with("||") && p.ends_with('|') && !p[2..].contains('/')) };
        // `|ws://` is read by this code base as "any websocket request" (its own test-suite pins
        // the content-blocking translation `^wss?://`): against a wss:// URL, or combined with an
        // explicit type list, the property text does not say which reading is right => Unspecified.
        if let Form::Pinned(s) = &a.form {
            if s == "ws" && is_ws(o) && (o.scheme == Scheme::Wss || a.pos != 0 || a.neg != 0) {
                e.scheme = true;
                e.ty = Tri::Unspec;
            }
        }
        e
    }
    /// applies(rule, request) for a supported scheme
    fn applies(&self) -> Tri {
        and3(&[self.ty, self.party, self.domain, Tri::Must(self.scheme), if self.pattern_unspec { Tri::Unspec } else { Tri::Must(self.pattern) }])
    }
}

// ------------------------------------------------------------------------------------------------
// Classifier
// ------------------------------------------------------------------------------------------------

fn type_kind(a: &Ast) -> &'static str {
    match (a.pos & NET != 0, a.neg != 0, a.pos & DOC != 0) {
        (false, false, false) => {
            if matches!(a.form, Form::HostCaret(_)) {
                "no-type-hostcaret"
            } else {
                "no-type"
            }
        }
        (false, false, true) => "document-only",
        (true, false, false) => "positive",
        (true, false, true) => "positive+document",
        (false, true, false) => "negated",
        (false, true, true) => "negated+document",
        (true, true, _) => "mixed",
    }
}

fn req_class(o: &ORq) -> &'static str {
    if is_ws(o) {
        if o.ty == Some(WEBSOCKET) {
            "websocket-over-ws"
        } else {
            "ws-scheme-forces-websocket"
        }
    } else {
        match o.ty {
            Some(DOC) => "document-request",
            Some(WEBSOCKET) => "websocket-type-over-http",
            Some(_) => "network-request",
            None => "unpinned-type",
        }
    }
}

fn form_kind(a: &Ast) -> String {
    match &a.form {
        Form::Plain(_) => "plain".into(),
        Form::HostCaret(_) => "hostcaret".into(),
        Form::Pinned(s) => format!("pinned-{}", s),
        Form::Regex(_) => if a.match_case { "regex+match-case".into() } else { "regex".into() },
        Form::Any => "star".into(),
        Form::Shape(p) => format!("shape {}", p),
    }
}

fn domain_kind(a: &Ast) -> &'static str {
    match (a.dom_pos.is_empty(), a.dom_neg.is_empty()) {
        (true, true) => "none",
        (false, true) => "included",
        (true, false) => "excluded",
        (false, false) => "included+excluded",
    }
}

fn initiator_relation(a: &Ast, o: &ORq) -> String {
    let i = match &o.init {
        None => return "absent".into(),
        Some(i) => i,
    };
    let rel = |list: &Vec<String>| -> &'static str {
        if list.iter().any(|d| d == i) {
            "exact"
        } else if list.iter().any(|d| covers(d, i)) {
            "subdomain"
        } else {
            "unrelated"
        }
    };
    format!("incl-{}/excl-{}", rel(&a.dom_pos), rel(&a.dom_neg))
}

/// Signature = direction + the clauses of the reference that decide the case + the structural
/// shape of the options involved, + the observation level. `engine-only`: the public matcher
/// agrees with the reference and only the engine differs (an index problem, not an option one).
fn classify(a: &Ast, o: &ORq, ev: &Eval, exp: bool, level: &str) -> String {
    if !exp {
        let mut parts: Vec<String> = vec![];
        if !ev.scheme {
            if let Form::Pinned(s) = &a.form {
                let p = if (s == "http" || s == "https") && is_ws(o) {
                    "scheme[http(s)-pinned-rule~websocket-url]".to_string()
                } else if s == "ws" && o.scheme == Scheme::Wss {
                    "scheme[ws-pinned-rule~wss-url]".to_string()
                } else {
                    format!("scheme[{}-pinned-rule~{}-url]", s, o.scheme_txt)
                };
                parts.push(p);
            }
        }
        if !ev.pattern {
            parts.push(format!("pattern[{}]", form_kind(a)));
        }
        if ev.ty == Tri::Must(false) {
            let ws_pinned_forced = a.form == Form::Pinned("ws".into()) && is_ws(o) && allowed_types(a).map(|t| t & WEBSOCKET == 0).unwrap_or(false) && a.neg & WEBSOCKET == 0;
            if ws_pinned_forced {
                parts.push("type[ws-pinned-rule-adds-websocket-to-explicit-types]".into());
            } else {
                parts.push(format!("type[{},{}{}]", type_kind(a), req_class(o), if a.exception { ",exception" } else { "" }));
            }
        }
        if ev.party == Tri::Must(false) {
            parts.push(format!("party[{}]", a.party.clone().unwrap_or_default()));
        }
        if ev.domain == Tri::Must(false) {
            parts.push(format!("domain[{},{}]", domain_kind(a), initiator_relation(a, o)));
        }
        format!("c03.spurious.{}@{}", parts.join("+"), level)
    } else {
        // (called on the rule after `shrink_lost` removed every option group the loss does not
        // depend on, so each part that is named here is needed to reproduce the loss)
        let mut s = format!("c03.lost.{}{}", if a.exception { "exception-" } else { "" }, form_kind(a));
        if a.pos | a.neg != 0 || req_class(o) != "network-request" {
            s.push_str(&format!(".type[{},{}]", type_kind(a), req_class(o)));
        }
        if a.important {
            s.push_str(".important");
        }
        if let Some(p) = &a.party {
            s.push_str(&format!(".party[{}]", p));
        }
        if domain_kind(a) != "none" {
            s.push_str(&format!(".domain[{},{}]", domain_kind(a), initiator_relation(a, o)));
        }
        format!("{}@{}", s, level)
    }
}

// ------------------------------------------------------------------------------------------------
// Subject side
// ------------------------------------------------------------------------------------------------

struct Rq {
    url: String,
    src: String,
    ty: String,
    req: Request,
    o: ORq,
}

fn make_rq(url: &str, src: &str, ty: &str) -> Option<Rq> {
    let o = orq(url, src, ty);
    let req = match catch(|| Request::new(url, src, ty)) {
        Ok(Ok(r)) => r,
        Ok(Err(_)) if o.scheme == Scheme::Unsupported => {
            // `Request::new` refuses URLs without a host (data:). The other public constructor
            // accepts them, so "unsupported schemes are never matched" can still be observed.
            let src_host = o.init.clone().unwrap_or_default();
            let third = o.init.as_ref().map(|i| registrable(i) != registrable(&o.host)).unwrap_or(true);
            match catch(|| Request::preparsed(url, &o.host, &src_host, ty, third)) {
                Ok(r) => r,
                Err(_) => return None,
            }
        }
        _ => return None,
    };
    Some(Rq { url: url.to_string(), src: src.to_string(), ty: ty.to_string(), req, o })
}

/// Machinery guard (not a property check): the reference reads the same URL text and host as the
/// subject, so the request constructor must have left them alone for every URL of a universe.
fn guard_requests(name: &str, rqs: &[Rq]) {
    for r in rqs {
        if r.req.url != r.url || r.req.hostname != r.o.host {
            eprintln!("machinery: universe {} contains a URL the request constructor rewrites: {:?} -> {:?} host {:?}", name, r.url, r.req.url, r.req.hostname);
            std::process::exit(3);
        }
    }
}

const OUTCOMES: [&str; 14] = [
    "matcher:applies",
    "matcher:does-not-apply",
    "matcher:LOST",
    "matcher:SPURIOUS",
    "engine:blocks",
    "engine:exception-applies",
    "engine:no-verdict",
    "engine:LOST",
    "engine:SPURIOUS",
    "engine:unsupported-scheme-ignored",
    "engine:unsupported-scheme-MATCHED",
    "matcher:unspecified-executed",
    "engine:unspecified-executed",
    "panic",
];

#[derive(Default)]
struct Tally {
    n: [u64; 14],
}

impl Tally {
    fn flush(&self, l: &mut Local) {
        for (i, k) in OUTCOMES.iter().enumerate() {
            if self.n[i] == 0 {
                continue;
            }
            match l.histogram.get_mut(*k) {
                Some(v) => *v += self.n[i],
                None => {
                    l.histogram.insert(k.to_string(), self.n[i]);
                }
            }
        }
    }
}

fn case_json(rule: &str, r: &Rq) -> Value {
    json!({"rule": rule, "url": r.url, "source": r.src, "type": r.ty})
}

fn build_engine(rule: &str) -> Result<Engine, String> {
    catch(|| vh::net::engine(&[rule], true, false))
}

/// What the real code says about one (rule text, request) pair at one observation point.
fn real_applies(rule: &str, exception: bool, r: &Rq, engine_level: bool) -> Option<bool> {
    if engine_level {
        let e = build_engine(rule).ok()?;
        let res = if exception {
            catch(|| e.check_network_request_subset(&r.req, true, true)).ok()?
        } else {
            catch(|| e.check_network_request(&r.req)).ok()?
        };
        Some(if exception { res.exception.is_some() } else { res.matched })
    } else {
        let f = catch(|| NetworkFilter::parse(rule, true, Default::default())).ok()?.ok()?;
        let mut rm = RegexManager::default();
        catch(|| f.matches(&r.req, &mut rm)).ok()
    }
}

/// Classifier step for a lost match: greedily drop whole option groups (important, domain list,
/// party, type options) from the rule while the reference still says "applies" and the real code
/// still says "does not". What is left names the options the loss depends on. Deterministic
/// (the real code is), and only ever executed on a mismatch.
fn shrink_lost(rule: &str, r: &Rq, engine_level: bool) -> String {
    let group = |o: &str| -> u8 {
        let o = o.trim_start_matches('~');
        let name = o.split('=').next().unwrap_or("");
        match name {
            "important" => 0,
            "domain" | "from" => 1,
            "third-party" | "3p" | "first-party" | "1p" => 2,
            "match-case" => 9,
            _ => 3,
        }
    };
    let mut cur = rule.to_string();
    for g in 0..4u8 {
        let (head, opts) = match cur.rfind('$') {
            Some(i) => (cur[..i].to_string(), cur[i + 1..].split(',').map(|x| x.to_string()).collect::<Vec<_>>()),
            None => break,
        };
        if !opts.iter().any(|o| group(o) == g) {
            continue;
        }
        let kept: Vec<String> = opts.into_iter().filter(|o| group(o) != g).collect();
        let cand = if kept.is_empty() { head.clone() } else { format!("{}${}", head, kept.join(",")) };
        if cand.trim_start_matches("@@") == "*" {
            continue;
        }
        let a = match parse_rule(&cand) {
            Ok(a) => a,
            Err(_) => continue,
        };
        if Eval::of(&a, &r.o).applies() == Tri::Must(true) && real_applies(&cand, a.exception, r, engine_level) == Some(false) {
            cur = cand;
        }
    }
    if let Some(cand) = cur.strip_prefix("@@") {
        if let Ok(a) = parse_rule(cand) {
            if Eval::of(&a, &r.o).applies() == Tri::Must(true) && real_applies(cand, false, r, engine_level) == Some(false) {
                cur = cand.to_string();
            }
        }
    }
    cur
}

/// Signature of a mismatch, and (for a lost match) the shrunk rule it was computed from.
fn signature(rule: &str, a: &Ast, r: &Rq, ev: &Eval, exp: bool, level: &str) -> (String, String) {
    if !exp {
        return (classify(a, &r.o, ev, exp, level), String::new());
    }
    let core = shrink_lost(rule, r, level != "matcher");
    if core == rule {
        return (classify(a, &r.o, ev, exp, level), String::new());
    }
    match parse_rule(&core) {
        Ok(ca) => {
            let cev = Eval::of(&ca, &r.o);
            (classify(&ca, &r.o, &cev, exp, level), format!(" (already lost with only {:?})", core))
        }
        Err(_) => (classify(a, &r.o, ev, exp, level), String::new()),
    }
}

/// Evaluates one rule against a list of requests at both observation points.
fn check_rule(rule: &str, rqs: &[Rq], l: &mut Local) {
    let a = match parse_rule(rule) {
        Ok(a) => a,
        Err(e) => {
            eprintln!("machinery: the reference cannot read generated rule {:?}: {}", rule, e);
            std::process::exit(3);
        }
    };
    let unspec_rule = allowed_types(&a).is_none();
    let f = match catch(|| NetworkFilter::parse(rule, true, Default::default())) {
        Err(loc) => {
            l.mismatch(Mismatch {
                sig: format!("c03.parse-panic@{}", loc),
                what: format!("NetworkFilter::parse({:?}) panicked at {}", rule, loc),
                case: json!({"rule": rule}),
                size: rule.len() as u64,
            });
            return;
        }
        Ok(Err(e)) => {
            l.evaluations += 1;
            if unspec_rule {
                l.unspecified += 1;
                l.hist("parse:rejected(unspecified rule)");
            } else if rule_valid(&a) {
                l.compared += 1;
                l.hist("parse:REJECTED-valid-rule");
                l.mismatch(Mismatch {
                    sig: format!("c03.parse.rejected-valid-rule[{},{}].{:?}", form_kind(&a), type_kind(&a), e),
                    what: format!("rule {:?} is valid by the option semantics but parse returned {:?}", rule, e),
                    case: json!({"rule": rule}),
                    size: rule.len() as u64,
                });
            } else {
                l.compared += 1;
                l.nontrivial += 1;
                l.hist("parse:rejected-invalid-rule");
            }
            return;
        }
        Ok(Ok(f)) => f,
    };
    if !rule_valid(&a) {
        l.evaluations += 1;
        l.compared += 1;
        l.hist("parse:ACCEPTED-invalid-rule");
        l.mismatch(Mismatch {
            sig: format!("c03.matchcase.accepted-on-non-regex-rule[{}]", form_kind(&a)),
            what: format!("rule {:?} carries match-case without being a full regex, but parse accepted it", rule),
            case: json!({"rule": rule}),
            size: rule.len() as u64,
        });
        return;
    }
    l.states += 1;
    let engine = match build_engine(rule) {
        Ok(e) => Some(e),
        Err(loc) => {
            l.mismatch(Mismatch {
                sig: format!("c03.engine-build-panic@{}", loc),
                what: format!("building a single-rule engine from {:?} panicked at {}", rule, loc),
                case: json!({"rule": rule}),
                size: rule.len() as u64,
            });
            None
        }
    };
    if engine.is_some() {
        l.states += 1;
    }
    // one manager per filter: compiled regexes are cached by filter address
    let mut rm = RegexManager::default();
    let mut t = Tally::default();
    // simplest witness first: shorter rule, then (deterministic tie-break) rule text hash, then
    // request ordinal
    let rule_size = ((rule.len() as u64) << 40) | ((vh::util::hash_str(rule) & 0xff_ffff) << 16);

    for (k, r) in rqs.iter().enumerate() {
        let ev = Eval::of(&a, &r.o);
        let supported = r.o.scheme != Scheme::Unsupported;
        let applies = ev.applies();

        // ---- observation point 1: NetworkMatchable::matches --------------------------------
        l.evaluations += 1;
        l.transitions += 1;
        let got_m = match catch(|| f.matches(&r.req, &mut rm)) {
            Ok(b) => Some(b),
            Err(loc) => {
                t.n[13] += 1;
                l.mismatch(Mismatch {
                    sig: format!("c03.match-panic@{}", loc),
                    what: format!("matches() panicked at {} for rule {:?}", loc, rule),
                    case: case_json(rule, r),
                    size: rule_size + k as u64,
                });
                None
            }
        };
        let mut matcher_ok = true;
        if let Some(got) = got_m {
            // unsupported schemes are asserted only at the engine
            match if supported { applies } else { Tri::Unspec } {
                Tri::Unspec => {
                    l.unspecified += 1;
                    t.n[11] += 1;
                }
                Tri::Must(exp) => {
                    l.compared += 1;
                    if exp || got {
                        l.nontrivial += 1;
                    }
                    t.n[match (exp, got) {
                        (true, true) => 0,
                        (false, false) => 1,
                        (true, false) => 2,
                        (false, true) => 3,
                    }] += 1;
                    if exp != got {
                        matcher_ok = false;
                        let (sig, core) = signature(rule, &a, r, &ev, exp, "matcher");
                        l.mismatch(Mismatch {
                            sig,
                            what: format!(
                                "rule {:?}{} vs {} {:?} from {:?}: option semantics say {}, NetworkFilter::matches says {}",
                                rule,
                                core,
                                r.ty,
                                r.url,
                                r.src,
                                if exp { "applies" } else { "does not apply" },
                                got
                            ),
                            case: case_json(rule, r),
                            size: rule_size + k as u64,
                        });
                    }
                }
            }
        }

        // ---- observation point 2: single-rule engine ---------------------------------------
        let e = match &engine {
            Some(e) => e,
            None => continue,
        };
        l.evaluations += 1;
        l.transitions += 1;
        let res = if a.exception {
            catch(|| e.check_network_request_subset(&r.req, true, true))
        } else {
            catch(|| e.check_network_request(&r.req))
        };
        let res = match res {
            Ok(x) => x,
            Err(loc) => {
                t.n[13] += 1;
                l.mismatch(Mismatch {
                    sig: format!("c03.engine-check-panic@{}", loc),
                    what: format!("check_network_request panicked at {} for rule {:?}", loc, rule),
                    case: case_json(rule, r),
                    size: rule_size + k as u64,
                });
                continue;
            }
        };
        let got_e = if a.exception { res.exception.is_some() } else { res.matched };
        if !supported {
            // requests with unsupported schemes are never matched
            l.compared += 1;
            let any = res.exception.is_some() || res.filter.is_some() || res.important || (!a.exception && res.matched);
            if any {
                t.n[10] += 1;
                l.mismatch(Mismatch {
                    sig: format!("c03.unsupported-scheme.matched[{}]@engine", r.o.scheme_txt),
                    what: format!("rule {:?} produced a verdict for the unsupported-scheme request {:?}", rule, r.url),
                    case: case_json(rule, r),
                    size: rule_size + k as u64,
                });
            } else {
                t.n[9] += 1;
            }
            continue;
        }
        match applies {
            Tri::Unspec => {
                l.unspecified += 1;
                t.n[12] += 1;
            }
            Tri::Must(exp) => {
                l.compared += 1;
                if exp || got_e {
                    l.nontrivial += 1;
                }
                t.n[match (exp, got_e) {
                    (true, true) => {
                        if a.exception {
                            5
                        } else {
                            4
                        }
                    }
                    (false, false) => 6,
                    (true, false) => 7,
                    (false, true) => 8,
                }] += 1;
                if exp != got_e {
                    let level = if matcher_ok && got_m.is_some() { "engine-only" } else { "engine" };
                    let (sig, core) = signature(rule, &a, r, &ev, exp, level);
                    l.mismatch(Mismatch {
                        sig,
                        what: format!(
                            "rule {:?}{} vs {} {:?} from {:?}: option semantics say {}, single-rule engine says {} (matcher says {:?})",
                            rule,
                            core,
                            r.ty,
                            r.url,
                            r.src,
                            if exp { "applies" } else { "does not apply" },
                            if a.exception { format!("exception={}", got_e) } else { format!("matched={}", got_e) },
                            got_m
                        ),
                        case: case_json(rule, r),
                        size: rule_size + k as u64,
                    });
                } else if exp && !a.exception {
                    // consistency of the verdict the engine reports for the rule that applied
                    if res.important != a.important || res.exception.is_some() {
                        l.mismatch(Mismatch {
                            sig: "c03.engine.flags-of-single-blocking-rule".into(),
                            what: format!("rule {:?} blocks {:?} but the result has important={} exception={:?}", rule, r.url, res.important, res.exception),
                            case: case_json(rule, r),
                            size: rule_size + k as u64,
                        });
                    }
                }
            }
        }
    }
    t.flush(l);
}

// ------------------------------------------------------------------------------------------------
// Universes
// ------------------------------------------------------------------------------------------------

/// Cube F: pattern shapes next to `||host^`. Only `||host^` itself (cube A) applies to document
/// requests without a type option (src/filters/network.rs documents "only for hostname filters of
/// the form `||example.com^`"); every shape below is an ordinary rule: all network types, no document.
const SHAPES_F: [&str; 12] = [
    "||example.com^|", "||example.com|", "||example.com/", "||example.com/ads", "||example.com^ads", "||example.com/|", "|https://example.com^", "|https://example.com/|",
    "example.com^", "://example.com^", "||example.com^ads^", "||sub.example.com/",
];

fn rules_f() -> Vec<String> {
    let mut v = vec![];
    for shape in SHAPES_F.iter().copied().chain(["||example.com^", "||sub.example.com^"]) {
        for exception in [false, true] {
            for opts in ["", "3p", "1p", "important", "domain=example.com", "domain=~example.com", "script", "~script", "document", "script,document", "~script,document", "3p,important"] {
                if exception && opts.contains("important") {
                    continue;
                }
                v.push(format!("{}{}{}{}", if exception { "@@" } else { "" }, shape, if opts.is_empty() { "" } else { "$" }, opts));
            }
        }
    }
    v
}

fn requests_f(counters: &mut Vec<(String, u64)>) -> Vec<Rq> {
    let mut v = vec![];
    for url in ["https://example.com/", "https://example.com/ads", "https://example.com/ads/x", "https://sub.example.com/", "http://example.com/", "https://example.com.evil.org/", "https://other.org/?u=https://example.com/"] {
        for src in ["https://example.com/", "https://sub.example.com/p", "https://unrelated.org/", ""] {
            for ty in ["document", "main_frame", "script", "image", "subdocument", "other"] {
                if let Some(r) = make_rq(url, src, ty) {
                    v.push(r);
                }
            }
        }
    }
    counters.push(("cubeF_requests_per_rule".into(), v.len() as u64));
    v
}

const PARTY: [&str; 7] = ["", "3p", "1p", "~3p", "~1p", "third-party", "first-party"];
const FORMS_A: [&str; 6] = ["ads", "||example.com^", "|http://", "|https://", "|ws://", "|wss://"];
const SCHEMES: [&str; 6] = ["https", "http", "ws", "wss", "ftp", "data"];

fn type_list(mask: u16, negated: bool, out: &mut Vec<String>) {
    for (i, n) in NET_NAMES.iter().enumerate() {
        if mask & (1 << i) != 0 {
            out.push(format!("{}{}", if negated { "~" } else { "" }, n));
        }
    }
}

fn assemble(exception: bool, form: &str, opts: &[String]) -> String {
    let mut s = String::new();
    if exception {
        s.push_str("@@");
    }
    s.push_str(form);
    if !opts.is_empty() {
        s.push('$');
        s.push_str(&opts.join(","));
    }
    s
}

/// Type sets of cube A, simplest first: (negated, mask). Mask 0 = no type option.
fn type_sets(quick: bool) -> Vec<(bool, u16)> {
    let mut pos: Vec<u16> = (0..2048u16).collect();
    pos.sort_by_key(|m| (m.count_ones(), *m));
    let mut neg: Vec<u16> = if quick {
        // all non-empty subsets of six atoms: image, other, script, subdocument, xmlhttprequest, websocket
        let six: [u16; 6] = [1 << 0, 1 << 3, 1 << 5, 1 << 7, 1 << 8, 1 << 9];
        (1..64u16)
            .map(|s| six.iter().enumerate().filter(|(i, _)| s & (1 << i) != 0).fold(0u16, |acc, (_, b)| acc | b))
            .collect()
    } else {
        (1..2048u16).collect()
    };
    neg.sort_by_key(|m| (m.count_ones(), *m));
    pos.into_iter().map(|m| (false, m)).chain(neg.into_iter().map(|m| (true, m))).collect()
}

struct CubeA {
    sets: Vec<(bool, u16)>,
    /// 1: options in canonical order (types, document, party, important); 2: also reversed
    orders: u64,
}

impl CubeA {
    fn per_form(&self) -> u64 {
        self.sets.len() as u64 * 2 * 7 * 2 * 2 * self.orders
    }
    fn total(&self) -> u64 {
        self.per_form() * FORMS_A.len() as u64
    }
    /// index -> (form index, rule text)
    fn rule(&self, mut i: u64) -> (usize, String) {
        let ts = self.sets[(i % self.sets.len() as u64) as usize];
        i /= self.sets.len() as u64;
        let doc = i % 2 == 1;
        i /= 2;
        let party = PARTY[(i % 7) as usize];
        i /= 7;
        let important = i % 2 == 1;
        i /= 2;
        let exception = i % 2 == 1;
        i /= 2;
        let reversed = i % self.orders == 1;
        i /= self.orders;
        let form = i as usize;
        let mut opts = vec![];
        type_list(ts.1, ts.0, &mut opts);
        if doc {
            opts.push("document".into());
        }
        if !party.is_empty() {
            opts.push(party.into());
        }
        if important {
            opts.push("important".into());
        }
        if reversed {
            opts.reverse();
        }
        (form, assemble(exception, FORMS_A[form], &opts))
    }
}

fn url_for(scheme: &str, host: &str, path: &str) -> String {
    if scheme == "data" {
        // a data: URL has no authority; keep the pattern text in the payload
        format!("data:text/plain,{}{}", host, path)
    } else {
        format!("{}://{}{}", scheme, host, path)
    }
}

/// Requests of cube A: 25 type strings x 6 schemes x {third-party, first-party, absent} initiator.
/// `extra_path`: additionally a URL whose path contains the tokens `http`, `https` and `ws`, so that
/// a scheme-pinned rule's protocol token is found by the engine's index on a non-matching scheme.
fn requests_a(extra_path: bool, counters: &mut Vec<(String, u64)>) -> Vec<Rq> {
    let mut out = vec![];
    let mut rejected = 0;
    let paths: &[&str] = if extra_path { &["/ads", "/ads/http/https/ws"] } else { &["/ads"] };
    for path in paths {
        for scheme in SCHEMES {
            for src in ["https://other.net/page", "https://sub.example.com/page", ""] {
                for ty in TYPE_STRINGS {
                    if *path != "/ads" && !["script", "websocket", "document", "image", "xhr", "other"].contains(&ty) {
                        continue; // the second URL is about the index token, not about type aliases
                    }
                    let url = url_for(scheme, "example.com", path);
                    match make_rq(&url, src, ty) {
                        Some(r) => out.push(r),
                        None => rejected += 1,
                    }
                }
            }
        }
    }
    counters.push((format!("cubeA{}_requests_rejected_by_Request::new", if extra_path { "+path" } else { "" }), rejected));
    out
}

const DOMS: [&str; 3] = ["a.com", "sub.a.com", "b.com"];

/// A host name as the request side reports it: lower case, IDN labels in punycode.
fn ascii_host(h: &str) -> String {
    let l = h.to_lowercase();
    if l.is_ascii() {
        l
    } else {
        idna::domain_to_ascii(&l).unwrap_or(l)
    }
}

/// All domain lists of cube B: each of the three domains absent / listed / ~listed, in every order.
fn domain_lists() -> Vec<String> {
    let mut out = vec![String::new()];
    for code in 1..27u32 {
        let mut entries = vec![];
        let mut c = code;
        for d in DOMS {
            match c % 3 {
                1 => entries.push(d.to_string()),
                2 => entries.push(format!("~{}", d)),
                _ => {}
            }
            c /= 3;
        }
        for p in vh::util::permutations(entries.len()) {
            let v: Vec<&str> = p.iter().map(|&i| entries[i].as_str()).collect();
            out.push(v.join("|"));
        }
    }
    // entries that start with `www.` (a host like any other: no prefix is dropped on either side)
    for l in ["www.a.com", "~www.a.com", "a.com|~www.a.com", "www.a.com|b.com", "~www.a.com|~b.com", "sub.a.com|www.a.com"] {
        out.push(l.to_string());
    }
    // one domain listed both ways (exclusions win: such a rule applies nowhere, or only where the other
    // included entries say)
    for l in ["a.com|~a.com", "~a.com|a.com", "a.com|b.com|~b.com|~a.com", "a.com|b.com|~a.com", "sub.a.com|~sub.a.com|a.com"] {
        out.push(l.to_string());
    }
    // entries in another spelling than the one a request reports: IDN labels in Unicode, upper case
    for l in ["bücher.de", "~bücher.de", "bücher.de|b.com", "xn--bcher-kva.de", "BÜCHER.de", "a.com|~x.bücher.de", "A.com", "~A.com|b.com", "Sub.A.Com|~a.com"] {
        out.push(l.to_string());
    }
    out
}

fn rules_b(quick: bool) -> Vec<String> {
    let mut out = vec![];
    let lists = domain_lists();
    for form in ["ads", "*"] {
        for exception in [false, true] {
            for list in &lists {
                for alias in ["domain", "from"] {
                    if list.is_empty() && alias == "from" {
                        continue;
                    }
                    for party in PARTY {
                        let type_lists: &[&str] = if quick {
                            &["", "script", "~script", "image,document"]
                        } else {
                            &["", "script", "~script", "image,document", "document", "websocket", "~image,~websocket", "xhr,script", "~xhr,document", "image"]
                        };
                        for types in type_lists.iter().copied() {
                            for domain_first in [false, true] {
                                let mut opts: Vec<String> = vec![];
                                if !types.is_empty() {
                                    opts.push(types.to_string());
                                }
                                if !party.is_empty() {
                                    opts.push(party.to_string());
                                }
                                if !list.is_empty() {
                                    let d = format!("{}={}", alias, list);
                                    if domain_first {
                                        opts.insert(0, d);
                                    } else {
                                        opts.push(d);
                                    }
                                } else if domain_first {
                                    continue;
                                }
                                if form == "*" && opts.is_empty() {
                                    continue; // a bare `*` is not an option case
                                }
                                out.push(assemble(exception, form, &opts));
                            }
                        }
                    }
                }
            }
        }
    }
    // the initiator option written twice: every list cut at every position into an all-positive and
    // an all-negated option (for those, "every option is satisfied" and "the entries of both options
    // form one list" say the same; two options of one sign, or mixed ones, are not pinned); the
    // second may be `from=`, and another option may stand between them
    for form in ["ads", "*"] {
        for exception in [false, true] {
            for list in &lists {
                let entries: Vec<&str> = list.split('|').collect();
                for cut in 1..entries.len() {
                    let pure = |e: &[&str]| e.iter().all(|d| d.starts_with('~')) || e.iter().all(|d| !d.starts_with('~'));
                    if !pure(&entries[..cut]) || !pure(&entries[cut..]) || entries[0].starts_with('~') == entries[cut].starts_with('~') {
                        continue;
                    }
                    let (x, y) = (entries[..cut].join("|"), entries[cut..].join("|"));
                    for opts in [
                        vec![format!("domain={}", x), format!("domain={}", y)],
                        vec![format!("domain={}", x), format!("from={}", y)],
                        vec![format!("from={}", x), "script".to_string(), format!("domain={}", y)],
                    ] {
                        out.push(assemble(exception, form, &opts));
                    }
                }
            }
        }
    }
    out
}

fn requests_b(counters: &mut Vec<(String, u64)>) -> Vec<Rq> {
    let mut out = vec![];
    let mut rejected = 0;
    // (the last two initiators have 10 and 14 labels: a listed domain covers its sub-domains at any depth)
    for (src_host, first_party_host) in [("a.com", "cdn.a.com"), ("sub.a.com", "cdn.a.com"), ("x.sub.a.com", "a.com"), ("b.com", "cdn.b.com"), ("c.com", "cdn.c.com"), ("", ""), ("l1.l2.l3.l4.l5.l6.l7.sub.a.com", "cdn.a.com"), ("www.a.com", "cdn.a.com"), ("x.www.a.com", "cdn.a.com"), ("m1.m2.m3.m4.m5.m6.m7.m8.m9.m10.m11.m12.b.com", "cdn.b.com"), ("bücher.de", "cdn.a.com"), ("x.bücher.de", "cdn.a.com"), ("a.com", "xa.com"), ("sub.a.com", "cdn.xa.com")] {
        for host in ["example.com", first_party_host] {
            if host.is_empty() {
                continue;
            }
            for scheme in ["https", "http", "ws", "ftp"] {
                for ty in ["script", "image", "document", "xhr"] {
                    let url = url_for(scheme, host, "/ads");
                    let src = if src_host.is_empty() { String::new() } else { format!("https://{}/page", src_host) };
                    match make_rq(&url, &src, ty) {
                        Some(r) => out.push(r),
                        None => rejected += 1,
                    }
                }
            }
        }
    }
    counters.push(("cubeB_requests_rejected_by_Request::new".into(), rejected));
    out
}

fn rules_c() -> Vec<String> {
    let mut out = vec![];
    for exception in [false, true] {
        for body in ["ads", "ADS", "Ads"] {
            for mc in [false, true] {
                for extra in ["", "script", "~script", "3p", "document", "domain=a.com", "important"] {
                    for mc_first in [false, true] {
                        let mut opts: Vec<String> = vec![];
                        if !extra.is_empty() {
                            opts.push(extra.to_string());
                        }
                        if mc {
                            if mc_first {
                                opts.insert(0, "match-case".into());
                            } else {
                                opts.push("match-case".into());
                            }
                        } else if mc_first {
                            continue;
                        }
                        out.push(assemble(exception, &format!("/{}/", body), &opts));
                    }
                }
            }
        }
        // match-case on rules that are not full regexes: invalid
        for form in ["ads", "ADS", "||example.com^", "|http://", "|ws://", "*"] {
            for extra in ["", "script", "3p", "domain=a.com"] {
                let mut opts: Vec<String> = vec![];
                if !extra.is_empty() {
                    opts.push(extra.to_string());
                }
                opts.push("match-case".into());
                out.push(assemble(exception, form, &opts));
            }
        }
    }
    out
}

fn requests_c(counters: &mut Vec<(String, u64)>) -> Vec<Rq> {
    let mut out = vec![];
    let mut rejected = 0;
    for scheme in ["https", "http", "ws", "ftp"] {
        for path in ["/ads", "/ADS", "/Ads", "/aDs", "/x"] {
            for src in ["https://other.net/page", "https://sub.example.com/page", "https://a.com/page"] {
                for ty in ["script", "image", "document"] {
                    match make_rq(&url_for(scheme, "example.com", path), src, ty) {
                        Some(r) => out.push(r),
                        None => rejected += 1,
                    }
                }
            }
        }
    }
    counters.push(("cubeC_requests_rejected_by_Request::new".into(), rejected));
    out
}

const SPELLINGS: [&str; 18] = [
    "image", "media", "object", "object-subrequest", "other", "ping", "beacon", "script", "stylesheet", "css", "subdocument", "frame",
    "xmlhttprequest", "xhr", "websocket", "font", "document", "doc",
];

fn rules_d() -> Vec<String> {
    let mut out = vec![];
    let neg_ok = |s: &str| s != "document" && s != "doc";
    for form in ["ads", "||example.com^", "|https://"] {
        for exception in [false, true] {
            // single spellings and pairs, positive and negated, in both orders
            for (i, s1) in SPELLINGS.iter().enumerate() {
                out.push(assemble(exception, form, &[s1.to_string()]));
                if neg_ok(s1) {
                    out.push(assemble(exception, form, &[format!("~{}", s1)]));
                }
                for (j, s2) in SPELLINGS.iter().enumerate() {
                    if i == j {
                        continue;
                    }
                    out.push(assemble(exception, form, &[s1.to_string(), s2.to_string()]));
                    if neg_ok(s1) && neg_ok(s2) {
                        out.push(assemble(exception, form, &[format!("~{}", s1), format!("~{}", s2)]));
                    }
                    // mixed positive + negated: Unspecified, executed only
                    if neg_ok(s2) && type_option_bit(s1) != Some(DOC) {
                        out.push(assemble(exception, form, &[s1.to_string(), format!("~{}", s2)]));
                    }
                }
            }
            // every ordered pair of party spellings (same restriction twice, contradictory pairs:
            // every option of a rule has to hold, whatever its position)
            let parties = ["3p", "1p", "~3p", "~1p", "third-party", "first-party", "~third-party", "~first-party"];
            for p1 in parties {
                for p2 in parties {
                    out.push(assemble(exception, form, &[p1.to_string(), p2.to_string()]));
                    out.push(assemble(exception, form, &[p1.to_string(), "script".to_string(), p2.to_string()]));
                }
            }
            // option order: non-type options before, between and after the type options
            for party in ["3p", "~third-party", "first-party"] {
                for types in [vec!["script", "image"], vec!["~script", "~xhr"], vec!["document", "font"], vec![]] {
                    let base: Vec<String> = types.iter().map(|s| s.to_string()).chain([party.to_string(), "important".to_string(), "domain=~b.com".to_string()]).collect();
                    for p in vh::util::permutations(base.len()) {
                        let v: Vec<String> = p.iter().map(|&i| base[i].clone()).collect();
                        out.push(assemble(exception, form, &v));
                    }
                }
            }
        }
    }
    out.sort();
    out.dedup();
    out.sort_by_key(|r| r.len());
    out
}

// ------------------------------------------------------------------------------------------------
// check / replay
// ------------------------------------------------------------------------------------------------

/// Cube G: of the eleven one-type rules `form$atom` at most one applies to a request.
fn check_exclusive(r: &Rq, form: &str, engine_level: bool, l: &mut Local) {
        let mut applying: Vec<String> = vec![];
        for atom in NET_NAMES {
            let rule = format!("{}${}", form, atom);
            l.evaluations += 1;
            l.transitions += 1;
            if real_applies(&rule, false, r, engine_level) == Some(true) {
                applying.push(rule);
            }
        }
        l.compared += 1;
        if !applying.is_empty() {
            l.nontrivial += 1;
        }
        if applying.len() > 1 {
            l.mismatch(Mismatch {
                sig: format!("c03.exclusive.one-request-satisfies-several-one-type-rules@{}", if engine_level { "engine" } else { "matcher" }),
                what: format!("request {} type {:?} from {:?} is matched by all of {:?}: a request has one resource type", r.url, r.ty, r.src, applying),
                case: json!({"rule": applying[0], "url": r.url, "source": r.src, "type": r.ty, "kind": "exclusive", "form": form, "engine_level": engine_level}),
                size: r.url.len() as u64,
            });
        }
}

fn replay(case: &Value, l: &mut Local) {
    let rule = case["rule"].as_str().unwrap_or("");
    if rule.is_empty() {
        return;
    }
    if case["kind"].as_str() == Some("exclusive") {
        if let Some(r) = make_rq(case["url"].as_str().unwrap_or(""), case["source"].as_str().unwrap_or(""), case["type"].as_str().unwrap_or("script")) {
            check_exclusive(&r, case["form"].as_str().unwrap_or("ads"), case["engine_level"].as_bool().unwrap_or(false), l);
        }
        return;
    }
    match case.get("url").and_then(|u| u.as_str()) {
        Some(url) => {
            let src = case["source"].as_str().unwrap_or("");
            let ty = case["type"].as_str().unwrap_or("script");
            if let Some(r) = make_rq(url, src, ty) {
                check_rule(rule, &[r], l);
            }
        }
        None => {
            // a parse-level case: the rule alone decides
            check_rule(rule, &[], l);
        }
    }
}

fn check(ctx: &Ctx) -> i32 {
    let quick = ctx.tier == vh::Tier::Quick;
    let mut counters: Vec<(String, u64)> = vec![];

    // ---- cube A ------------------------------------------------------------------------------
    let cube = CubeA { sets: type_sets(quick), orders: ctx.tier.pick(1, 2) };
    ctx.bound("cubeA_option_orders", cube.orders);
    let rq_a = requests_a(false, &mut counters);
    let rq_a2 = requests_a(true, &mut counters);
    guard_requests("A", &rq_a2);
    ctx.bound("cubeA_type_sets", json!({"positive": 2048, "negated": cube.sets.iter().filter(|s| s.0).count(), "each_with_and_without_document": true}));
    ctx.bound("cubeA_forms", json!(FORMS_A));
    ctx.bound("cubeA_party_spellings", json!(PARTY));
    ctx.bound("cubeA_rules", cube.total());
    ctx.bound("cubeA_requests_per_rule", json!({"ads,||example.com^": rq_a.len(), "scheme-pinned forms": rq_a2.len()}));
    ctx.bound("request_type_strings", json!(TYPE_STRINGS));
    ctx.bound("schemes", json!(SCHEMES));
    vh::util::assert_no_hash_collisions(["a.com", "sub.a.com", "x.sub.a.com", "b.com", "c.com", "com", "example.com", "sub.example.com", "other.net", "net", "http", "https", "ws", "ads"]);

    ctx.par_range("cubeA:type-x-party-x-scheme", cube.total(), 8, |i, l| {
        let (form, rule) = cube.rule(i);
        let rqs = if form >= 2 { &rq_a2 } else { &rq_a };
        if l.samples.is_empty() && (i + ctx.seed) % (cube.total() / 3 + 1) == 7 {
            l.samples.push(json!({"universe": "A", "rule": rule, "requests": rqs.len(), "first_request": [rqs[0].url, rqs[0].src, rqs[0].ty]}));
        }
        check_rule(&rule, rqs, l);
    });

    // ---- cube B ------------------------------------------------------------------------------
    let rules_b = rules_b(quick);
    let rq_b = requests_b(&mut counters);
    guard_requests("B", &rq_b);
    ctx.bound("cubeB_domain_lists_incl_orders", domain_lists().len());
    ctx.bound("cubeB_rules", rules_b.len());
    ctx.bound("cubeB_requests_per_rule", rq_b.len());
    ctx.par_range("cubeB:domain-x-initiator", rules_b.len() as u64, 8, |i, l| {
        let rule = &rules_b[i as usize];
        if (i + ctx.seed) % (rules_b.len() as u64 / 3 + 1) == 7 {
            l.samples.push(json!({"universe": "B", "rule": rule, "requests": rq_b.len()}));
        }
        check_rule(rule, &rq_b, l);
    });

    // ---- cube C ------------------------------------------------------------------------------
    let rules_c = rules_c();
    let rq_c = requests_c(&mut counters);
    guard_requests("C", &rq_c);
    ctx.bound("cubeC_rules", rules_c.len());
    ctx.bound("cubeC_requests_per_rule", rq_c.len());
    ctx.par_range("cubeC:match-case", rules_c.len() as u64, 4, |i, l| {
        let rule = &rules_c[i as usize];
        if (i + ctx.seed) % 97 == 5 {
            l.samples.push(json!({"universe": "C", "rule": rule, "requests": rq_c.len()}));
        }
        check_rule(rule, &rq_c, l);
    });

    // ---- cube D ------------------------------------------------------------------------------
    let rules_d = rules_d();
    ctx.bound("cubeD_rules", rules_d.len());
    ctx.bound("cubeD_requests_per_rule", rq_a.len());
    ctx.par_range("cubeD:spellings-and-order", rules_d.len() as u64, 8, |i, l| {
        check_rule(&rules_d[i as usize], &rq_a, l);
    });

    // ---- cube F: shapes next to `||host^` (implicit document applies to that shape only) ------
    let rules_f = rules_f();
    let rq_f = requests_f(&mut counters);
    ctx.bound("cubeF_rules", rules_f.len());
    ctx.bound("cubeF_requests_per_rule", rq_f.len());
    ctx.par_range("cubeF:implicit-document-shapes", rules_f.len() as u64, 4, |i, l| {
        check_rule(&rules_f[i as usize], &rq_f, l);
    });

    // ---- cube G: the eleven one-type rules are mutually exclusive -----------------------------
    // Whatever resource type a request has (also for type strings the option vocabulary cannot
    // name, such as csp_report, which the cubes above leave Unspecified), it has at most one: of the
    // rules `p$image`, `p$script`, ... at most one can apply to it; with `$document` added, at
    // most two (never for a non-document request more than one).
    let mut rq_g: Vec<Rq> = vec![];
    for ty in TYPE_STRINGS {
        for (url, src) in [("https://example.com/ads", "https://other.net/page"), ("https://example.com/ads", "https://example.com/"), ("http://example.com/ads", "")] {
            if let Some(r) = make_rq(url, src, ty) {
                rq_g.push(r);
            }
        }
    }
    ctx.bound("cubeG_requests", rq_g.len());
    ctx.par_range("cubeG:one-type-rules-are-exclusive", (rq_g.len() * 2 * 2) as u64, 1, |i, l| {
        let r = &rq_g[i as usize % rq_g.len()];
        let form = ["ads", "||example.com^"][(i as usize / rq_g.len()) % 2];
        let engine_level = i as usize / rq_g.len() / 2 == 1;
        check_exclusive(r, form, engine_level, l);
    });

    // ---- cube E: long initiator-domain lists ---------------------------------------------------
    // every subset of size 3..=8 of a 10-domain pool, once as an all-positive and once as an
    // all-negated list (the union pre-filter of check_options only starts to matter with several
    // entries), against the listed domains themselves, three sub-domains of each, unrelated
    // initiators and an absent one
    let pool_e = ["e0.com", "e1.net", "e2.com", "e3.net", "e4.com", "e5.net", "e6.com", "e7.net", "e8.com", "e9.net"];
    let mut rules_e: Vec<String> = vec![];
    for m in 0u32..(1 << pool_e.len()) {
        let k = m.count_ones();
        if !(3..=8).contains(&k) {
            continue;
        }
        let doms: Vec<&str> = pool_e.iter().enumerate().filter(|(i, _)| m & (1 << i) != 0).map(|(_, d)| *d).collect();
        rules_e.push(format!("ads$domain={}", doms.join("|")));
        rules_e.push(format!("ads$domain=~{}", doms.join("|~")));
    }
    let mut rq_e: Vec<Rq> = vec![];
    {
        let mut inits: Vec<String> = vec![String::new(), "https://unrelated.com/".into(), "https://zz.unrelated.net/p".into()];
        for d in pool_e {
            for sub in ["", "m.", "shop.", "a.b."] {
                inits.push(format!("https://{}{}/page", sub, d));
            }
        }
        for i in &inits {
            if let Some(r) = make_rq("https://site.com/ads", i, "script") {
                rq_e.push(r);
            }
        }
    }
    ctx.bound("cubeE_rules", rules_e.len());
    ctx.bound("cubeE_requests_per_rule", rq_e.len());
    ctx.par_range("cubeE:long-domain-lists", rules_e.len() as u64, 8, |i, l| {
        check_rule(&rules_e[i as usize], &rq_e, l);
    });

    {
        let mut l = Local::default();
        for (k, v) in counters {
            l.count(&k, v);
        }
        ctx.merge(l);
    }

    ctx.finish(
        "model_checking",
        "A: 6 pattern forms x every purely positive and purely negated list over the 11 type atoms (quick: 2048 positive + 63 negated over 6 atoms) x with/without document x 7 party spellings x exception x important (thorough: options also in reversed order), each against 25 type strings x 6 schemes x {third-party, first-party, absent} initiators (scheme-pinned forms additionally against a URL carrying http/https/ws as path tokens, 6 type strings); B: 79 ordered domain lists over {a.com, sub.a.com, b.com} x domain=/from= x party x 4 (thorough 10) type lists x {ads, *} x exception, against 6 initiators x first-/third-party host x 4 schemes x 4 types; C: full-regex literal rules x match-case x option, against URL case variants, plus match-case on non-regex rules; D: 18 option spellings singly and in pairs, all option orders of 4 option sets; F: 12 pattern shapes next to `||host^` (right pipe, path, missing caret, left pipe, unanchored) and the two `||host^` rules themselves x 12 option sets x exception, against document / main_frame / 4 other types x 7 URLs x 4 initiators (only `||host^` without a type option applies to documents); G: for every request type string (also those no option can name), of the eleven one-type rules at most one applies; E: every subset of 3..8 of a 10-domain pool as an all-positive and as an all-negated domain= list, against each listed domain, three sub-domains of each, unrelated and absent initiators. Every rule is evaluated with NetworkFilter::matches and on a single-rule engine. A case is non-trivial when the reference or the implementation says the rule applies; states = rules parsed + engines built, transitions = (rule, request, observation point) executions, traces_validated = executions compared with the reference.",
        &[
            "Unspecified (executed, not compared): mixed positive+negated type lists; party option with an absent initiator; request type strings csp_report and unknown ('fetch'); unsupported schemes at matcher level (asserted at the engine only)",
            "exception rules are observed on single-rule engines through check_network_request_subset(req, true, true), blocking rules through check_network_request",
            "hosts are under .com/.net, so the registrable domain is the last two labels (oracle side)",
            "seahash collision-freedom checked for the domain and token strings used",
        ],
    )
}

fn main() {
    run_main("C03", check, replay)
}
