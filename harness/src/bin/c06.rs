//! C06 — answers depend only on current rules, tags and resources, not on history.
//! HX: every operation history of depth d (all shorter ones are its prefixes) over an alphabet of
//! queries, tag operations, environment choices (regex discard policy = "the cleanup timer fired",
//! explicit discards), optimise, add_filter, serialize/deserialize — each executed on a fresh real
//! subject; every query answer is compared with the answer of a freshly built engine for the model
//! state (rules, tags, resources), precomputed before the exploration starts.
//! Address determinism: strict-LIFO global allocator (DESIGN §3). DESIGN §4 C06.

use adblock::blocker::{Blocker, BlockerOptions};
use adblock::cosmetic_filter_cache::UrlSpecificResources;
use adblock::filters::network::NetworkFilter;
use adblock::lists::{parse_filter, ParsedFilter};
use adblock::regex_manager::RegexManagerDiscardPolicy;
use adblock::request::Request;
use adblock::resources::{MimeType, Resource, ResourceStorage, ResourceType};
use adblock::Engine;
use serde_json::{json, Value};
use std::collections::{BTreeSet, HashMap};
use std::time::Duration;
use vh::net::{csp_set, Verdict};
use vh::util::catch;
use vh::{run_main, Ctx, Local, Mismatch};

#[global_allocator]
static ALLOC: vh::alloc::Lifo = vh::alloc::Lifo;

#[derive(Clone, Debug, PartialEq, Eq)]
enum Ans {
    Net(Verdict),
    Csp(Option<BTreeSet<String>>),
    Cos(BTreeSet<String>, BTreeSet<String>, BTreeSet<String>, Vec<String>, bool),
    Sel(Vec<String>),
}

impl Ans {
    /// coarse class of an answer, for the outcome histogram (vacuity guard: many different answers
    /// must be observed, otherwise nothing in the histories interacted)
    fn class(&self) -> String {
        match self {
            Ans::Net(v) => v.short(),
            Ans::Csp(c) => format!("csp{}", c.as_ref().map(|s| s.len()).unwrap_or(0)),
            Ans::Cos(h, p, e, b, g) => format!("cos:h{}p{}e{}s{}{}", h.len(), p.len(), e.len(), b.len(), if *g { "G" } else { "" }),
            Ans::Sel(v) => format!("sel{}", v.len()),
        }
    }
}

fn cos(r: UrlSpecificResources) -> Ans {
    let mut blocks: Vec<String> = r.injected_script.split("try {\n").map(|s| s.to_string()).collect();
    // the prelude holds one line per function the scriptlets need, in no particular order (every
    // function of this check's resources is a single line)
    if let Some(first) = blocks.first_mut() {
        let mut lines: Vec<&str> = first.lines().collect();
        lines.sort();
        *first = lines.join("\n");
    }
    blocks.sort();
    Ans::Cos(
        r.hide_selectors.into_iter().collect(),
        r.procedural_actions.into_iter().collect(),
        r.exceptions.into_iter().collect(),
        blocks,
        r.generichide,
    )
}

fn never() -> RegexManagerDiscardPolicy {
    RegexManagerDiscardPolicy { cleanup_interval: Duration::ZERO, discard_unused_time: Duration::from_secs(3600) }
}
fn always() -> RegexManagerDiscardPolicy {
    RegexManagerDiscardPolicy { cleanup_interval: Duration::from_nanos(1), discard_unused_time: Duration::ZERO }
}

fn resources() -> Vec<Resource> {
    let mut v = vh::net::std_resources();
    v.push(vh::net::resource("s1.js", &["s1"], ResourceType::Mime(MimeType::ApplicationJavascript), "function s1(a){ return a }", &[], 0));
    v.push(vh::net::resource("s2.js", &[], ResourceType::Template, "s2({{1}})", &[], 0));
    v
}

// =============================== scenario 1: Engine, tags + regex cache ========================

const S1_RULES: &[&str] = &[
    "foo*bar$tag=a",
    "baz^qux$tag=b",
    "/ad[0-9]+/$tag=a",
    "foo*baz",
    "/x[0-9]y/",
    "/Xu[0-9]Y/",
    "/CaSe[0-9]/$match-case",
    // the same regex text without match-case, reachable by image requests only: whichever of the two
    // is compiled first, each keeps its own case handling
    "/CaSe[0-9]/$image",
    // a tagged full-regex rule that does not compile (look-ahead): it never matches, whatever is
    // remembered about the attempt must go when the rule goes
    "/fo(?!x)o/$tag=b",
    "@@foo*bar/ok^",
    "||imp.com^*z$important",
    "||x.com^$csp=d1,tag=a",
    "||x.com^$csp=d2",
    "x.com##.ad",
    "x.com##+js(s1, v)",
    "##.generic",
];

#[derive(Clone, Copy, Debug, PartialEq)]
enum Op1 {
    Check(usize),
    Csp,
    Cosmetic,
    Use(u8), // bitmask over {a,b}
    EnableA,
    DisableA,
    AlwaysDiscard,
    NeverDiscard,
    DiscardAll,
    SerDeSame,
    SerDeFresh,
    /// keep the current serialisation in a slot (taken under the tags enabled at that moment)
    Save,
    /// load the slot (if it holds anything) into the engine as it is now: its current tags stay
    Load,
    /// a rejected load (garbage bytes): must fail and leave everything as it was
    LoadBad,
    /// a rejected load of the first half of the slot (if it holds anything)
    LoadCut,
    /// discard policy with a cleanup interval of 10 ms and a discard-unused time of 15 ms (histories
    /// that contain this or one of the next two operations run on the hooks' virtual clock, which
    /// only moves when the history says so)
    Timed,
    Adv6,
    Adv12,
    /// the cleanup interval of `Timed` with "never discard" spelled as the largest duration
    TimedNever,
    // ---- the secondary entry points (explored in a sub-alphabet of their own) ----
    /// tag_exists for an enabled-or-not tag, the other tag and an unknown one
    TagExists,
    /// check_network_request_subset(url, previously matched, force exceptions)
    Subset(usize, bool, bool),
    Hidden,
    /// use_resources with the resources the engine already has
    ReloadRes,
}

const S1_URLS: &[(&str, &str)] = &[
    ("https://x.com/foo1bar", "script"),
    ("https://x.com/baz/qux", "script"),
    ("https://x.com/ad12", "script"),
    ("https://imp.com/az", "image"),
    ("https://x.com/xu1y", "script"),
    ("https://x.com/CaSe1", "script"),
    ("https://x.com/case1", "image"),
];

fn s1_ops() -> Vec<Op1> {
    vec![
        Op1::Check(0), Op1::Check(1), Op1::Check(2), Op1::Check(3), Op1::Check(4), Op1::Check(5), Op1::Check(6), Op1::Csp, Op1::Cosmetic,
        Op1::Use(0), Op1::Use(1), Op1::Use(2), Op1::Use(3), Op1::EnableA, Op1::DisableA,
        Op1::AlwaysDiscard, Op1::NeverDiscard, Op1::DiscardAll, Op1::SerDeSame, Op1::SerDeFresh, Op1::Save, Op1::Load,
        Op1::LoadBad, Op1::LoadCut, Op1::Timed, Op1::Adv6, Op1::Adv12,
        Op1::TimedNever,
        Op1::TagExists, Op1::Subset(0, true, false), Op1::Subset(0, false, true), Op1::Subset(3, true, false), Op1::Hidden, Op1::ReloadRes,
    ]
}
/// the operations of the "all operations" sweep (the secondary entry points come after them)
const S1_PRIMARY_OPS: usize = 27; // (`TimedNever` and the secondary entry points follow)

fn is_query1(o: &Op1) -> bool {
    matches!(o, Op1::Check(_) | Op1::Csp | Op1::Cosmetic | Op1::TagExists | Op1::Subset(..) | Op1::Hidden)
}

fn tags_of(mask: u8) -> Vec<&'static str> {
    let mut v = vec![];
    if mask & 1 != 0 {
        v.push("a");
    }
    if mask & 2 != 0 {
        v.push("b");
    }
    v
}

fn s1_engine() -> Engine {
    let mut e = Engine::from_rules_parametrised(S1_RULES, Default::default(), true, false);
    e.set_regex_discard_policy(never());
    e.use_resources(resources());
    e
}

fn s1_query(e: &Engine, o: &Op1) -> Ans {
    match o {
        Op1::Check(i) => {
            let (u, t) = S1_URLS[*i];
            Ans::Net(Verdict::of(&e.check_network_request(&Request::new(u, "https://y.com/", t).unwrap())))
        }
        Op1::Csp => Ans::Csp(csp_set(&e.get_csp_directives(&Request::new("https://x.com/", "https://x.com/", "document").unwrap()))),
        Op1::Cosmetic => cos(e.url_cosmetic_resources("https://x.com/")),
        Op1::TagExists => Ans::Sel(vec![format!("a:{} b:{} zz:{}", e.tag_exists("a"), e.tag_exists("b"), e.tag_exists("zz"))]),
        Op1::Subset(i, p, f) => {
            let (u, t) = S1_URLS[*i];
            Ans::Net(Verdict::of(&e.check_network_request_subset(&Request::new(u, "https://y.com/", t).unwrap(), *p, *f)))
        }
        Op1::Hidden => {
            let mut v = e.hidden_class_id_selectors(["generic", "ad", "nope"], ["x"], &Default::default());
            v.sort();
            Ans::Sel(v)
        }
        _ => unreachable!(),
    }
}

struct S1 {
    ops: Vec<Op1>,
    /// expected[tag mask][op index] for query ops
    expected: Vec<Vec<Option<Ans>>>,
}

fn s1_prepare() -> S1 {
    let ops = s1_ops();
    let mut expected = vec![];
    for mask in 0..4u8 {
        let mut e = s1_engine();
        e.use_tags(&tags_of(mask));
        expected.push(ops.iter().map(|o| if is_query1(o) { Some(s1_query(&e, o)) } else { None }).collect());
    }
    S1 { ops, expected }
}

fn s1_run(s: &S1, seq: &[usize], l: &mut Local) -> Option<(usize, String, String)> {
    let timed = seq.iter().any(|&oi| matches!(s.ops[oi], Op1::Timed | Op1::TimedNever | Op1::Adv6 | Op1::Adv12));
    adblock::verif_hooks::set_thread_virtual_clock(timed);
    let r = s1_run_inner(s, seq, l);
    adblock::verif_hooks::set_thread_virtual_clock(false);
    r
}

fn s1_run_inner(s: &S1, seq: &[usize], l: &mut Local) -> Option<(usize, String, String)> {
    let mut e = s1_engine();
    let mut mask = 0u8;
    let mut slot: Option<Vec<u8>> = None;
    for (step, &oi) in seq.iter().enumerate() {
        let o = s.ops[oi];
        l.transitions += 1;
        if is_query1(&o) {
            let got = catch(|| s1_query(&e, &o));
            let exp = s.expected[mask as usize][oi].as_ref().unwrap();
            l.compared += 1;
            l.hist(&format!("s1:tags{}:{:?}:{}", mask, o, exp.class()));
            match got {
                Ok(g) if &g == exp => {}
                Ok(g) => return Some((step, format!("{:?}", exp), format!("{:?}", g))),
                Err(loc) => return Some((step, format!("{:?}", exp), format!("panic@{}", loc))),
            }
            continue;
        }
        let r = catch(|| match o {
            Op1::Use(m) => {
                e.use_tags(&tags_of(m));
            }
            Op1::EnableA => e.enable_tags(&["a"]),
            Op1::DisableA => e.disable_tags(&["a"]),
            Op1::AlwaysDiscard => e.set_regex_discard_policy(always()),
            Op1::NeverDiscard => e.set_regex_discard_policy(never()),
            Op1::DiscardAll => {
                let ids: Vec<u64> = e.get_regex_debug_info().regex_data.iter().map(|d| d.id).collect();
                for id in ids {
                    e.discard_regex(id);
                }
            }
            Op1::SerDeSame => {
                let b = e.serialize_raw().unwrap();
                e.deserialize(&b).unwrap();
            }
            Op1::Save => slot = Some(e.serialize_raw().unwrap()),
            Op1::Load => {
                if let Some(b) = &slot {
                    e.deserialize(b).unwrap();
                }
            }
            Op1::LoadBad => {
                if e.deserialize(b"\x00not a serialized engine").is_ok() {
                    panic!("garbage accepted by deserialize");
                }
            }
            Op1::LoadCut => {
                if let Some(b) = &slot {
                    if e.deserialize(&b[..b.len() / 2]).is_ok() {
                        panic!("truncated data accepted by deserialize");
                    }
                }
            }
            Op1::Timed => e.set_regex_discard_policy(RegexManagerDiscardPolicy { cleanup_interval: Duration::from_millis(10), discard_unused_time: Duration::from_millis(15) }),
            Op1::TimedNever => e.set_regex_discard_policy(RegexManagerDiscardPolicy { cleanup_interval: Duration::from_millis(10), discard_unused_time: Duration::MAX }),
            Op1::Adv6 => adblock::verif_hooks::advance_thread_clock(Duration::from_millis(6)),
            Op1::Adv12 => adblock::verif_hooks::advance_thread_clock(Duration::from_millis(12)),
            Op1::ReloadRes => e.use_resources(resources()),
            Op1::SerDeFresh => {
                let b = e.serialize_raw().unwrap();
                let mut f = Engine::new(false);
                f.set_regex_discard_policy(never());
                f.use_resources(resources());
                f.use_tags(&tags_of(mask));
                f.deserialize(&b).unwrap();
                e = f;
            }
            _ => unreachable!(),
        });
        if let Err(loc) = r {
            return Some((step, "no panic".into(), format!("panic@{}", loc)));
        }
        match o {
            Op1::Use(m) => mask = m,
            Op1::EnableA => mask |= 1,
            Op1::DisableA => mask &= !1,
            _ => {}
        }
    }
    None
}

// =============================== scenario 2: Blocker, add_filter + optimize ====================

// (the two `/adv/track*...` rules are fusable regex rules that share a bucket: optimize() fuses
// them *after* queries may already have compiled the regex of one of them)
// (the two `/adv/trk*` rules share a bucket too but differ in their request type: they are never
// fused, an optimize() pass moves them all the same)
const S2_INITIAL: &[&str] = &["||b1.com^", "@@||b1.com^$script", "/adv/track*pixel", "/adv/track*beacon", "/adv/trk*aa$script", "/adv/trk*bb$image"];
const S2_ADD: &[&str] = &[
    "||b2.com^$important",
    "||r.com^$redirect=a",
    "||rr.com^$redirect-rule=a",
    "||p.com^$removeparam=q",
    "||pi.com^$removeparam=q,important",
    "||c.com^$csp=d1",
    "foo*bar$tag=a",
    "||b1.com^$image",
    "foo*baz$tag=a",
    // lands in the bucket of the two initial `/adv/track*` rules (already fused in scenario 4):
    // optimize() after this add fuses a fused rule again
    "/adv/track*frame",
    // no pattern token, two initiator domains: filed once per domain
    "*$script,domain=d1.com|d2.com",
    // a redirect that is also an exception / an important rule: two categories at once
    "@@||r.com^$redirect=a",
    "||rr.com/x$important,redirect=a",
    // a redirect with a tag (the source calls the combination unsupported: whatever it does, it does
    // the same however the rule reached the blocker)
    "||tr.com^$redirect=a,tag=a",
];
const S2_URLS: &[(&str, &str)] = &[
    ("https://b1.com/x", "script"),
    ("https://b1.com/x", "image"),
    ("https://b2.com/x", "script"),
    ("https://r.com/x", "script"),
    ("https://rr.com/x", "script"),
    ("https://p.com/x?q=1", "xhr"),
    ("https://pi.com/x?q=1", "xhr"),
    ("https://z.com/foo1bar", "script"),
    ("https://z.com/foo1baz", "script"),
    ("https://z.com/adv/track1pixel", "script"),
    ("https://z.com/adv/track1beacon", "script"),
    ("https://z.com/adv/track1frame", "script"),
    // a pattern-less rule with two initiator domains is reachable from both
    ("https://lib.test/x.js?from=d1.com", "script"),
    ("https://lib.test/x.js?from=d2.com", "script"),
    ("https://tr.com/x", "script"),
    ("https://z.com/adv/trk1aa", "script"),
    ("https://z.com/adv/trk1bb", "image"),
];

#[derive(Clone, Copy, Debug, PartialEq)]
enum Op2 {
    Check(usize),
    Csp,
    Add(usize),
    Optimize,
    Use(bool),
    AlwaysDiscard,
    /// the incremental forms of a tag switch
    Enable,
    Disable,
}

fn s2_ops() -> Vec<Op2> {
    let mut v: Vec<Op2> = (0..S2_URLS.len()).map(Op2::Check).collect();
    v.push(Op2::Csp);
    v.extend((0..S2_ADD.len()).map(Op2::Add));
    v.extend([Op2::Optimize, Op2::Use(true), Op2::Use(false), Op2::AlwaysDiscard, Op2::Enable, Op2::Disable]);
    v
}

fn is_query2(o: &Op2) -> bool {
    matches!(o, Op2::Check(_) | Op2::Csp)
}

fn nf(rule: &str) -> NetworkFilter {
    match parse_filter(rule, true, Default::default()) {
        Ok(ParsedFilter::Network(f)) => f,
        _ => panic!("pool rule must parse: {}", rule),
    }
}

fn s2_blocker(rules: &[&str], optimize: bool) -> Blocker {
    let b = Blocker::new(rules.iter().map(|r| nf(r)).collect(), &BlockerOptions { enable_optimizations: optimize });
    b.set_regex_discard_policy(never());
    b
}

fn s2_query(b: &Blocker, res: &ResourceStorage, o: &Op2) -> Ans {
    match o {
        Op2::Check(i) => {
            let (u, t) = S2_URLS[*i];
            // (URLs on lib.test are asked from the initiator named in their query string)
            let src = match u.split_once("?from=") {
                Some((_, d)) => format!("https://{}/", d),
                None => "https://y.com/".to_string(),
            };
            Ans::Net(Verdict::of(&b.check(&Request::new(u, &src, t).unwrap(), res)))
        }
        Op2::Csp => Ans::Csp(csp_set(&b.get_csp_directives(&Request::new("https://c.com/", "https://c.com/", "document").unwrap()))),
        _ => unreachable!(),
    }
}

struct S2 {
    /// built with `enable_optimizations` (tag rebuilds then fuse rules) or without
    optimize: bool,
    ops: Vec<Op2>,
    /// key = (added rules in order as bytes, tag) -> expected answers per op index
    expected: HashMap<(Vec<u8>, bool), Vec<Option<Ans>>>,
}

fn s2_prepare(depth: usize, optimize: bool) -> S2 {
    let ops = s2_ops();
    let mut expected = HashMap::new();
    // every ordered arrangement of <= depth added rules
    fn rec(cur: &mut Vec<u8>, depth: usize, out: &mut Vec<Vec<u8>>) {
        out.push(cur.clone());
        if cur.len() == depth {
            return;
        }
        for i in 0..S2_ADD.len() as u8 {
            if !cur.contains(&i) {
                cur.push(i);
                rec(cur, depth, out);
                cur.pop();
            }
        }
    }
    let mut states = vec![];
    rec(&mut vec![], depth.min(S2_ADD.len()), &mut states);
    // (the reference answers of the model states are independent of each other: computed on all
    // cores, each state on a fresh blocker of its own)
    let threads = 16usize;
    let parts: Vec<Vec<((Vec<u8>, bool), Vec<Option<Ans>>)>> = std::thread::scope(|sc| {
        let hs: Vec<_> = (0..threads)
            .map(|t| {
                let (states, ops) = (&states, &ops);
                sc.spawn(move || {
                    let res = ResourceStorage::from_resources(resources());
                    let mut out = vec![];
                    for st in states.iter().skip(t).step_by(threads) {
                        let mut rules: Vec<&str> = S2_INITIAL.to_vec();
                        rules.extend(st.iter().map(|&i| S2_ADD[i as usize]));
                        for tag in [false, true] {
                            let mut b = s2_blocker(&rules, optimize);
                            if tag {
                                b.use_tags(&["a"]);
                            }
                            let v: Vec<Option<Ans>> = ops.iter().map(|o| if is_query2(o) { Some(s2_query(&b, &res, o)) } else { None }).collect();
                            out.push(((st.clone(), tag), v));
                        }
                    }
                    out
                })
            })
            .collect();
        hs.into_iter().map(|h| h.join().unwrap()).collect()
    });
    for part in parts {
        for (k, v) in part {
            expected.insert(k, v);
        }
    }
    S2 { optimize, ops, expected }
}

fn s2_run(s: &S2, res: &ResourceStorage, seq: &[usize], l: &mut Local) -> Option<(usize, String, String)> {
    let mut b = s2_blocker(S2_INITIAL, s.optimize);
    let mut key: (Vec<u8>, bool) = (Vec::with_capacity(8), false);
    for (step, &oi) in seq.iter().enumerate() {
        let o = s.ops[oi];
        l.transitions += 1;
        if is_query2(&o) {
            let got = catch(|| s2_query(&b, res, &o));
            let exp = s.expected.get(&key).and_then(|v| v[oi].as_ref()).expect("state precomputed");
            l.compared += 1;
            l.hist(&format!("s{}:{:?}:{}", if s.optimize { 4 } else { 2 }, o, exp.class()));
            match got {
                Ok(g) if &g == exp => {}
                Ok(g) => return Some((step, format!("{:?}", exp), format!("{:?}", g))),
                Err(loc) => return Some((step, format!("{:?}", exp), format!("panic@{}", loc))),
            }
            continue;
        }
        let r = catch(|| match o {
            Op2::Add(i) => {
                let _ = b.add_filter(nf(S2_ADD[i]));
            }
            Op2::Optimize => b.optimize(),
            Op2::Use(t) => {
                if t {
                    b.use_tags(&["a"])
                } else {
                    b.use_tags(&[])
                }
            }
            Op2::AlwaysDiscard => b.set_regex_discard_policy(always()),
            Op2::Enable => b.enable_tags(&["a"]),
            Op2::Disable => b.disable_tags(&["a"]),
            _ => unreachable!(),
        });
        if let Err(loc) = r {
            return Some((step, "no panic".into(), format!("panic@{}", loc)));
        }
        match o {
            Op2::Add(i) => {
                if !key.0.contains(&(i as u8)) {
                    key.0.push(i as u8);
                }
            }
            Op2::Use(t) => key.1 = t,
            Op2::Enable => key.1 = true,
            Op2::Disable => key.1 = false,
            _ => {}
        }
    }
    None
}

// =============================== scenario 3: cosmetic + scriptlets =============================

const S3_RULES: &[&str] = &[
    "x.com##.ad",
    "x.com#@#.generic2",
    "##.generic",
    "##.generic2",
    "##div[data-ad]",
    "x.com##+js(s1, arg)",
    "sub.x.com#@#+js(s1, arg)",
    "x.com##.p:style(color:red)",
    "x.com##.q:has-text(ad)",
    "@@||gh.com^$generichide",
    "gh.com##.own",
    // resources that only the history can add (see `AddRejected` / `AddS9` / `AddNamed`)
    "other.org##+js(s9alias)",
    "other.org##+js(s9)",
];

/// A second rule list for scenario 3: `LoadOther` swaps the engine between the two lists by
/// loading the serialisation of the other one (every cosmetic answer changes).
const S3_RULES_B: &[&str] = &["x.com##.other", "##.generic2", "##.generic3 > a", "x.com##+js(s2, w)", "@@||x.com^$generichide", "gh.com##.own2", "sub.x.com#@#.other", "other.org##+js(s9alias)"];

#[derive(Clone, Copy, Debug, PartialEq)]
enum Op3 {
    Cos(usize),
    Hidden,
    LoadOther,
    SerDeSame,
    SerDeFresh,
    ReloadResources,
    AddDupResource,
    AlwaysDiscard,
    UseTagsX,
    /// `add_resource` of `s9.js` with the aliases [`s9alias.js`, `s1.js`]: refused (the second
    /// alias is taken), and must leave nothing behind
    AddRejected,
    /// `add_resource` of `s9.js` without aliases: accepted unless it is loaded already
    AddS9,
    /// `add_resource` of a resource *named* `s9alias.js`: accepted unless it is loaded already
    AddNamed,
}

const S3_URLS: &[&str] = &["https://x.com/", "https://sub.x.com/", "https://gh.com/", "https://other.org/"];

fn s3_ops() -> Vec<Op3> {
    vec![Op3::Cos(0), Op3::Cos(1), Op3::Cos(2), Op3::Cos(3), Op3::Hidden, Op3::LoadOther, Op3::SerDeSame, Op3::SerDeFresh, Op3::ReloadResources, Op3::AddDupResource, Op3::AlwaysDiscard, Op3::UseTagsX, Op3::AddRejected, Op3::AddS9, Op3::AddNamed]
}
fn s9(aliases: &[&str]) -> Resource {
    vh::net::resource("s9.js", aliases, ResourceType::Mime(MimeType::ApplicationJavascript), "function s9(){ return 9 }", &[], 0)
}
fn s9named() -> Resource {
    vh::net::resource("s9alias.js", &[], ResourceType::Mime(MimeType::ApplicationJavascript), "function named(){ return 1 }", &[], 0)
}
/// the resources the model says are loaded: the standard ones plus the accepted extras (bit 0:
/// `s9.js`, bit 1: `s9alias.js`)
fn s3_resources(extra: usize) -> Vec<Resource> {
    let mut v = resources();
    if extra & 1 != 0 {
        v.push(s9(&[]));
    }
    if extra & 2 != 0 {
        v.push(s9named());
    }
    v
}
fn is_query3(o: &Op3) -> bool {
    matches!(o, Op3::Cos(_) | Op3::Hidden)
}
fn s3_engine_of(which: usize) -> Engine {
    s3_engine_with(which, 0)
}
fn s3_engine_with(which: usize, extra: usize) -> Engine {
    let mut e = Engine::from_rules_parametrised(if which == 0 { S3_RULES } else { S3_RULES_B }, Default::default(), true, true);
    e.set_regex_discard_policy(never());
    e.use_resources(s3_resources(extra));
    e
}
fn s3_engine() -> Engine {
    s3_engine_of(0)
}
fn s3_query(e: &Engine, o: &Op3) -> Ans {
    match o {
        Op3::Cos(i) => cos(e.url_cosmetic_resources(S3_URLS[*i])),
        Op3::Hidden => {
            let exc: std::collections::HashSet<String> = [".generic2".to_string()].into_iter().collect();
            let mut v = e.hidden_class_id_selectors(["generic", "generic2", "nope"], ["x"], &exc);
            v.sort();
            Ans::Sel(v)
        }
        _ => unreachable!(),
    }
}
struct S3 {
    ops: Vec<Op3>,
    /// expected[which rule list is loaded + 2 * accepted extra resources][op index]
    expected: Vec<Vec<Option<Ans>>>,
    /// serialisations of fresh engines of the two rule lists
    buffers: [Vec<u8>; 2],
}
fn s3_prepare() -> S3 {
    let ops = s3_ops();
    let exp = |which: usize, extra: usize| -> Vec<Option<Ans>> {
        let e = s3_engine_with(which, extra);
        ops.iter().map(|o| if is_query3(o) { Some(s3_query(&e, o)) } else { None }).collect()
    };
    let expected: Vec<_> = (0..8).map(|k| exp(k % 2, k / 2)).collect();
    let buffers = [s3_engine_of(0).serialize_raw().unwrap(), s3_engine_of(1).serialize_raw().unwrap()];
    S3 { ops, expected, buffers }
}
fn s3_run(s: &S3, seq: &[usize], l: &mut Local) -> Option<(usize, String, String)> {
    let mut e = s3_engine();
    let mut which = 0usize;
    let mut extra = 0usize;
    for (step, &oi) in seq.iter().enumerate() {
        let o = s.ops[oi];
        l.transitions += 1;
        if is_query3(&o) {
            let got = catch(|| s3_query(&e, &o));
            let exp = s.expected[which + 2 * extra][oi].as_ref().unwrap();
            l.compared += 1;
            l.hist(&format!("s3:{:?}:{}", o, exp.class()));
            match got {
                Ok(g) if &g == exp => {}
                Ok(g) => return Some((step, format!("{:?}", exp), format!("{:?}", g))),
                Err(loc) => return Some((step, format!("{:?}", exp), format!("panic@{}", loc))),
            }
            continue;
        }
        if o == Op3::LoadOther {
            which = 1 - which;
        }
        // the additions answer too: accepted exactly when the model says the names are free
        if matches!(o, Op3::AddRejected | Op3::AddS9 | Op3::AddNamed) {
            let (res, want_ok) = match o {
                Op3::AddRejected => (s9(&["s9alias.js", "s1.js"]), false),
                Op3::AddS9 => (s9(&[]), extra & 1 == 0),
                _ => (s9named(), extra & 2 == 0),
            };
            let got = catch(|| e.add_resource(res).is_ok());
            l.compared += 1;
            match got {
                Ok(g) if g == want_ok => {}
                Ok(g) => return Some((step, format!("add_resource accepted: {}", want_ok), format!("add_resource accepted: {}", g))),
                Err(loc) => return Some((step, "no panic".into(), format!("panic@{}", loc))),
            }
            match o {
                Op3::AddS9 => extra |= 1,
                Op3::AddNamed => extra |= 2,
                _ => {}
            }
            continue;
        }
        if matches!(o, Op3::SerDeFresh | Op3::ReloadResources) {
            extra = 0;
        }
        let r = catch(|| match o {
            Op3::LoadOther => e.deserialize(&s.buffers[which]).unwrap(),
            Op3::SerDeSame => {
                let b = e.serialize_raw().unwrap();
                e.deserialize(&b).unwrap();
            }
            Op3::SerDeFresh => {
                let b = e.serialize_raw().unwrap();
                let mut f = Engine::new(true);
                f.set_regex_discard_policy(never());
                f.use_resources(resources());
                f.deserialize(&b).unwrap();
                e = f;
            }
            Op3::ReloadResources => e.use_resources(resources()),
            Op3::AddDupResource => {
                let _ = e.add_resource(resources().remove(0));
            }
            Op3::AlwaysDiscard => e.set_regex_discard_policy(always()),
            Op3::UseTagsX => e.use_tags(&["x"]),
            _ => unreachable!(),
        });
        if let Err(loc) = r {
            return Some((step, "no panic".into(), format!("panic@{}", loc)));
        }
    }
    None
}

// =============================== driver =======================================================

fn op_names(scn: usize, seq: &[usize]) -> Vec<String> {
    match scn {
        1 => { let o = s1_ops(); seq.iter().map(|&i| format!("{:?}", o[i])).collect() }
        2 | 4 => {
            let o = s2_ops();
            seq.iter().map(|&i| match o[i] { Op2::Add(k) => format!("Add({})", S2_ADD[k]), Op2::Check(k) => format!("Check({} as {})", S2_URLS[k].0, S2_URLS[k].1), x => format!("{:?}", x) }).collect()
        }
        _ => { let o = s3_ops(); seq.iter().map(|&i| format!("{:?}", o[i])).collect() }
    }
}

struct Prepared {
    s1: S1,
    s2: S2,
    s3: S3,
    /// scenario 4 = scenario 2 on a blocker built with optimisations enabled
    s4: S2,
}

fn run_one(p: &Prepared, res: &ResourceStorage, scn: usize, seq: &[usize], l: &mut Local) -> Option<(usize, String, String)> {
    l.evaluations += 1;
    match scn {
        1 => s1_run(&p.s1, seq, l),
        2 => s2_run(&p.s2, res, seq, l),
        4 => s2_run(&p.s4, res, seq, l),
        _ => s3_run(&p.s3, seq, l),
    }
}

/// Greedy shrink: drop operations while the last operation (the failing query) still fails.
fn shrink(p: &Prepared, res: &ResourceStorage, scn: usize, seq: &[usize]) -> Vec<usize> {
    let mut cur = seq.to_vec();
    let mut scratch = Local::default();
    loop {
        let mut changed = false;
        let mut i = 0;
        while i + 1 < cur.len() {
            let mut cand = cur.clone();
            cand.remove(i);
            match run_one(p, res, scn, &cand, &mut scratch) {
                Some((step, _, _)) if step == cand.len() - 1 => {
                    cur = cand;
                    changed = true;
                }
                _ => i += 1,
            }
        }
        if !changed {
            return cur;
        }
    }
}

fn kinds(scn: usize, seq: &[usize]) -> Vec<String> {
    match scn {
        1 => { let o = s1_ops(); seq.iter().map(|&i| match o[i] { Op1::Check(_) => "check".into(), Op1::Use(_) => "use".into(), x => format!("{:?}", x).to_lowercase() }).collect() }
        2 | 4 => { let o = s2_ops(); seq.iter().map(|&i| match o[i] {
            Op2::Check(_) => "check".into(),
            Op2::Add(k) => format!("add[{}]", S2_ADD[k].rsplit_once('$').map(|x| x.1.split(',').map(|o| o.split('=').next().unwrap_or("")).collect::<Vec<_>>().join("+")).unwrap_or_else(|| "plain".into())),
            Op2::Use(_) => "use".into(),
            x => format!("{:?}", x).to_lowercase() }).collect() }
        _ => { let o = s3_ops(); seq.iter().map(|&i| match o[i] { Op3::Cos(_) => "cosmetic".into(), x => format!("{:?}", x).to_lowercase() }).collect() }
    }
}

fn report(p: &Prepared, res: &ResourceStorage, scn: usize, seq: &[usize], first: (usize, String, String), l: &mut Local) {
    let trimmed = &seq[..=first.0];
    let min = shrink(p, res, scn, trimmed);
    let mut scratch = Local::default();
    // re-execute the minimal history twice: a violation must reproduce
    let a1 = run_one(p, res, scn, &min, &mut scratch);
    let a2 = run_one(p, res, scn, &min, &mut scratch);
    let stable = a1.is_some() && a1.as_ref().map(|x| x.0) == a2.as_ref().map(|x| x.0);
    // control: the same history under the "never reuse an address" allocator mode
    vh::alloc::set_never_reuse(true);
    let ctrl = run_one(p, res, scn, &min, &mut scratch);
    vh::alloc::set_never_reuse(false);
    let (exp, got) = a1.map(|x| (x.1, x.2)).unwrap_or((first.1, first.2));
    let mut sig = format!("c06.s{}.{}", scn, kinds(scn, &min).join(","));
    if got.starts_with("panic@") {
        sig.push_str(&format!(".{}", got));
    }
    if ctrl.is_none() {
        sig.push_str(".needs-address-reuse");
    }
    if !stable {
        sig.push_str(".unstable");
    }
    l.mismatch(Mismatch {
        sig,
        what: format!("scenario {} minimal history {:?} (found in {:?}): expected {} got {} (reproduced twice: {}; with address reuse disabled: {})", scn, op_names(scn, &min), op_names(scn, trimmed), exp, got, stable, if ctrl.is_none() { "passes" } else { "fails too" }),
        case: json!({"scenario": scn, "ops": op_names(scn, &min)}),
        size: (min.len() * 100) as u64 + min.iter().sum::<usize>() as u64,
    });
}

fn replay(case: &Value, l: &mut Local) {
    let scn = case["scenario"].as_u64().unwrap_or(1) as usize;
    if scn == 5 {
        let fresh = Engine::from_rules_parametrised(S5_RULES, Default::default(), true, false);
        let expected: Vec<bool> = (0..S5_URLS.len()).map(|k| s5_ask(&fresh, k)).collect();
        return s5_case(case["index"].as_u64().unwrap_or(0), &expected, l);
    }
    // operations are stored by name (indices move when the alphabet grows); plain indices are
    // still accepted
    let nops = match scn { 1 => s1_ops().len(), 2 | 4 => s2_ops().len(), _ => s3_ops().len() };
    let table: Vec<String> = (0..nops).map(|i| op_names(scn, &[i]).remove(0)).collect();
    let seq: Vec<usize> = case["ops"]
        .as_array()
        .map(|a| {
            a.iter()
                .filter_map(|v| match v {
                    Value::String(n) => table.iter().position(|t| t == n),
                    other => other.as_u64().map(|x| x as usize),
                })
                .collect()
        })
        .unwrap_or_default();
    // (the model states of scenario 2 / 4 a history can reach: as many added rules as it has `Add`s)
    let adds = if scn == 2 || scn == 4 { let o = s2_ops(); seq.iter().filter(|&&i| matches!(o.get(i), Some(Op2::Add(_)))).count() } else { 0 };
    let p = Prepared { s1: s1_prepare(), s2: s2_prepare(if scn == 2 { adds } else { 0 }, false), s3: s3_prepare(), s4: s2_prepare(if scn == 4 { adds } else { 0 }, true) };
    let res = ResourceStorage::from_resources(resources());
    // run on a fresh thread so that the free lists start empty, like in a fresh process
    std::thread::scope(|sc| {
        sc.spawn(|| {
            if let Some(f) = run_one(&p, &res, scn, &seq, l) {
                report(&p, &res, scn, &seq, f, l);
            }
        });
    });
}

// =============================== scenario 5: ageing of the regex cache ===========================
// Five regex rules with a token of their own each (a query touches exactly one cache entry). Every
// order of first use x every subset used again later x two clock layouts on the virtual clock:
// entries that are old enough are dropped by the next cleanup while the others survive it; then
// every rule is queried once more. All answers must be those of a fresh engine.

const S5_RULES: [&str; 5] = ["/alpha/*/one", "/bravo/*/two", "/charlie/*/red", "/delta/*/blue$image", "/echo/*/six"];
const S5_URLS: [(&str, &str); 7] = [
    ("https://s.test/alpha/x/one", "script"),
    ("https://s.test/bravo/x/two", "script"),
    ("https://s.test/charlie/x/red", "script"),
    ("https://s.test/delta/x/blue", "image"),
    ("https://s.test/echo/x/six", "script"),
    // hits no rule although it carries two rules' tokens, and one rule's text under the wrong type
    ("https://s.test/charlie/delta/x/blue", "script"),
    ("https://s.test/alpha/one", "script"),
];

fn s5_ask(e: &Engine, k: usize) -> bool {
    let (u, t) = S5_URLS[k];
    e.check_network_request(&Request::new(u, "https://y.com/", t).unwrap()).matched
}

fn s5_case(idx: u64, expected: &[bool], l: &mut Local) {
    let perms = vh::util::permutations(5);
    let (pi, subset, layout) = ((idx % 120) as usize, (idx / 120 % 32) as u32, idx / 120 / 32);
    adblock::verif_hooks::set_thread_virtual_clock(true);
    let r = catch(|| {
        let mut e = Engine::from_rules_parametrised(S5_RULES, Default::default(), true, false);
        e.set_regex_discard_policy(RegexManagerDiscardPolicy { cleanup_interval: Duration::from_millis(10), discard_unused_time: Duration::from_millis(15) });
        let mut bad = None;
        let mut ask = |e: &Engine, k: usize, step: &str| {
            if s5_ask(e, k) != expected[k] && bad.is_none() {
                bad = Some(format!("{} {:?}", step, S5_URLS[k]));
            }
        };
        for &k in &perms[pi] {
            ask(&e, k, "first use of");
        }
        adblock::verif_hooks::advance_thread_clock(Duration::from_millis(if layout == 0 { 12 } else { 8 }));
        for k in 0..5 {
            if subset & (1 << k) != 0 {
                ask(&e, k, "second use of");
            }
        }
        adblock::verif_hooks::advance_thread_clock(Duration::from_millis(if layout == 0 { 6 } else { 9 }));
        for k in 0..S5_URLS.len() {
            ask(&e, k, "after the cleanup:");
        }
        for k in (0..S5_URLS.len()).rev() {
            ask(&e, k, "once more:");
        }
        bad
    });
    adblock::verif_hooks::set_thread_virtual_clock(false);
    l.evaluations += 1;
    l.transitions += 5 + subset.count_ones() as u64 + 14;
    l.compared += 5 + subset.count_ones() as u64 + 14;
    l.nontrivial += 1;
    let what = match r {
        Ok(None) => {
            l.hist("s5-consistent");
            return;
        }
        Ok(Some(w)) => format!("wrong answer at: {}", w),
        Err(loc) => format!("panic@{}", loc),
    };
    l.hist("s5-INCONSISTENT");
    l.mismatch(Mismatch {
        sig: format!("c06.s5.{}", if what.starts_with("panic") { "panic" } else { "answer-differs-from-a-fresh-engine" }),
        what: format!("first use in order {:?}, clock step, second use of subset {:#07b}, clock step (layout {}): {}", perms[pi], subset, layout, what),
        case: json!({"scenario": 5, "index": idx}),
        size: idx,
    });
}

fn check(ctx: &Ctx) -> i32 {
    // depth per scenario (S1 needs 5 operations for the shortest address-reuse history)
    let depths: [usize; 3] = ctx.tier.pick([5, 4, 5], [6, 5, 6]); // S1: core operations at this depth, all operations one step shallower
    ctx.bound("history_depth_s1_s2_s3", json!(depths));
    let p = Prepared { s1: s1_prepare(), s2: s2_prepare(depths[1] - 1, false), s3: s3_prepare(), s4: s2_prepare(depths[1] - 1, true) }; // (the last operation of a history is a query: at most depth-1 rules are added)
    ctx.bound("s1_operations", p.s1.ops.len());
    ctx.bound("s2_operations", p.s2.ops.len());
    ctx.bound("s3_operations", p.s3.ops.len());
    ctx.bound("s2_model_states_precomputed", p.s2.expected.len());
    {
        let mut l = Local::default();
        l.states += 4 + p.s2.expected.len() as u64 + 1;
        ctx.merge(l);
    }
    // Sweeps: (scenario, operation subset, depth). Scenario 1 is the expensive one (every history
    // rebuilds an engine with regex rules and resources): the full alphabet is explored one step
    // shallower than its "core" sub-alphabet (tag switches, two regex queries, one full-regex query,
    // the discards and one round trip), which contains the shortest address-reuse history.
    let s1_core: Vec<usize> = {
        use Op1::*;
        let want = [Check(0), Check(1), Check(4), Use(0), Use(1), Use(2), EnableA, DisableA, DiscardAll, AlwaysDiscard, SerDeSame];
        (0..p.s1.ops.len()).filter(|&i| want.contains(&p.s1.ops[i])).collect()
    };
    let s1_saveload: Vec<usize> = {
        use Op1::*;
        let want = [Check(0), Check(1), Check(2), Use(0), Use(1), Use(2), Use(3), EnableA, DisableA, Save, Load];
        (0..p.s1.ops.len()).filter(|&i| want.contains(&p.s1.ops[i])).collect()
    };
    let s1_failed_loads: Vec<usize> = {
        use Op1::*;
        let want = [Check(0), Check(1), Csp, Use(1), Use(3), EnableA, DisableA, Save, Load, LoadBad, LoadCut];
        (0..p.s1.ops.len()).filter(|&i| want.contains(&p.s1.ops[i])).collect()
    };
    let s1_timed: Vec<usize> = {
        use Op1::*;
        let want = [Check(0), Check(1), Check(4), Use(0), Use(1), Timed, Adv6, Adv12, DiscardAll, NeverDiscard];
        (0..p.s1.ops.len()).filter(|&i| want.contains(&p.s1.ops[i])).collect()
    };
    let s1_timed_never: Vec<usize> = {
        use Op1::*;
        let want = [Check(0), Check(4), Use(1), Timed, TimedNever, Adv6, Adv12, DiscardAll];
        (0..p.s1.ops.len()).filter(|&i| want.contains(&p.s1.ops[i])).collect()
    };
    let s1_secondary: Vec<usize> = {
        use Op1::*;
        let want = [Check(0), Check(3), Cosmetic, TagExists, Subset(0, true, false), Subset(0, false, true), Subset(3, true, false), Hidden, Use(1), Use(3), EnableA, DisableA, SerDeSame, ReloadRes];
        (0..p.s1.ops.len()).filter(|&i| want.contains(&p.s1.ops[i])).collect()
    };
    assert!(matches!(p.s1.ops[S1_PRIMARY_OPS - 1], Op1::Adv12) && matches!(p.s1.ops[S1_PRIMARY_OPS], Op1::TimedNever));
    let all = |n: usize| -> Vec<usize> { (0..n).collect() };
    let sweeps: Vec<(usize, &str, Vec<usize>, usize)> = vec![
        (1, "all primary operations", all(S1_PRIMARY_OPS), depths[0] - 1),
        (1, "secondary entry points", s1_secondary, depths[0] - 1),
        (1, "core operations", s1_core, depths[0]),
        (1, "tag switches around save / load", s1_saveload, depths[0]),
        (1, "rejected loads", s1_failed_loads, depths[0]),
        (1, "cleanup timer on the virtual clock", s1_timed, depths[0] + 1),
        (1, "cleanup timer with a never-discard policy", s1_timed_never, depths[0]),
        (2, "all operations", all(p.s2.ops.len()), depths[1]),
        (3, "all operations", all(p.s3.ops.len()), depths[2]),
        (4, "all operations", all(p.s2.ops.len()), depths[1]),
    ];
    for (scn, label, subset, d) in sweeps {
        let is_q = |i: usize| match scn {
            1 => is_query1(&p.s1.ops[i]),
            2 | 4 => is_query2(&p.s2.ops[i]),
            _ => is_query3(&p.s3.ops[i]),
        };
        let queries: Vec<usize> = subset.iter().copied().filter(|&i| is_q(i)).collect();
        let nops = subset.len() as u64;
        // histories of exactly `d` operations whose last operation is a query: every shorter
        // history is a prefix of one of them and is checked on the way (answers are compared
        // at every query, not only the last).
        let prefixes = nops.pow(d as u32 - 1);
        let total = prefixes * queries.len() as u64;
        let subset_ref = &subset;
        let queries_ref = &queries;
        ctx.par_range(&format!("scenario {} histories, {} ({}), depth {}", scn, label, nops, d), total, 256, |i, l| {
            let res_holder;
            let res: &ResourceStorage = {
                res_holder = ResourceStorage::from_resources(resources());
                &res_holder
            };
            let mut seq = Vec::with_capacity(d);
            let mut r = i / queries_ref.len() as u64;
            for _ in 0..d - 1 {
                seq.push(subset_ref[(r % nops) as usize]);
                r /= nops;
            }
            seq.reverse();
            seq.push(queries_ref[(i % queries_ref.len() as u64) as usize]);
            if l.samples.len() < 2 && (i + ctx.seed) % 30011 == 13 {
                l.samples.push(json!({"scenario": scn, "history": op_names(scn, &seq)}));
            }
            let nq = seq.iter().filter(|&&o| is_q(o)).count();
            if nq >= 2 {
                l.nontrivial += 1;
            }
            match run_one(&p, res, scn, &seq, l) {
                None => l.hist(&format!("s{}-consistent", scn)),
                Some(f) => {
                    l.hist(&format!("s{}-INCONSISTENT", scn));
                    report(&p, res, scn, &seq, f, l);
                }
            }
        });
    }
    // scenario 5
    {
        let fresh = Engine::from_rules_parametrised(S5_RULES, Default::default(), true, false);
        let expected: Vec<bool> = (0..S5_URLS.len()).map(|k| s5_ask(&fresh, k)).collect();
        if expected != [true, true, true, true, true, false, false] {
            eprintln!("machinery: scenario 5 expectations are {:?}", expected);
            return 3;
        }
        ctx.bound("s5_rules", json!(S5_RULES));
        ctx.par_range("scenario 5: ageing of the regex cache (first-use order x reused subset x clock layout)", 120 * 32 * 2, 16, |i, l| s5_case(i, &expected, l));
    }
    ctx.finish(
        "model_checking",
        "three scenarios (S1 engine with tagged regex rules: queries, use/enable/disable tags, discard policies, discard-all, serialize+deserialize into the same and into a fresh engine, rejected loads (garbage, truncated), a mid-range discard policy with explicit clock steps on the hooks' virtual clock; S2 blocker: add_filter of each pool rule, optimize(), tags, queries (S4: the same on a blocker built with optimisations enabled); S3 cosmetic rules + scriptlet resources: queries, reload, resource reload; S5: five regex rules with a token of their own, every order of first use x every subset used again x two layouts of clock steps on the virtual clock under a mid-range discard policy, then every rule again); every operation history of the stated depth whose last operation is a query (shorter ones are prefixes), each on a fresh real subject under a strict-LIFO allocator; every query answer compared with a freshly built engine for the model state (precomputed); non-trivial = the history contains at least two queries; states = model states, transitions = operations executed",
        &[
            "environment answers (cleanup timer fired, regex discarded) are operations of the alphabet, enumerated not sampled",
            "hash-map iteration order inside the engine is not controlled; a violating history is re-executed twice and under a never-reuse allocator, and labelled",
            "pools contain no rule shape whose serialisation is lossy (known findings of C08) when serialisation is part of the alphabet",
        ],
    )
}

fn main() {
    run_main("C06", check, replay)
}
