//! C10 — loading corrupt or hostile serialized data fails cleanly and atomically.
//! FX (fault enumeration): for every valid buffer of a family of small engines: every prefix,
//! every single-bit flip, every substitution of a structural byte (msgpack marker / length bytes,
//! located by a small msgpack walker) by every value of a marker menu, huge-length headers spliced
//! at every structural position, and the header variants. Every faulty buffer is loaded in a child
//! process under an allocation ceiling and a wall-clock ceiling; the parent attributes aborts and
//! time-outs to the exact fault. DESIGN §4 C10.
//!
//!   c10 <quick|thorough>            parent
//!   c10 child <buffer> <from> <to>  child: faults [from,to) of one buffer, one result line each
//!   c10 replay <path>

use adblock::Engine;
use serde_json::{json, Value};
use std::io::{BufRead, Write};
use std::sync::atomic::Ordering;
use vh::net::{csp_set, Verdict};
use vh::util::catch;
use vh::{Ctx, Local, Mismatch, Tier};

#[global_allocator]
static ALLOC: vh::alloc::Lifo = vh::alloc::Lifo;

const CEILING_BYTES: usize = 64 << 20;
const PER_FAULT_TIMEOUT_MS: u128 = 2000;

// ---------------------------------------------------------------------------------------------
// the valid buffers
// ---------------------------------------------------------------------------------------------

struct Source {
    name: &'static str,
    rules: &'static [&'static str],
    debug: bool,
    optimize: bool,
    tags: &'static [&'static str],
    /// permission mask the list is parsed with (the serialized data carries it per +js rule)
    perm: u8,
}

const SOURCES: &[Source] = &[
    Source { name: "host-anchors", rules: &["||ads.net^", "||ads.net/ad$script", "@@||ok.net^$image"], debug: false, optimize: true, tags: &[], perm: 0 },
    Source { name: "regex+cosmetic", rules: &["/ad[0-9]+/", "foo*bar^", "x.com##.ad", "x.com##+js(s1, \"a b\", c)", "##.generic", "x.com##.r:style(top:0)", "x.com#@#.u:style(top:0)"], debug: false, optimize: true, tags: &[], perm: 0 },
    Source { name: "tagged+debug", rules: &["adv$tag=a", "@@advice$tag=b", "||c.com^$csp=d1", "||r.com^$redirect=a"], debug: true, optimize: false, tags: &["a"], perm: 0 },
    Source { name: "domains", rules: &["ads$domain=x.com|~y.com", "||t.co.uk^$3p,important", "|https://a.b/|"], debug: false, optimize: false, tags: &[], perm: 0 },
    Source { name: "cosmetic-procedural", rules: &["x.com##.p:style(color:red)", "x.com#@#.q", "y.com##.r:has-text(ad)", "z.*##.e", "~w.com##.n"], debug: false, optimize: true, tags: &[], perm: 0 },
    Source { name: "empty", rules: &[], debug: false, optimize: true, tags: &[], perm: 0 },
    Source { name: "single-plain", rules: &["plain"], debug: true, optimize: true, tags: &[], perm: 0 },
    Source { name: "hostname-regex", rules: &["||ads.net*bar", "||ads.net^foo|", "||ads.net^"], debug: false, optimize: false, tags: &[], perm: 0 },
    Source { name: "fused", rules: &["adv", "advert", "advice", "@@adv1", "@@adv2"], debug: true, optimize: true, tags: &[], perm: 0 },
    Source { name: "generichide+badfilter", rules: &["@@||g.com^$generichide", "bar", "bar$badfilter", "g.com##.own"], debug: false, optimize: true, tags: &[], perm: 0 },
    Source { name: "scriptlets", rules: &["x.com##+js(s1)", "x.com#@#+js(s1)", "y.com##+js(s2, 'q')", "y.com#@#+js()"], debug: false, optimize: true, tags: &[], perm: 0 },
    Source { name: "idn+complex", rules: &["||bücher.de^", "bücher.de##.ad > a", "##.c.d", "###i .c"], debug: true, optimize: true, tags: &[], perm: 0 },
    // a list parsed with a non-default permission: the per-rule permissions live in a field of their
    // own, next to the bins they describe (the two can be made to disagree)
    Source { name: "scriptlet-permissions", rules: &["x.com##+js(s1, a)", "x.com##.banner", "x.com#@#+js(s2)", "y.com##+js(s1)", "y.com##+js(s2, b)"], debug: false, optimize: true, tags: &[], perm: 1 },
    // fusable tagged rules with debug texts, optimised: the tagged list is rebuilt (and fused) whenever
    // the receiving engine switches tags, from whatever the buffer said about each rule
    Source { name: "tagged+fused+debug", rules: &["adv$tag=a", "advert$tag=a", "advice$tag=a", "@@adv1$tag=a", "@@adv2$tag=a"], debug: true, optimize: true, tags: &["a"], perm: 0 },
    // one rule per modifier option (the option value shares one slot of the format with the others;
    // which one it is, is decided by mask bits that a fault can move)
    Source { name: "modifiers", rules: &["||p.com^$removeparam=utm", "*$removeparam=ref", "||c.com^$csp=d1", "@@||c.com^$csp=d1", "||r.com^$redirect-rule=a", "||r.com/x$redirect=a"], debug: false, optimize: true, tags: &[], perm: 0 },
    // initiator lists of two and three entries (stored as sorted hash lists: a fault can unsort them),
    // queried from the listed domains and from sub-domains of theirs
    Source { name: "domain-lists", rules: &["ads$domain=x.com|z.com", "||t.co.uk^$domain=~x.com|~y.com|~z.com", "adv$script,domain=x.com|y.com|z.com"], debug: false, optimize: false, tags: &[], perm: 0 },
];

fn resources() -> Vec<adblock::resources::Resource> {
    use adblock::resources::{MimeType, ResourceType};
    let mut v = vh::net::std_resources();
    v.push(vh::net::resource("s1.js", &["s1"], ResourceType::Mime(MimeType::ApplicationJavascript), "function s1(a, b){ return a }", &[], 0));
    v.push(vh::net::resource("s2.js", &["s2"], ResourceType::Template, "s2({{1}})", &[], 0));
    v
}

fn source_engine(s: &Source) -> Engine {
    let mut fs = adblock::lists::FilterSet::new(s.debug);
    fs.add_filters(s.rules, adblock::lists::ParseOptions { permissions: adblock::resources::PermissionMask::from_bits(s.perm), ..Default::default() });
    let mut e = Engine::from_filter_set(fs, s.optimize);
    vh::net::never_discard(&mut e);
    e.use_tags(s.tags);
    e.use_resources(resources());
    e
}

fn valid_buffer(i: usize) -> Vec<u8> {
    source_engine(&SOURCES[i]).serialize_raw().expect("valid engine must serialize")
}

/// The engine into which faulty buffers are loaded: it already holds rules, tags and resources.
fn preloaded() -> Engine {
    let mut e = Engine::from_rules_parametrised(["||pre.com^", "pre*loaded$tag=p", "pre.com##.pre", "pre.com##+js(s1, x)", "@@||pre.com/ok"], Default::default(), true, true);
    vh::net::never_discard(&mut e);
    e.use_tags(&["p", "a"]);
    e.use_resources(resources());
    e
}

// ---------------------------------------------------------------------------------------------
// msgpack walker: offsets of structural bytes (markers and their length bytes)
// ---------------------------------------------------------------------------------------------

fn walk(buf: &[u8], mut pos: usize, out: &mut Vec<usize>, strs: &mut Vec<(usize, usize)>, depth: usize) -> Option<usize> {
    if depth > 64 || pos >= buf.len() {
        return None;
    }
    let m = buf[pos];
    let start = pos;
    out.push(pos);
    let be = |p: usize, n: usize| -> Option<usize> {
        if p + n > buf.len() {
            return None;
        }
        let mut v = 0usize;
        for k in 0..n {
            v = (v << 8) | buf[p + k] as usize;
        }
        Some(v)
    };
    pos += 1;
    let mut lenbytes = |pos: &mut usize, n: usize, out: &mut Vec<usize>| -> Option<usize> {
        let v = be(*pos, n)?;
        for k in 0..n {
            out.push(*pos + k);
        }
        *pos += n;
        Some(v)
    };
    match m {
        0x00..=0x7f | 0xe0..=0xff | 0xc0 | 0xc2 | 0xc3 => Some(pos),
        0xa0..=0xbf => {
            strs.push((start, 1 + (m & 0x1f) as usize));
            Some(pos + (m & 0x1f) as usize)
        }
        0x90..=0x9f => {
            let mut p = pos;
            for _ in 0..(m & 0x0f) {
                p = walk(buf, p, out, strs, depth + 1)?;
            }
            Some(p)
        }
        0x80..=0x8f => {
            let mut p = pos;
            for _ in 0..2 * (m & 0x0f) as usize {
                p = walk(buf, p, out, strs, depth + 1)?;
            }
            Some(p)
        }
        0xc4 | 0xd9 => { let n = lenbytes(&mut pos, 1, out)?; if m == 0xd9 { strs.push((start, 2 + n)); } Some(pos + n) }
        0xc5 | 0xda => { let n = lenbytes(&mut pos, 2, out)?; if m == 0xda { strs.push((start, 3 + n)); } Some(pos + n) }
        0xc6 | 0xdb => { let n = lenbytes(&mut pos, 4, out)?; Some(pos + n) }
        0xca => Some(pos + 4),
        0xcb => Some(pos + 8),
        0xcc | 0xd0 => Some(pos + 1),
        0xcd | 0xd1 => Some(pos + 2),
        0xce | 0xd2 => Some(pos + 4),
        0xcf | 0xd3 => Some(pos + 8),
        0xdc => { let n = lenbytes(&mut pos, 2, out)?; let mut p = pos; for _ in 0..n { p = walk(buf, p, out, strs, depth + 1)?; } Some(p) }
        0xdd => { let n = lenbytes(&mut pos, 4, out)?; let mut p = pos; for _ in 0..n { p = walk(buf, p, out, strs, depth + 1)?; } Some(p) }
        0xde => { let n = lenbytes(&mut pos, 2, out)?; let mut p = pos; for _ in 0..2 * n { p = walk(buf, p, out, strs, depth + 1)?; } Some(p) }
        0xdf => { let n = lenbytes(&mut pos, 4, out)?; let mut p = pos; for _ in 0..2 * n { p = walk(buf, p, out, strs, depth + 1)?; } Some(p) }
        _ => Some(pos), // ext types etc.: not produced by the encoder
    }
}

fn structural_offsets(buf: &[u8]) -> (Vec<usize>, Vec<(usize, usize)>) {
    let mut out = vec![];
    let mut strs = vec![];
    let end = walk(buf, 5, &mut out, &mut strs, 0);
    assert_eq!(end, Some(buf.len()), "walker must consume a valid buffer exactly");
    out.sort();
    out.dedup();
    (out, strs)
}

/// Replacement texts for whole string values (re-encoded with a correct length header, so the
/// buffer stays decodable and the *content* of a rule field is what is hostile).
const STR_MENU: [&str; 16] = ["", "/", "//", "a", "é/", "/é", "/é/", "*", "^", "\"", "\\", "x, \"y", "{}", "[]", "{\"selector\":[]}", "{\"selector\":[],\"action\":null}"];

const MENU: [u8; 19] = [0x00, 0x7f, 0x80, 0x90, 0xa0, 0xc0, 0xc2, 0xc3, 0xc4, 0xca, 0xcc, 0xcf, 0xd9, 0xdb, 0xdc, 0xdd, 0xde, 0xdf, 0xff];
const HUGE: [u8; 4] = [0xdb, 0xc6, 0xdd, 0xdf];
const HDR_SIGMA: [u8; 8] = [0x00, 0xd1, 0xd9, 0x3a, 0xaf, 0x1f, 0x8b, 0xff];

// ---------------------------------------------------------------------------------------------
// fault index space of one buffer
// ---------------------------------------------------------------------------------------------

struct Faults {
    buf: Vec<u8>,
    st: Vec<usize>,
    strs: Vec<(usize, usize)>,
    n_str: u64,
    n_prefix: u64,
    n_flip: u64,
    n_sub: u64,
    n_huge: u64,
    n_version: u64,
    n_pairs: u64,
    n_flip2: u64,
}

impl Faults {
    fn new(buf: Vec<u8>, pairs: bool) -> Faults {
        let (st, strs) = structural_offsets(&buf);
        let n = buf.len() as u64;
        let s = st.len() as u64;
        let bits = 8 * n;
        Faults { n_flip2: if pairs { bits * (bits - 1) / 2 } else { 0 }, n_str: strs.len() as u64 * (STR_MENU.len() as u64 + 1), strs, n_prefix: n, n_flip: 8 * n, n_sub: s * MENU.len() as u64, n_huge: s * HUGE.len() as u64, n_version: 255, n_pairs: if pairs { s * (s - 1) / 2 * 36 } else { 0 }, buf, st }
    }
    fn total(&self) -> u64 {
        self.n_prefix + self.n_flip + self.n_sub + self.n_huge + self.n_version + self.n_str + self.n_pairs + self.n_flip2
    }
    fn make(&self, mut i: u64) -> (String, Vec<u8>) {
        let b = &self.buf;
        if i < self.n_prefix {
            return (format!("prefix[{}]", i), b[..i as usize].to_vec());
        }
        i -= self.n_prefix;
        if i < self.n_flip {
            let mut v = b.clone();
            v[(i / 8) as usize] ^= 1 << (i % 8);
            return (format!("bitflip[byte {} bit {}]", i / 8, i % 8), v);
        }
        i -= self.n_flip;
        if i < self.n_sub {
            let off = self.st[(i / MENU.len() as u64) as usize];
            let val = MENU[(i % MENU.len() as u64) as usize];
            let mut v = b.clone();
            v[off] = val;
            return (format!("substitute[offset {} := {:#04x}]", off, val), v);
        }
        i -= self.n_sub;
        if i < self.n_huge {
            let off = self.st[(i / HUGE.len() as u64) as usize];
            let m = HUGE[(i % HUGE.len() as u64) as usize];
            let mut v = b[..off].to_vec();
            v.extend_from_slice(&[m, 0xff, 0xff, 0xff, 0xf0]);
            v.extend_from_slice(&b[off + 1..]);
            return (format!("huge-length[offset {} marker {:#04x} len 0xfffffff0]", off, m), v);
        }
        i -= self.n_huge;
        if i < self.n_version {
            let mut v = b.clone();
            v[4] = (i + 1) as u8;
            return (format!("version[{}]", i + 1), v);
        }
        i -= self.n_version;
        if i < self.n_str {
            let per = STR_MENU.len() as u64 + 1;
            let (start, total) = self.strs[(i / per) as usize];
            if i % per == STR_MENU.len() as u64 {
                // the whole string value replaced by nil (an optional field made absent)
                let mut v = b[..start].to_vec();
                v.push(0xc0);
                v.extend_from_slice(&b[start + total..]);
                return (format!("replace-string[offset {} := nil]", start), v);
            }
            let rep = STR_MENU[(i % per) as usize];
            let mut v = b[..start].to_vec();
            v.push(0xa0 | rep.len() as u8);
            v.extend_from_slice(rep.as_bytes());
            v.extend_from_slice(&b[start + total..]);
            return (format!("replace-string[offset {} := {:?}]", start, rep), v);
        }
        i -= self.n_str;
        if i >= self.n_pairs {
            // every pair of bit flips
            let mut k = i - self.n_pairs;
            let bits = 8 * b.len() as u64;
            let mut a = 0u64;
            while k >= bits - 1 - a {
                k -= bits - 1 - a;
                a += 1;
            }
            let c = a + 1 + k;
            let mut v = b.clone();
            v[(a / 8) as usize] ^= 1 << (a % 8);
            v[(c / 8) as usize] ^= 1 << (c % 8);
            return (format!("bitflip-pair[bit {}, bit {}]", a, c), v);
        }
        // pairs of structural substitutions over a 6-value sub-menu
        const SUB: [u8; 6] = [0x00, 0x90, 0xa0, 0xc0, 0xc4, 0xdc];
        let combo = i / 36;
        let vals = i % 36;
        // decode combo -> (a<b)
        let s = self.st.len() as u64;
        let mut a = 0u64;
        let mut rem = combo;
        while rem >= s - 1 - a {
            rem -= s - 1 - a;
            a += 1;
        }
        let bidx = a + 1 + rem;
        let mut v = b.clone();
        v[self.st[a as usize]] = SUB[(vals / 6) as usize];
        v[self.st[bidx as usize]] = SUB[(vals % 6) as usize];
        (format!("substitute-pair[{}:={:#04x}, {}:={:#04x}]", self.st[a as usize], SUB[(vals / 6) as usize], self.st[bidx as usize], SUB[(vals % 6) as usize]), v)
    }
}

/// Buffer-independent header variants: empty input, short strings over the header alphabet, the
/// gzip header of the legacy format followed by junk.
fn header_variant(i: u64) -> (String, Vec<u8>) {
    let n = vh::util::count_strings_upto(8, 5);
    if i < n {
        let mut seq = vec![];
        vh::util::nth_seq(i, 8, &mut seq);
        let v: Vec<u8> = seq.iter().map(|&k| HDR_SIGMA[k]).collect();
        return (format!("header-bytes{:02x?}", v), v);
    }
    let k = i - n;
    let gz = [31u8, 139, 8, 0, 0, 0, 0, 0, 0, 255];
    let mut v = gz[..(10 - (k % 3) as usize)].to_vec();
    v.extend(std::iter::repeat(0xdfu8).take((k / 3) as usize));
    (format!("gzip-header[-{} +{}]", k % 3, k / 3), v)
}
fn header_variants_total() -> u64 {
    vh::util::count_strings_upto(8, 5) + 12
}

/// Cross-over of two valid buffers: the head of A up to a structural offset followed by the tail
/// of B from a structural offset (a structurally plausible but inconsistent buffer).
struct Cross {
    a: Vec<u8>,
    b: Vec<u8>,
    sta: Vec<usize>,
    stb: Vec<usize>,
}

/// Where the faults of one shard come from. Buffer ids: 0..SOURCES.len() = a valid buffer,
/// usize::MAX = the buffer-independent header variants, 1000 + 16*a + b = cross-over of a and b.
enum Src {
    Buf(Faults),
    Hdr,
    Cross(Cross),
}

impl Src {
    fn of(buffer: usize, pairs: bool) -> Src {
        if buffer == usize::MAX {
            Src::Hdr
        } else if buffer >= 1000 {
            let (a, b) = ((buffer - 1000) / 16, (buffer - 1000) % 16);
            let (ba, bb) = (valid_buffer(a), valid_buffer(b));
            let (sta, _) = structural_offsets(&ba);
            let (stb, _) = structural_offsets(&bb);
            Src::Cross(Cross { a: ba, b: bb, sta, stb })
        } else {
            Src::Buf(Faults::new(valid_buffer(buffer), pairs))
        }
    }
    fn total(&self) -> u64 {
        match self {
            Src::Buf(f) => f.total(),
            Src::Hdr => header_variants_total(),
            Src::Cross(c) => (c.sta.len() * c.stb.len()) as u64,
        }
    }
    fn make(&self, i: u64) -> (String, Vec<u8>) {
        match self {
            Src::Buf(f) => f.make(i),
            Src::Hdr => header_variant(i),
            Src::Cross(c) => {
                let (x, y) = (c.sta[(i as usize) / c.stb.len()], c.stb[(i as usize) % c.stb.len()]);
                let mut v = c.a[..x].to_vec();
                v.extend_from_slice(&c.b[y..]);
                (format!("crossover[head ..{} + tail {}..]", x, y), v)
            }
        }
    }
    fn name(buffer: usize) -> String {
        if buffer == usize::MAX {
            "header-variants".into()
        } else if buffer >= 1000 {
            format!("{} x {}", SOURCES[(buffer - 1000) / 16].name, SOURCES[(buffer - 1000) % 16].name)
        } else {
            SOURCES[buffer].name.to_string()
        }
    }
}

// ---------------------------------------------------------------------------------------------
// executing one fault (in the child)
// ---------------------------------------------------------------------------------------------

type Battery = Vec<String>;

fn battery_urls(buf: &[u8]) -> (Vec<String>, Vec<String>) {
    let mut net = vec![
        "https://pre.com/x".to_string(), "https://pre.com/ok".into(), "https://z.org/pre1loaded".into(), "https://ads.net/ad".into(), "https://ads.net/foo".into(), "https://ads.net/xbar".into(),
        "https://x.com/ad12".into(), "https://x.com/foo1bar/".into(), "https://c.com/".into(), "https://r.com/".into(), "https://t.co.uk/".into(), "https://a.b/".into(), "https://x.com/advice".into(),
        "https://x.com/advert".into(), "https://x.com/adv1".into(), "https://g.com/bar".into(), "https://xn--bcher-kva.de/".into(), "https://ok.net/i.png".into(), "https://x.com/plain".into(),
    ];
    let mut cos = vec!["https://pre.com/".to_string(), "https://x.com/".into(), "https://y.com/".into(), "https://z.com/".into(), "https://w.com/".into(), "https://g.com/".into(), "https://xn--bcher-kva.de/".into()];
    // strings found in the (faulty) buffer, so that decoded rules are actually exercised
    let mut run = String::new();
    let mut seen = 0;
    let mut runs: Vec<String> = vec![];
    for &c in buf.iter().chain(std::iter::once(&0u8)) {
        if c.is_ascii_alphanumeric() || c == b'.' || c == b'-' {
            run.push(c as char);
        } else {
            if run.len() >= 3 && seen < 24 {
                net.push(format!("https://{}/{}", run, run));
                cos.push(format!("https://{}/", run));
                runs.push(run.clone());
                seen += 1;
            }
            run.clear();
        }
    }
    // the same hosts with a query string that names every such string as a parameter (rules that
    // rewrite the query have work to do)
    let query: String = runs.iter().map(|r| format!("{}=1", r)).collect::<Vec<_>>().join("&");
    for r in &runs {
        net.push(format!("https://{}/q?{}", r, query));
    }
    net.push(format!("https://other.org/q?{}", query));
    (net, cos)
}

fn run_battery(e: &Engine, net: &[String], cos: &[String]) -> Battery {
    let mut out = vec![];
    for u in net {
        for ty in ["script", "document"] {
            if let Ok(r) = adblock::request::Request::new(u, "https://src.org/", ty) {
                out.push(format!("{:?} {:?}", Verdict::of(&e.check_network_request(&r)), csp_set(&e.get_csp_directives(&r))));
            }
        }
    }
    // the first requests once more from initiators that rules of the buffers list (and sub-domains
    // of them: the initiator is probed with the hashes of all its parent domains)
    for u in net.iter().take(10) {
        for src in ["https://x.com/", "https://z.com/p", "https://s1.x.com/", "https://s2.x.com/", "https://s3.x.com/", "https://s4.x.com/", "https://s10.x.com/page", "https://a.b.z.com/", "https://s1.y.com/", "https://s7.z.com/"] {
            if let Ok(r) = adblock::request::Request::new(u, src, "script") {
                out.push(format!("{:?}", Verdict::of(&e.check_network_request(&r))));
            }
        }
    }
    for u in cos {
        let r = e.url_cosmetic_resources(u);
        let mut hs: Vec<_> = r.hide_selectors.into_iter().collect();
        hs.sort();
        let mut pa: Vec<_> = r.procedural_actions.into_iter().collect();
        pa.sort();
        let mut ex: Vec<_> = r.exceptions.into_iter().collect();
        ex.sort();
        let mut blocks: Vec<&str> = r.injected_script.split("try {\n").collect();
        blocks.sort();
        out.push(format!("{:?} {:?} {:?} {:?} {}", hs, pa, ex, blocks, r.generichide));
    }
    let mut sel = e.hidden_class_id_selectors(["generic", "ad", "c", "pre"], ["i"], &Default::default());
    sel.sort();
    out.push(format!("{:?}", sel));
    out
}

/// Returns the outcome line for one faulty buffer. `e` is the pre-loaded engine; it is rebuilt by
/// the caller when the load succeeded.
fn execute(e: &mut Engine, pre_answers: &Battery, pre_bytes: &[u8], faulty: &[u8]) -> (String, bool) {
    let (net, cos) = battery_urls(faulty);
    let base = vh::alloc::LIVE.load(Ordering::Relaxed);
    vh::alloc::CEILING.store(base + CEILING_BYTES, Ordering::Relaxed);
    let r = catch(|| e.deserialize(faulty).is_ok());
    match r {
        Err(loc) => (format!("PANIC-in-load@{}", loc), true),
        Ok(false) => {
            // atomicity: the engine must behave exactly as before the call
            let (pn, pc) = battery_urls(&[]);
            let after = catch(|| (run_battery(e, &pn, &pc), e.serialize_raw().map_err(|_| ())));
            match after {
                Err(loc) => (format!("err-then-PANIC@{}", loc), true),
                Ok((a, bytes)) => {
                    if &a != pre_answers {
                        ("err-but-ANSWERS-CHANGED".into(), true)
                    } else if bytes.as_deref().ok() != Some(pre_bytes) {
                        ("err-but-SERIALIZATION-CHANGED".into(), true)
                    } else {
                        ("clean-error".into(), false)
                    }
                }
            }
        }
        Ok(true) => {
            let after = catch(|| {
                let _ = run_battery(e, &net, &cos);
                // the loaded engine is a live engine: switching tags rebuilds its tagged list from
                // the loaded rules
                e.use_tags(&["a", "b"]);
                let _ = run_battery(e, &net, &cos);
                e.enable_tags(&["p"]);
                e.disable_tags(&["a"]);
                let _ = run_battery(e, &net[..net.len().min(12)], &cos[..1]);
                e.serialize_raw().is_ok()
            });
            match after {
                Err(loc) => (format!("ok-then-PANIC-in-query@{}", loc), true),
                Ok(false) => ("ok-but-RESERIALIZE-FAILED".into(), true),
                Ok(true) => ("loaded-and-usable".into(), true),
            }
        }
    }
}

fn child(buffer: usize, from: u64, to: u64) {
    vh::util::install_quiet_panic_hook();
    let out = std::io::stdout();
    let mut out = out.lock();
    let faults = Src::of(buffer, true);
    let mut e = preloaded();
    let (pn, pc) = battery_urls(&[]);
    let pre_answers = run_battery(&e, &pn, &pc);
    let pre_bytes = e.serialize_raw().unwrap();
    for i in from..to {
        let (_, faulty) = faults.make(i);
        writeln!(out, "S {}", i).ok();
        out.flush().ok();
        let (line, rebuild) = execute(&mut e, &pre_answers, &pre_bytes, &faulty);
        vh::alloc::CEILING.store(usize::MAX, Ordering::Relaxed);
        writeln!(out, "R {} {}", i, line).ok();
        out.flush().ok();
        if rebuild {
            e = preloaded();
        }
    }
}

// ---------------------------------------------------------------------------------------------
// parent
// ---------------------------------------------------------------------------------------------

struct ShardResult {
    outcomes: Vec<(u64, String)>,
}

/// Runs faults [from,to) of a buffer in child processes; an abort or time-out is attributed to
/// the fault announced last, and the shard is resumed after it.
fn run_shard(buffer: usize, from: u64, to: u64) -> ShardResult {
    run_shard_with(buffer, from, to, PER_FAULT_TIMEOUT_MS, true)
}

fn run_shard_with(buffer: usize, from: u64, to: u64, timeout_ms: u128, confirm_timeouts: bool) -> ShardResult {
    let exe = std::env::current_exe().unwrap();
    let mut outcomes = vec![];
    let mut next = from;
    while next < to {
        let mut ch = std::process::Command::new(&exe)
            .args(["child", &(if buffer == usize::MAX { "hdr".to_string() } else { buffer.to_string() }), &next.to_string(), &to.to_string()])
            .stdout(std::process::Stdio::piped())
            .stderr(std::process::Stdio::null())
            .spawn()
            .expect("spawn child");
        let stdout = ch.stdout.take().unwrap();
        let (tx, rx) = std::sync::mpsc::channel::<String>();
        let reader = std::thread::spawn(move || {
            for l in std::io::BufReader::new(stdout).lines().map_while(Result::ok) {
                if tx.send(l).is_err() {
                    break;
                }
            }
        });
        let mut current: Option<u64> = None;
        let mut last_progress = std::time::Instant::now();
        let mut timed_out = false;
        loop {
            match rx.recv_timeout(std::time::Duration::from_millis(100)) {
                Ok(l) => {
                    last_progress = std::time::Instant::now();
                    if let Some(r) = l.strip_prefix("S ") {
                        current = r.parse().ok();
                    } else if let Some(r) = l.strip_prefix("R ") {
                        let (i, o) = r.split_once(' ').unwrap_or((r, ""));
                        outcomes.push((i.parse().unwrap_or(0), o.to_string()));
                        current = None;
                        next = i.parse::<u64>().unwrap_or(next) + 1;
                    }
                }
                Err(std::sync::mpsc::RecvTimeoutError::Timeout) => {
                    if current.is_some() && last_progress.elapsed().as_millis() > timeout_ms {
                        let _ = ch.kill();
                        timed_out = true;
                        break;
                    }
                    if let Ok(Some(_)) = ch.try_wait() {
                        // drain what is left
                        while let Ok(l) = rx.recv_timeout(std::time::Duration::from_millis(50)) {
                            if let Some(r) = l.strip_prefix("S ") {
                                current = r.parse().ok();
                            } else if let Some(r) = l.strip_prefix("R ") {
                                let (i, o) = r.split_once(' ').unwrap_or((r, ""));
                                outcomes.push((i.parse().unwrap_or(0), o.to_string()));
                                current = None;
                                next = i.parse::<u64>().unwrap_or(next) + 1;
                            }
                        }
                        break;
                    }
                }
                Err(_) => break,
            }
        }
        let status = ch.wait().ok();
        let _ = reader.join();
        if let Some(i) = current {
            let why = if timed_out {
                // a slow machine must not turn into a verdict: the fault is re-executed alone with
                // five times the limit, and only a second time-out is reported
                if confirm_timeouts {
                    let again = run_shard_with(buffer, i, i + 1, timeout_ms * 5, false);
                    match again.outcomes.into_iter().next() {
                        Some((_, o)) => o,
                        None => format!("TIMEOUT>{}ms", timeout_ms * 5),
                    }
                } else {
                    format!("TIMEOUT>{}ms", timeout_ms)
                }
            } else {
                match status.and_then(|s| s.code()) {
                    Some(77) => format!("ALLOCATION-CEILING-EXCEEDED>{}MiB", CEILING_BYTES >> 20),
                    Some(c) => format!("ABORT-exit-{}", c),
                    None => "ABORT-signal".to_string(),
                }
            };
            outcomes.push((i, why));
            next = i + 1;
        } else if !status.map(|s| s.success()).unwrap_or(false) && next < to {
            // child died outside a subject call: machinery failure
            eprintln!("machinery: fault child for buffer {} died outside a fault (next={})", buffer, next);
            std::process::exit(3);
        }
    }
    ShardResult { outcomes }
}

fn is_bad(o: &str) -> bool {
    o.chars().any(|c| c.is_ascii_uppercase()) && !o.starts_with("loaded-and-usable") && !o.starts_with("clean-error")
}

/// Signature: outcome kind + panic location (without the fault coordinates).
fn sig_of(o: &str) -> String {
    format!("c10.{}", o.split('>').next().unwrap_or(o))
}

fn record(buffer: usize, f: &Src, res: ShardResult, l: &mut Local) {
    for (i, o) in res.outcomes {
        l.evaluations += 1;
        l.transitions += 1;
        l.compared += 1;
        l.states += 1;
        let kind = o.split('@').next().unwrap_or(&o).split('>').next().unwrap_or(&o).to_string();
        l.hist(&kind);
        if o.starts_with("loaded-and-usable") {
            l.nontrivial += 1;
        }
        if is_bad(&o) {
            let (desc, bytes) = f.make(i);
            let name = Src::name(buffer);
            l.mismatch(Mismatch {
                sig: sig_of(&o),
                what: format!("buffer '{}' fault {}: {}", name, desc, o),
                case: json!({"buffer": if buffer == usize::MAX { -1 } else { buffer as i64 }, "fault_index": i, "fault": desc, "bytes_hex": bytes.iter().take(4096).map(|b| format!("{:02x}", b)).collect::<String>()}),
                size: bytes.len() as u64 * 1000 + i % 1000,
            });
        }
    }
}

fn check(ctx: &Ctx) -> i32 {
    let buffers: Vec<usize> = match ctx.tier {
        Tier::Quick => vec![0, 1, 2, 5, 12, 13, 14, 15],
        Tier::Thorough => (0..SOURCES.len()).collect(),
    };
    let pair_buffers: Vec<usize> = if ctx.tier == Tier::Thorough { vec![5, 6, 0] } else { vec![] };
    let mut shards: Vec<(usize, u64, u64)> = vec![];
    let mut meta = serde_json::Map::new();
    for &b in &buffers {
        let f = Faults::new(valid_buffer(b), pair_buffers.contains(&b));
        meta.insert(SOURCES[b].name.to_string(), json!({"bytes": f.buf.len(), "structural_offsets": f.st.len(), "prefixes": f.n_prefix, "bit_flips": f.n_flip, "substitutions": f.n_sub, "huge_lengths": f.n_huge, "versions": f.n_version, "string_replacements": f.n_str, "substitution_pairs": f.n_pairs, "bit_flip_pairs": f.n_flip2}));
        let total = f.total();
        let step = 1500;
        let mut s = 0;
        while s < total {
            shards.push((b, s, (s + step).min(total)));
            s += step;
        }
    }
    // cross-overs between valid buffers (quick: one ordered pair; thorough: all ordered pairs of
    // four buffers)
    let cross_pairs: Vec<(usize, usize)> = match ctx.tier {
        Tier::Quick => vec![(1, 2)],
        Tier::Thorough => {
            let bs = [0usize, 1, 2, 4];
            bs.iter().flat_map(|&a| bs.iter().filter(move |&&b| b != a).map(move |&b| (a, b))).collect()
        }
    };
    let mut cross_total = 0u64;
    for (a, b) in &cross_pairs {
        let id = 1000 + 16 * a + b;
        let total = Src::of(id, false).total();
        cross_total += total;
        let mut s = 0;
        while s < total {
            shards.push((id, s, (s + 1500).min(total)));
            s += 1500;
        }
    }
    ctx.bound("crossover_pairs", cross_pairs.len());
    ctx.bound("crossover_faults", cross_total);
    let hv = header_variants_total();
    let mut s = 0;
    while s < hv {
        shards.push((usize::MAX, s, (s + 4000).min(hv)));
        s += 4000;
    }
    ctx.bound("buffers", Value::Object(meta));
    ctx.bound("header_variants", hv);
    ctx.bound("allocation_ceiling_mib", CEILING_BYTES >> 20);
    ctx.bound("per_fault_timeout_ms", PER_FAULT_TIMEOUT_MS as u64);
    ctx.bound("marker_menu", json!(MENU.iter().map(|b| format!("{:#04x}", b)).collect::<Vec<_>>()));
    let shards_ref = &shards;
    let pair_ref = &pair_buffers;
    ctx.par_range("fault shards", shards.len() as u64, 1, |k, l| {
        let (b, from, to) = shards_ref[k as usize];
        let f = Src::of(b, pair_ref.contains(&b));
        if l.samples.len() < 3 && (k + ctx.seed) % 7 == 0 {
            let (d, bytes) = f.make(from);
            l.samples.push(json!({"buffer": Src::name(b), "fault": d, "first_bytes_hex": bytes.iter().take(24).map(|x| format!("{:02x}", x)).collect::<String>()}));
        }
        let res = run_shard(b, from, to);
        record(b, &f, res, l);
    });
    ctx.finish(
        "fault_enumeration",
        "for each valid buffer (small engines of every rule-shape family, debug on/off, tags, cosmetic rules): every prefix, every single-bit flip, every structural byte (msgpack markers and length bytes found by a walker) replaced by each of 19 marker values, a 4 GiB length header spliced at every structural position, every version byte, every string value replaced by each of 12 short texts (re-encoded with a correct length); thorough adds all pairs of structural substitutions and all pairs of bit flips on three small buffers; plus cross-overs (head of one valid buffer up to a structural offset + tail of another from a structural offset), all byte strings of length <= 5 over 8 header bytes and gzip-header variants. Each fault is loaded into a pre-loaded real engine inside a child process under a 64 MiB allocation ceiling and a 2 s ceiling; post-conditions: no panic/abort, on error the engine answers a fixed battery and serialises exactly as before, on success a battery built from the strings of the buffer runs and the engine re-serialises; distinct non-trivial = faults that loaded successfully",
        &["allocations <= 2 KiB are not counted towards the ceiling", "the battery after a successful load is a fixed URL set plus URLs built from the ASCII runs of the faulty buffer"],
    )
}

fn replay(case: &Value, l: &mut Local) {
    let b = case["buffer"].as_i64().unwrap_or(0);
    let i = case["fault_index"].as_u64().unwrap_or(0);
    let buffer = if b < 0 { usize::MAX } else { b as usize };
    let f = Src::of(buffer, true);
    // the description identifies a fault across changes of the fault menu; the index is a fallback
    let i = match (buffer != usize::MAX, case["fault"].as_str()) {
        (true, Some(d)) => (0..f.total()).find(|&k| f.make(k).0 == d).unwrap_or(i),
        _ => i,
    };
    let res = run_shard(buffer, i, i + 1);
    record(buffer, &f, res, l);
}

fn main() {
    let args: Vec<String> = std::env::args().collect();
    if args.get(1).map(|s| s.as_str()) == Some("child") {
        let b = if args[2] == "hdr" { usize::MAX } else { args[2].parse().unwrap() };
        child(b, args[3].parse().unwrap(), args[4].parse().unwrap());
        return;
    }
    if args.get(1).map(|s| s.as_str()) == Some("dump") {
        // c10 dump <buffer>: the valid buffer, printable bytes as text
        let b = valid_buffer(args[2].parse().unwrap());
        println!("{} bytes: {}", b.len(), b.iter().map(|c| if c.is_ascii_graphic() || *c == b' ' { (*c as char).to_string() } else { format!("\\x{:02x}", c) }).collect::<String>());
        return;
    }
    if args.get(1).map(|s| s.as_str()) == Some("describe") {
        // c10 describe <buffer> <substring>: print the indices of the faults whose description matches
        let b: usize = args[2].parse().unwrap();
        let f = Faults::new(valid_buffer(b), true);
        for i in 0..f.total() {
            let (d, _) = f.make(i);
            if d.contains(&args[3]) {
                println!("{} {}", i, d);
            }
        }
        return;
    }
    vh::run_main("C10", check, replay)
}
