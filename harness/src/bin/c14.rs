//! C14 — removeparam rewrites remove exactly the named parameters and nothing else.
//! BX: every query/fragment string up to a length bound over {?,#,&,=,a,b,é} appended to a fixed
//! URL x every set of <= 3 rules of a 6-rule pool x request types x initiators, on real engines;
//! oracle = 25-line string surgery (`vh::oracle::netspec::spec_removeparam`) + the precedence
//! combiner. DESIGN §4 C14.

use adblock::request::Request;
use adblock::Engine;
use serde_json::{json, Value};
use std::cell::RefCell;
use std::collections::HashSet;
use vh::oracle::netspec::{self as ns, Rule};
use vh::util::{count_strings_upto, nth_string};
use vh::{run_main, Ctx, Local, Mismatch};

const SIGMA: [&str; 7] = ["?", "#", "&", "=", "a", "b", "é"];
/// second alphabet, explored one symbol shallower: an upper-case key (parameter names are
/// compared exactly), and a multi-character key that gives a pattern-less removeparam rule an
/// index token
const SIGMA2: [&str; 9] = ["?", "#", "&", "=", "a", "b", "é", "A", "utm"];
const POOL: [&str; 12] = [
    "*$removeparam=a",
    "*$removeparam=b",
    "||x.com^$removeparam=a,image",
    "*$removeparam=a,domain=y.com",
    "||x.com^$important",
    "@@||x.com^",
    "||x.com^",
    "$removeparam=utm",
    "*$removeparam=b,~xhr",
    "*$removeparam=a,script,~image",
    // `important` on a removeparam rule does not make it a blocking rule
    "*$removeparam=b,important",
    // removeparam next to another value-carrying modifier: the parser refuses the line; whether it
    // counts as absent or as a removeparam rule for ITS parameter (`a`) is not pinned - it never
    // removes the other option's value (`b`)
    "*$removeparam=a,redirect-rule=b",
];
const TWO_MODIFIERS: &str = "*$removeparam=a,redirect-rule=b";

/// Independent applicability of the pool's removeparam rules (written from the option semantics,
/// not taken from the real matcher): the parameter a rule removes if it applies to (type, source).
/// Every request of this check goes to host x.com.
fn removes(rule: &str, ty: &str, src: &str) -> Option<&'static str> {
    let default_types = ["document", "subdocument", "xhr"];
    match rule {
        "*$removeparam=a" if default_types.contains(&ty) => Some("a"),
        "*$removeparam=b" | "*$removeparam=b,important" if default_types.contains(&ty) => Some("b"),
        "||x.com^$removeparam=a,image" if ty == "image" => Some("a"),
        "*$removeparam=a,domain=y.com" if default_types.contains(&ty) && src.contains("://y.com") => Some("a"),
        "$removeparam=utm" if default_types.contains(&ty) => Some("utm"),
        "*$removeparam=b,~xhr" if ty == "document" || ty == "subdocument" => Some("b"),
        // a positive type list is exhaustive; a negated type next to it cannot add request types
        // (in particular not the removeparam defaults document / subdocument / xhr)
        "*$removeparam=a,script,~image" if ty == "script" => Some("a"),
        _ => None,
    }
}
const TYPES: [&str; 5] = ["xhr", "document", "subdocument", "image", "script"];
const SOURCES: [&str; 2] = ["https://x.com/", "https://y.com/"];
const BASE: &str = "https://x.com/p";

fn rule_sets(max: usize) -> Vec<Vec<&'static str>> {
    // every set of <= max rules, plus four sets of three in which two rules that can apply to the
    // same request name the same parameter and a third names another one (the thorough tier has
    // every set of three anyway)
    let mut v: Vec<Vec<&'static str>> = vh::util::subsets_of(&POOL).into_iter().filter(|s| s.len() <= max).collect();
    if max < 3 {
        v.push(vec!["*$removeparam=a", "*$removeparam=a,domain=y.com", "*$removeparam=b"]);
        v.push(vec!["*$removeparam=b", "*$removeparam=b,important", "*$removeparam=a"]);
        v.push(vec!["*$removeparam=b", "*$removeparam=b,~xhr", "$removeparam=utm"]);
        v.push(vec!["*$removeparam=a", "*$removeparam=a,domain=y.com", "$removeparam=utm"]);
    }
    v
}

struct Subject {
    texts: Vec<&'static str>,
    engine: Engine,
    rules: Vec<Rule>,
}

fn build(texts: &[&'static str]) -> Subject {
    Subject { texts: texts.to_vec(), engine: vh::net::engine(texts, true, false), rules: ns::parse_rules(texts, &[]) }
}

thread_local! {
    static SUBJECTS: RefCell<Option<Vec<Subject>>> = const { RefCell::new(None) };
}

fn classify(field: &str, url: &str) -> String {
    let cause = match url.find('#') {
        Some(h) if url[h..].contains('?') && !url[..h].contains('?') => ".question-mark-only-inside-fragment",
        Some(h) if url[h..].contains('?') => ".question-mark-also-inside-fragment",
        _ => "",
    };
    format!("c14.{}{}", field, cause)
}

fn check_one(s: &Subject, suffix: &str, ty: &str, src: &str, l: &mut Local) {
    check_one_at(BASE, s, suffix, ty, src, l)
}

/// Spellings of the part before the query that a URL parser normalises (scheme case,
/// empty userinfo, default port, IDN label): the rewritten URL keeps the caller's spelling.
/// Every one of them denotes host x.com or a sub-domain, so rule applicability is unchanged.
const BASES: [&str; 6] = ["HTTPS://x.com/p", "https://u:@x.com/p", "https://@x.com/p", "https://x.com:443/p", "https://b\u{fc}cher.x.com/p", "https://x.com/P%41/../p"];

fn check_one_at(base: &str, s: &Subject, suffix: &str, ty: &str, src: &str, l: &mut Local) {
    let url = format!("{}{}", base, suffix);
    let req = match Request::new(&url, src, ty) {
        Ok(r) => r,
        Err(_) => {
            l.hist("request-rejected");
            return;
        }
    };
    l.evaluations += 1;
    l.transitions += 1;
    let tags = HashSet::new();
    let store = [];
    let (d, spec, got) = ns::compare_engine(&s.engine, &s.rules, &tags, &req, &url, &store);
    l.compared += 1;
    let rewrote = got.as_ref().map(|g| g.rewritten.is_some()).unwrap_or(false);
    if rewrote {
        l.nontrivial += 1;
    }
    l.hist(match (&got, rewrote) {
        (None, _) => "panic",
        (Some(g), true) if g.matched => "rewritten+blocked",
        (Some(_), true) => "rewritten",
        (Some(g), false) if g.important => "important-no-rewrite",
        (Some(g), false) if g.matched => "blocked-no-rewrite",
        (Some(g), false) if g.exception => "excepted-no-rewrite",
        _ => "untouched",
    });
    // second, fully independent expectation for the rewritten URL: which rules apply is decided by
    // `removes` above, not by the real matcher
    if let Some(g) = &got {
        let names: Vec<String> = s.texts.iter().filter_map(|r| removes(r, ty, src)).map(|n| n.to_string()).collect();
        let blocked_important = s.texts.contains(&"||x.com^$important");
        let exp = if blocked_important { None } else { ns::spec_removeparam(&url, &names) };
        // the second admissible reading of a two-modifier line: a removeparam rule for its own name
        let exp2 = if s.texts.contains(&TWO_MODIFIERS) && !blocked_important && ["document", "subdocument", "xhr"].contains(&ty) {
            let mut n2 = names.clone();
            n2.push("a".to_string());
            ns::spec_removeparam(&url, &n2)
        } else {
            exp.clone()
        };
        l.compared += 1;
        if g.rewritten != exp && g.rewritten != exp2 {
            l.mismatch(Mismatch {
                sig: classify("rewritten-url.rule-applicability", &url),
                what: format!("rules {:?} url {:?} type {} source {}: option semantics say the rewrite is {:?}, engine gave {:?}", s.texts, url, ty, src, exp, g.rewritten),
                case: json!({"rules": s.texts, "base": base, "suffix": suffix, "type": ty, "source": src}),
                size: (suffix.len() * 10 + s.texts.len()) as u64,
            });
        }
    }
    if let Some(field) = d {
        l.mismatch(Mismatch {
            sig: classify(&field, &url),
            what: format!(
                "rules {:?} url {:?} type {} source {}: expected {:?}, engine gave {:?}",
                s.texts, url, ty, src, spec.verdict.rewritten, got.as_ref().map(|g| &g.rewritten)
            ),
            case: json!({"rules": s.texts, "base": base, "suffix": suffix, "type": ty, "source": src}),
            size: (suffix.len() * 10 + s.texts.len()) as u64,
        });
    }
}

use vh::alpha::{type_option_lists, TYPE_REQS};

/// A removeparam rule with a list of request-type options applies to exactly the listed types; with
/// negated types only (or none) to the removeparam defaults document / subdocument / xhr minus the
/// negated ones. Written from the option semantics; the real matcher is not consulted.
fn check_type_options(idx: u64, l: &mut Local) {
    let lists = type_option_lists();
    let (opts, pos, neg) = &lists[(idx / 4) as usize % lists.len()];
    let pattern = if idx & 1 == 0 { "*" } else { "||x.com^" };
    let rule = match (opts.is_empty(), idx & 2 == 0) {
        (true, _) => format!("{}$removeparam=a", pattern),
        (false, true) => format!("{}$removeparam=a,{}", pattern, opts),
        (false, false) => format!("{}${},removeparam=a", pattern, opts),
    };
    let e = vh::net::engine(&[rule.as_str()], true, false);
    l.states += 1;
    let url = "https://x.com/p?a=1&c=2";
    for (ty, c) in TYPE_REQS {
        for src in SOURCES {
            let req = match Request::new(url, src, ty) {
                Ok(r) => r,
                Err(_) => continue,
            };
            l.evaluations += 1;
            l.transitions += 1;
            l.compared += 1;
            let applies = if pos.is_empty() { ["document", "subdocument", "xmlhttprequest"].contains(&c) && !neg.contains(&c) } else { pos.contains(&c) && !neg.contains(&c) };
            let exp = if applies { Some("https://x.com/p?c=2".to_string()) } else { None };
            let got = std::panic::catch_unwind(std::panic::AssertUnwindSafe(|| e.check_network_request(&req).rewritten_url));
            match &got {
                Ok(Some(_)) => {
                    l.nontrivial += 1;
                    l.hist("rewritten")
                }
                Ok(None) => l.hist("untouched"),
                Err(_) => l.hist("panic"),
            }
            if got.as_ref().ok() != Some(&exp) {
                l.mismatch(Mismatch {
                    sig: format!("c14.type-options.{}", if applies { "missing-rewrite" } else { "rewrite-outside-the-listed-types" }),
                    what: format!("rule {:?} request type {} source {}: expected {:?}, engine gave {:?}", rule, ty, src, exp, got.ok()),
                    case: json!({"type_options_index": idx}),
                    size: rule.len() as u64,
                });
            }
        }
    }
}

/// Rules arriving on a live blocker: `Blocker::new([r1])`, a first round of queries, then
/// `add_filter(r2)` (and `add_filter(r3)`), then the queries again. After every step the rewrite is
/// the one of the rules loaded so far (expectation from `removes`, the option semantics).
fn check_incremental(idx: u64, l: &mut Local) {
    use adblock::blocker::{Blocker, BlockerOptions};
    use adblock::filters::network::NetworkFilter;
    let rp: Vec<&'static str> = POOL.iter().copied().filter(|r| r.contains("removeparam")).collect();
    let n = rp.len() as u64;
    let (a, b, c) = ((idx % n) as usize, (idx / n % n) as usize, (idx / n / n) as usize);
    // c == n: no third rule
    let mut order: Vec<&'static str> = vec![rp[a], rp[b]];
    if c < rp.len() {
        order.push(rp[c]);
    }
    if order[0] == order[1] || (order.len() == 3 && (order[2] == order[0] || order[2] == order[1])) {
        return;
    }
    let parse = |r: &str| NetworkFilter::parse(r, true, Default::default()).ok();
    let res = adblock::resources::ResourceStorage::default();
    let built = vh::util::catch(|| Blocker::new(parse(order[0]).into_iter().collect(), &BlockerOptions { enable_optimizations: idx % 2 == 0 }));
    let mut blocker = match built {
        Ok(b) => b,
        Err(_) => return,
    };
    l.states += 1;
    let suffixes = ["?a=1", "?b=1", "?a=1&b=2", "?utm=1&a=2", "?c=3&utm=4", "?c=3"];
    for step in 0..=order.len() {
        if step == order.len() {
            // last step: the explicit optimisation of the live blocker (the removeparam rules must
            // come out of it one by one, each with its own parameter name)
            blocker.optimize();
        } else if step > 0 {
            if let Some(f) = parse(order[step]) {
                let _ = blocker.add_filter(f);
            }
        }
        let loaded = &order[..=step.min(order.len() - 1)];
        for suffix in suffixes {
            for ty in TYPES {
                for src in SOURCES {
                    let url = format!("{}{}", BASE, suffix);
                    let req = match Request::new(&url, src, ty) {
                        Ok(r) => r,
                        Err(_) => continue,
                    };
                    l.evaluations += 1;
                    l.transitions += 1;
                    l.compared += 1;
                    let names: Vec<String> = loaded.iter().filter_map(|r| removes(r, ty, src)).map(|n| n.to_string()).collect();
                    let exp = ns::spec_removeparam(&url, &names);
                    let got = vh::util::catch(|| blocker.check(&req, &res).rewritten_url);
                    if exp.is_some() {
                        l.nontrivial += 1;
                    }
                    if got.as_ref().ok() != Some(&exp) {
                        l.mismatch(Mismatch {
                            sig: format!("c14.incremental.step{}", step),
                            what: format!("blocker built from {:?}, then add_filter of {:?}; after step {} request {} ({}, {}): expected {:?}, got {:?}", order[0], &order[1..], step, url, ty, src, exp, got),
                            case: json!({"incremental_index": idx}),
                            size: idx,
                        });
                        return;
                    }
                }
            }
        }
    }
}

fn replay(case: &Value, l: &mut Local) {
    if let Some(i) = case["incremental_index"].as_u64() {
        return check_incremental(i, l);
    }
    if let Some(i) = case["type_options_index"].as_u64() {
        return check_type_options(i, l);
    }
    let texts: Vec<&'static str> = case["rules"]
        .as_array()
        .map(|a| a.iter().filter_map(|v| v.as_str()).filter_map(|t| POOL.iter().find(|p| **p == t).copied()).collect())
        .unwrap_or_default();
    let s = build(&texts);
    check_one_at(
        case["base"].as_str().unwrap_or(BASE),
        &s,
        case["suffix"].as_str().unwrap_or(""),
        case["type"].as_str().unwrap_or("xhr"),
        case["source"].as_str().unwrap_or(SOURCES[0]),
        l,
    );
}

fn check(ctx: &Ctx) -> i32 {
    let n: u32 = ctx.tier.pick(6, 8);
    let max_rules: usize = ctx.tier.pick(2, 3);
    let sets = rule_sets(max_rules);
    ctx.bound("suffix_max_len", n);
    ctx.bound("suffix_alphabet", json!(SIGMA));
    ctx.bound("rule_sets", sets.len());
    ctx.bound("types", json!(TYPES));
    ctx.bound("sources", json!(SOURCES));
    let total = count_strings_upto(SIGMA.len() as u64, n);
    ctx.par_range("suffixes", total, 256, |i, l| {
        let suffix = nth_string(i, &SIGMA);
        SUBJECTS.with(|cell| {
            let mut b = cell.borrow_mut();
            if b.is_none() {
                let v: Vec<Subject> = rule_sets(max_rules).iter().map(|t| build(t)).collect();
                l.states += v.len() as u64;
                *b = Some(v);
            }
            let subjects = b.as_ref().unwrap();
            if l.samples.len() < 3 && (i + ctx.seed) % 40009 == 7 {
                l.samples.push(json!({"url": format!("{}{}", BASE, suffix), "rule_sets": subjects.len(), "types": TYPES, "sources": SOURCES}));
            }
            // (thorough tier: sets of two and three rules are run on suffixes one symbol shorter than
            // the longest ones; the full product does not fit the tier's time cap)
            let longest = max_rules > 2 && suffix.chars().count() as u32 == n;
            for s in subjects {
                if longest && s.texts.len() > 1 {
                    continue;
                }
                for ty in TYPES {
                    for src in SOURCES {
                        check_one(s, &suffix, ty, src, l);
                    }
                }
            }
        });
    });
    // (quick: one symbol shallower than the first sweep; thorough: two, the alphabet is larger)
    let n2 = n - ctx.tier.pick(1, 2);
    ctx.bound("second_alphabet", json!(SIGMA2));
    ctx.bound("second_alphabet_suffix_max_len", n2);
    let total2 = count_strings_upto(SIGMA2.len() as u64, n2);
    ctx.par_range("suffixes over the second alphabet", total2, 256, |i, l| {
        let suffix = nth_string(i, &SIGMA2);
        if !(suffix.contains('A') || suffix.contains("utm")) {
            return; // already covered by the first sweep
        }
        SUBJECTS.with(|cell| {
            let mut b = cell.borrow_mut();
            if b.is_none() {
                let v: Vec<Subject> = rule_sets(max_rules).iter().map(|t| build(t)).collect();
                l.states += v.len() as u64;
                *b = Some(v);
            }
            for s in b.as_ref().unwrap() {
                for ty in TYPES {
                    for src in SOURCES {
                        check_one(s, &suffix, ty, src, l);
                    }
                }
            }
        });
    });
    // whole parameters as symbols: every sequence of <= 3 (thorough 4) distinct parameters of a
    // 7-parameter menu (several rule-named parameters with values in one query, which the
    // character-level sweeps only reach at their longest lengths)
    let menu = ["a=1", "b=1", "utm=1", "c=1", "a=", "b", "a=2"];
    let plen: u32 = ctx.tier.pick(3, 4);
    ctx.bound("parameter_menu", json!(menu));
    ctx.bound("parameter_sequences_max_len", plen);
    let nseq = vh::util::count_arrangements_upto(menu.len() as u64, plen);
    ctx.par_range("parameter sequences", nseq, 16, |i, l| {
        let mut idx = vec![];
        vh::util::nth_arrangement(i, menu.len() as u64, &mut idx);
        if idx.is_empty() {
            return;
        }
        let suffix = format!("?{}", idx.iter().map(|&k| menu[k]).collect::<Vec<_>>().join("&"));
        SUBJECTS.with(|cell| {
            let mut b = cell.borrow_mut();
            if b.is_none() {
                let v: Vec<Subject> = rule_sets(max_rules).iter().map(|t| build(t)).collect();
                l.states += v.len() as u64;
                *b = Some(v);
            }
            for s in b.as_ref().unwrap() {
                for ty in TYPES {
                    for src in SOURCES {
                        check_one(s, &suffix, ty, src, l);
                        check_one(s, &format!("{}#f", suffix), ty, src, l);
                    }
                }
            }
        });
    });
    let n3 = n - 2;
    ctx.bound("base_spellings", json!(BASES));
    ctx.bound("base_spellings_suffix_max_len", n3);
    let total3 = count_strings_upto(SIGMA.len() as u64, n3);
    ctx.par_range("suffixes behind other spellings of the base", total3 * BASES.len() as u64, 256, |i, l| {
        let base = BASES[(i % BASES.len() as u64) as usize];
        let suffix = nth_string(i / BASES.len() as u64, &SIGMA);
        SUBJECTS.with(|cell| {
            let mut b = cell.borrow_mut();
            if b.is_none() {
                let v: Vec<Subject> = rule_sets(max_rules).iter().map(|t| build(t)).collect();
                l.states += v.len() as u64;
                *b = Some(v);
            }
            for s in b.as_ref().unwrap() {
                for ty in TYPES {
                    check_one_at(base, s, &suffix, ty, SOURCES[0], l);
                }
            }
        });
    });
    let nrp = POOL.iter().filter(|r| r.contains("removeparam")).count() as u64;
    ctx.par_range("rules added to a live blocker", nrp * nrp * (nrp + 1), 16, |i, l| check_incremental(i, l));
    let nl = type_option_lists().len() as u64;
    ctx.bound("type_option_lists", nl);
    ctx.bound("type_option_request_types", json!(TYPE_REQS.iter().map(|t| t.0).collect::<Vec<_>>()));
    ctx.par_range("type options", nl * 4, 8, |i, l| check_type_options(i, l));
    ctx.finish(
        "model_checking",
        "URL = https://x.com/p + every string of length <= n over {?,#,&,=,a,b,é}; x every subset of <= 2 (quick) / <= 3 (thorough; sets of 2 and 3 on suffixes up to n-1) rules of the 11-rule pool (+ four fixed triples in the quick tier); a second sweep one symbol shallower over the alphabet extended with an upper-case key and the multi-character key `utm` (engines built once per worker thread) x 5 request types x 2 initiators; a third sweep two symbols shallower behind 6 other spellings of the base (scheme case, empty userinfo, default port, IDN label, dot segments: the caller's spelling must survive); a sweep over every ordered pair / triple of the pool's removeparam rules arriving one by one on a live blocker (queries after every step); a sweep over every list of request-type options of a menu (15 spellings alone and negated, ordered pairs of 5 types positive / negated / mixed) before and after `removeparam=a` on 2 patterns x 16 request type strings x 2 initiators, expectation written from the option semantics; non-trivial = the engine reported a rewritten URL; states = engines built, transitions = requests checked, every one compared byte for byte with the reference",
        &["per-rule applicability is taken from the real public matcher (differential), the rewrite itself from the independent reference"],
    )
}

fn main() {
    run_main("C14", check, replay)
}
