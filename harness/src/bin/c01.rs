//! C01 — engine verdict equals rule-by-rule evaluation of the loaded list.
//! BX: all ordered lists of <= k rules of R_net (+ hosts lines) x the tag subsets the list can
//! observe x the request universe U_net, on real engines built without optimisation; oracle =
//! the public per-rule matcher on every parsed rule + the reference combiner
//! (`vh::oracle::netspec`). DESIGN §4 C01.

use adblock::filters::network::NetworkFilterMaskHelper;
use adblock::lists::FilterSet;
use adblock::Engine;
use serde_json::{json, Value};
use std::collections::HashSet;
use vh::alpha::{self, Req};
use vh::oracle::netspec::{self as ns, Rule, SpecOut};
use vh::util::{count_arrangements_upto, nth_arrangement, subsets_of};
use vh::{run_main, Ctx, Local, Mismatch};

fn pool() -> Vec<(&'static str, bool)> {
    alpha::R_NET
        .iter()
        .map(|r| (*r, false))
        .chain(alpha::R_HOSTS.iter().map(|r| (*r, true)))
        .collect()
}

fn build_engine(std_rules: &[&str], hosts: &[&str]) -> Engine {
    let mut fs = FilterSet::new(true);
    fs.add_filters(std_rules, vh::net::opts_std());
    if !hosts.is_empty() {
        fs.add_filters(hosts, vh::net::opts_hosts());
    }
    let mut e = vh::net::engine_from_set(fs, false);
    e.use_resources(vh::net::std_resources());
    e
}

/// Why can the index not find a rule that matches? From public data only.
fn classify(field: &str, spec: &SpecOut, rules: &[Rule], rq: &Req) -> String {
    let probe: HashSet<u64> = rq.req.get_tokens_for_match().copied().collect();
    let http = adblock::utils::fast_hash("http");
    let https = adblock::utils::fast_hash("https");
    let mut causes: Vec<&'static str> = vec![];
    for r in rules.iter().filter(|r| spec.matching.contains(&r.text)) {
        for group in r.f.get_tokens() {
            for t in group {
                if probe.contains(&t) {
                    continue;
                }
                let first_tok = r
                    .f
                    .filter
                    .string_view()
                    .map(|f| adblock::utils::tokenize(&f))
                    .and_then(|v| v.first().copied());
                let c = if t == http || t == https {
                    "protocol-token-not-in-request"
                } else if r.f.opt_domains.as_ref().map(|d| d.contains(&t)).unwrap_or(false) {
                    if rq.req.source_hostname_hashes.is_none() {
                        "domain-token-with-absent-initiator"
                    } else {
                        "domain-token"
                    }
                } else if !r.f.is_left_anchor() && !r.f.is_hostname_anchor() && Some(t) == first_tok {
                    "first-token-of-unanchored-pattern"
                } else {
                    "other-token"
                };
                if !causes.contains(&c) {
                    causes.push(c);
                }
            }
        }
    }
    causes.sort();
    if causes.is_empty() {
        format!("c01.{}", field)
    } else {
        format!("c01.{}.unprobed:{}", field, causes.join("+"))
    }
}

fn check_list(items: &[(&'static str, bool)], reqs: &[Req], l: &mut Local, sample: bool) {
    let std_rules: Vec<&str> = items.iter().filter(|i| !i.1).map(|i| i.0).collect();
    let hosts: Vec<&str> = items.iter().filter(|i| i.1).map(|i| i.0).collect();
    let rules = ns::parse_rules(&std_rules, &hosts);
    let mut e = build_engine(&std_rules, &hosts);
    l.states += 1;
    let store = ns::std_res_spec();
    let tags_present = alpha::tags_in(&std_rules);
    if sample {
        l.samples.push(json!({"list": std_rules, "hosts_lines": hosts, "tag_subsets_of": tags_present, "requests": reqs.len(), "first_request": [reqs[0].url, reqs[0].source, reqs[0].ty]}));
    }
    for tagset in subsets_of(&tags_present) {
        let tagrefs: Vec<&str> = tagset.iter().map(|s| s.as_str()).collect();
        e.use_tags(&tagrefs);
        let tags: HashSet<String> = tagset.iter().cloned().collect();
        let active = ns::active_rules_by_text(&rules, &tags);
        for rq in reqs {
            l.evaluations += 1;
            l.transitions += 1;
            let (d, spec, got) = ns::compare_engine_active(&e, &active, &rq.req, &rq.url, &store);
            l.compared += 1;
            if spec.verdict.hits > 0 {
                l.nontrivial += 1;
                if spec.verdict.hits > 1 {
                    l.count("requests_hit_by_two_or_more_rules", 1);
                }
            }
            if let Some(g) = &got {
                if spec.verdict.hits > 0 || g.matched {
                    l.hist(&g.short());
                }
            }
            if let Some(field) = d {
                l.mismatch(Mismatch {
                    sig: classify(&field, &spec, &rules, rq),
                    what: format!(
                        "list {:?}+{:?} tags {:?} request ({}, {}, {}): matching rules {:?}; reference {:?}; engine {:?}",
                        std_rules, hosts, tagset, rq.url, rq.source, rq.ty, spec.matching, spec.verdict, got
                    ),
                    case: json!({"rules": std_rules, "hosts": hosts, "tags": tagset, "url": rq.url, "source": rq.source, "type": rq.ty}),
                    size: (items.len() * 10000 + tagset.len() * 1000 + rq.url.len() * 4 + rq.source.len()) as u64,
                });
            }
        }
    }
}

fn replay(case: &Value, l: &mut Local) {
    let strs = |k: &str| -> Vec<String> {
        case[k].as_array().map(|a| a.iter().filter_map(|v| v.as_str().map(|s| s.to_string())).collect()).unwrap_or_default()
    };
    let rules_s = strs("rules");
    let hosts_s = strs("hosts");
    // leak: replay handles a single case, and the alphabets are &'static str
    let mut items: Vec<(&'static str, bool)> = vec![];
    for r in rules_s {
        items.push((Box::leak(r.into_boxed_str()), false));
    }
    for r in hosts_s {
        items.push((Box::leak(r.into_boxed_str()), true));
    }
    let url = case["url"].as_str().unwrap_or("").to_string();
    let source = case["source"].as_str().unwrap_or("").to_string();
    let ty: &'static str = Box::leak(case["type"].as_str().unwrap_or("script").to_string().into_boxed_str());
    if let Ok(req) = adblock::request::Request::new(&url, &source, ty) {
        let reqs = vec![Req { req, url, source, ty }];
        check_list(&items, &reqs, l, false);
    }
}

fn check(ctx: &Ctx) -> i32 {
    let pool = pool();
    vh::util::assert_no_hash_collisions(
        ["ads", "foo", "bar", "loads", "foo1bar", "adserver", "net", "example", "com", "tracker", "co", "uk", "http", "https", "www", "baz", "xbar", "js", "utm", "x", "b", "evil", "xads", "sub", "unrelated", "org", "page", "ads.net", "example.com", "tracker.co.uk"],
    );
    let k: u32 = ctx.tier.pick(2, 3);
    let reqs = alpha::requests(false, false);
    ctx.bound("list_max_len", k);
    ctx.bound("rule_pool", pool.len());
    ctx.bound("requests", reqs.len());
    let n = count_arrangements_upto(pool.len() as u64, k);
    ctx.par_range("lists", n, 4, |i, l| {
        let mut idx = vec![];
        nth_arrangement(i, pool.len() as u64, &mut idx);
        let items: Vec<(&'static str, bool)> = idx.iter().map(|&j| pool[j]).collect();
        let sample = l.samples.len() < 2 && (i + ctx.seed) % 577 == 3;
        check_list(&items, &reqs, l, sample);
    });
    if ctx.tier == vh::Tier::Thorough {
        // lists of <= 2 rules against the full request cross (all URLs x all initiators x all type aliases)
        let full = alpha::requests(true, true);
        ctx.bound("requests_full_cross", full.len());
        let n2 = count_arrangements_upto(pool.len() as u64, 2);
        ctx.par_range("lists<=2 x full request cross", n2, 1, |i, l| {
            let mut idx = vec![];
            nth_arrangement(i, pool.len() as u64, &mut idx);
            let items: Vec<(&'static str, bool)> = idx.iter().map(|&j| pool[j]).collect();
            check_list(&items, &full, l, false);
        });
    }
    ctx.finish(
        "model_checking",
        "all ordered lists without repetition of <= k rules of the 50-entry pool (R_net + 2 hosts lines), each built into a real engine (no optimisation), under every subset of the tags the list mentions, against every request of U_net x (initiator,type); non-trivial = at least one rule of the list matches the request per the public matcher; states = engines built, transitions = requests checked, each compared field by field (matched, important, exception, redirect, rewritten URL, CSP set) with the reference combiner",
        &[
            "per-rule match = the public NetworkFilter::matches on the parsed rule (differential); precedence, badfilter, tags, redirect choice, removeparam and CSP come from the independent reference",
            "no 64-bit seahash collision among the strings of the alphabets (checked at start-up)",
        ],
    )
}

fn main() {
    run_main("C01", check, replay)
}
