//! C01 — engine verdict equals rule-by-rule evaluation of the loaded list.
//! BX: all ordered lists of <= k rules of R_net (+ hosts lines) x the tag subsets the list can
//! observe x the request universe U_net, on real engines built without optimisation; oracle =
//! the public per-rule matcher on every parsed rule + the reference combiner
//! (`vh::oracle::netspec`). DESIGN §4 C01.

use serde_json::Value;
use vh::alpha;
use vh::util::{count_arrangements_upto, nth_arrangement};
use vh::{run_main, Ctx, Local};

fn pool() -> Vec<(&'static str, bool)> {
    alpha::R_NET
        .iter()
        .map(|r| (*r, false))
        .chain(alpha::R_HOSTS.iter().map(|r| (*r, true)))
        .collect()
}

// ---- corpus sweep: a frozen slice of real rules, loaded as ONE list -----------------------------

const CORPUS: &str = include_str!("../../corpus/real-rules.txt");

fn corpus_rules() -> Vec<&'static str> {
    CORPUS.lines().map(|l| l.trim()).filter(|l| !l.is_empty()).collect()
}

/// URLs derived from one rule's pattern by a fixed procedure (`*` -> "x1", `^` -> "/"), in the
/// contexts that matter to the token index: the pattern's first / last token as a whole URL token,
/// as the tail of a longer token, as the head of a longer token, inside a query string; for `||`
/// rules the host itself, a sub-domain, and a host that merely ends with the same text.
fn derive_urls(rule: &str, full: bool) -> Vec<String> {
    let r = rule.strip_prefix("@@").unwrap_or(rule);
    let body = match r.rfind('$') {
        Some(i) if i > 0 && !r[i + 1..].contains('/') => &r[..i],
        _ => r,
    };
    if body.len() > 1 && body.starts_with('/') && body.ends_with('/') {
        return vec![]; // full regex: not instantiated (the rule still takes part in the list)
    }
    let inst = |s: &str| s.replace('*', "x1").replace('^', "/").replace(' ', "");
    let mut out = vec![];
    if let Some(rest) = body.strip_prefix("||") {
        let rest = rest.strip_suffix('|').unwrap_or(rest);
        let cut = rest.find(|c| c == '/' || c == '^' || c == '*').unwrap_or(rest.len());
        let (host, tail) = (&rest[..cut], inst(&rest[cut..]));
        if host.is_empty() || !host.is_ascii() {
            return out;
        }
        let tail = if tail.starts_with('/') || tail.is_empty() { tail } else { format!("/{}", tail) };
        out.push(format!("https://{}{}", host, tail));
        out.push(format!("https://sub.{}{}", host, tail));
        out.push(format!("https://x{}{}", host, tail));
        out.push(format!("http://{}{}?a=1", host, if tail.is_empty() { "/".to_string() } else { tail.clone() }));
        if full {
            out.push(format!("https://{}.evil.test{}", host, tail));
            out.push(format!("wss://{}{}", host, tail));
            out.push(format!("https://{}{}x", host, tail));
        }
    } else if let Some(rest) = body.strip_prefix('|') {
        let rest = rest.strip_suffix('|').unwrap_or(rest);
        let u = inst(rest);
        if u.starts_with("http") || u.starts_with("ws") {
            out.push(u.clone());
            out.push(format!("{}x", u));
            if full {
                out.push(format!("{}/y?z=1", u));
            }
        }
    } else {
        let rest = body.strip_suffix('|').unwrap_or(body);
        let b = inst(rest);
        if b.is_empty() || !b.is_ascii() {
            return out;
        }
        let lead = if b.starts_with('/') || b.starts_with('.') || b.starts_with('?') || b.starts_with('&') || b.starts_with('-') || b.starts_with('_') { "" } else { "/" };
        out.push(format!("https://site.test{}{}", lead, b));
        out.push(format!("https://site.test/lo{}", b.trim_start_matches('/')));
        out.push(format!("https://site.test{}{}x", lead, b));
        out.push(format!("https://site.test/p?q={}", b));
        if full {
            out.push(format!("http://a.site.test{}{}/z", lead, b));
            out.push(format!("https://site.test{}{}", lead, b.to_ascii_uppercase()));
        }
    }
    out.retain(|u| u.len() < 300);
    out
}

fn first_domain_option(rule: &str) -> Option<String> {
    let opts = rule.rsplit_once('$')?.1;
    for o in opts.split(',') {
        if let Some(v) = o.strip_prefix("domain=").or_else(|| o.strip_prefix("from=")) {
            return v.split('|').find(|d| !d.starts_with('~') && !d.is_empty()).map(|d| format!("https://{}/", d));
        }
    }
    None
}

struct CorpusSubject {
    engine: adblock::Engine,
    rules: Vec<vh::oracle::netspec::Rule>,
}

thread_local! {
    static CORPUS_SUBJECT: std::cell::RefCell<Option<CorpusSubject>> = const { std::cell::RefCell::new(None) };
}

fn corpus_check(rule_idx: usize, full: bool, l: &mut Local) {
    use vh::oracle::netspec as ns;
    let all = corpus_rules();
    CORPUS_SUBJECT.with(|cell| {
        let mut b = cell.borrow_mut();
        if b.is_none() {
            let engine = vh::netsweep::build_engine(&all, &[], false, true);
            let rules = ns::parse_rules(&all, &[]);
            l.states += 1;
            l.count("corpus_rules_parsed", rules.len() as u64);
            *b = Some(CorpusSubject { engine, rules });
        }
        let subj = b.as_ref().unwrap();
        let tags = std::collections::HashSet::new();
        let active = ns::active_rules_by_text(&subj.rules, &tags);
        let store = ns::std_res_spec();
        let rule = all[rule_idx];
        let mut sources = vec!["https://site.test/".to_string(), "https://other.example/".to_string(), String::new()];
        if let Some(d) = first_domain_option(rule) {
            sources.push(d);
        }
        let types: &[&'static str] = if full { &["script", "image", "subdocument", "xmlhttprequest", "document", "websocket", "other"] } else { &["script", "image", "subdocument"] };
        for url in derive_urls(rule, full) {
            for src in &sources {
                for ty in types {
                    let req = match adblock::request::Request::new(&url, src, ty) {
                        Ok(r) => r,
                        Err(_) => continue,
                    };
                    l.evaluations += 1;
                    l.transitions += 1;
                    let (d, spec, got) = ns::compare_engine_active(&subj.engine, &active, &req, &url, &store);
                    l.compared += 1;
                    if spec.verdict.hits > 0 {
                        l.nontrivial += 1;
                    }
                    if let Some((g, csp)) = &got {
                        l.hist(&format!("corpus:{}{}", g.short(), if csp.is_some() { "C" } else { "-" }));
                    }
                    if let Some(field) = d {
                        // minimal responsible sub-list: the matching rules
                        let rq = alpha::Req { req, url: url.clone(), source: src.clone(), ty };
                        l.mismatch(vh::Mismatch {
                            sig: vh::netsweep::classify("c01.corpus", &field, &spec, &subj.rules, &rq),
                            what: format!("corpus list ({} rules), request ({}, {}, {}) derived from rule {:?}: matching rules {:?}; reference {:?}; engine {:?}", all.len(), url, src, ty, rule, spec.matching, spec.verdict, got),
                            case: serde_json::json!({"kind": "corpus", "rule_idx": rule_idx, "url": url, "source": src, "type": ty, "matching": spec.matching}),
                            size: (1_000_000 + url.len()) as u64,
                        });
                    }
                }
            }
        }
    });
}

// ---- bucket forcing: make every indexable token of a rule the rarest one in turn ---------------

/// Text tokens (maximal runs of alphanumerics / '%', length >= 2) of the rule's pattern part, and
/// the domains of a `domain=` option.
fn text_tokens(rule: &str) -> (Vec<String>, Vec<String>) {
    let r = rule.strip_prefix("@@").unwrap_or(rule);
    let (body, opts) = match r.rfind('$') {
        Some(i) => (&r[..i], &r[i + 1..]),
        None => (r, ""),
    };
    let mut toks = vec![];
    let mut cur = String::new();
    for c in body.to_ascii_lowercase().chars().chain(std::iter::once('/')) {
        if c.is_alphanumeric() || c == '%' {
            cur.push(c);
        } else {
            if cur.chars().count() >= 2 && !toks.contains(&cur) {
                toks.push(cur.clone());
            }
            cur.clear();
        }
    }
    let mut doms = vec![];
    for o in opts.split(',') {
        if let Some(v) = o.strip_prefix("domain=") {
            doms.extend(v.split('|').filter(|d| !d.starts_with('~')).map(|d| d.to_string()));
        }
    }
    (toks, doms)
}

/// For one rule: one list per indexable token t of the rule, consisting of the rule plus two
/// filler rules for every *other* indexable token (so that t is the rarest and the rule is stored
/// in t's bucket).
fn forced_lists(rule: &'static str) -> Vec<(String, Vec<String>)> {
    use vh::oracle::netspec as ns;
    let parsed = ns::parse_rules(&[rule], &[]);
    let f = match parsed.first() {
        Some(r) => &r.f,
        None => return vec![],
    };
    let groups = f.get_tokens();
    let (toks, doms) = text_tokens(rule);
    // (text, is_domain) of every token the rule can be indexed under
    let mut indexable: Vec<(String, bool)> = vec![];
    for g in &groups {
        for h in g {
            if let Some(t) = toks.iter().find(|t| adblock::utils::fast_hash(t) == *h) {
                if !indexable.iter().any(|x| x.0 == *t) {
                    indexable.push((t.clone(), false));
                }
            } else if let Some(d) = doms.iter().find(|d| adblock::utils::fast_hash(d) == *h) {
                if !indexable.iter().any(|x| x.0 == *d) {
                    indexable.push((d.clone(), true));
                }
            }
        }
    }
    let mut out = vec![];
    if indexable.len() < 2 {
        return out;
    }
    for (ti, target) in indexable.iter().enumerate() {
        let mut list = vec![rule.to_string()];
        let mut k = 0;
        for (ui, (u, is_dom)) in indexable.iter().enumerate() {
            if ui == ti {
                continue;
            }
            for _ in 0..2 {
                k += 1;
                list.push(if *is_dom { format!("/zzfiller{}/$domain={}", k, u) } else { format!("/{}/zzfiller{}/", u, k) });
            }
        }
        out.push((target.0.clone(), list));
    }
    out
}

fn replay(case: &Value, l: &mut Local) {
    if case["kind"].as_str() == Some("corpus") {
        corpus_check(case["rule_idx"].as_u64().unwrap_or(0) as usize, true, l);
        return;
    }
    vh::netsweep::replay_case("c01", case, l, true);
}

fn check(ctx: &Ctx) -> i32 {
    let pool = pool();
    vh::util::assert_no_hash_collisions(
        ["ads", "foo", "bar", "loads", "foo1bar", "adserver", "net", "example", "com", "tracker", "co", "uk", "http", "https", "www", "baz", "xbar", "js", "utm", "x", "b", "evil", "xads", "sub", "unrelated", "org", "page", "ads.net", "example.com", "tracker.co.uk"],
    );
    let k: u32 = ctx.tier.pick(2, 3);
    let reqs = alpha::requests(false, false);
    ctx.bound("list_max_len", k);
    ctx.bound("rule_pool", pool.len());
    ctx.bound("requests", reqs.len());
    let n = count_arrangements_upto(pool.len() as u64, k);
    ctx.par_range("lists", n, 4, |i, l| {
        let mut idx = vec![];
        nth_arrangement(i, pool.len() as u64, &mut idx);
        let items: Vec<(&'static str, bool)> = idx.iter().map(|&j| pool[j]).collect();
        let sample = l.samples.len() < 2 && (i + ctx.seed) % 577 == 3;
        vh::netsweep::check_list("c01", &items, &reqs, l, sample, true);
        // second route into the same index: the rules handed to an empty blocker one by one
        if items.len() <= 2 {
            vh::netsweep::check_list_incremental("c01", &items, &reqs, l, true, i % 2 == 1);
        }
    });
    // category triples: one blocking rule x one exception x one modifier rule (redirect, csp,
    // removeparam): the shortest lists on which every stage of the verdict pipeline has work to do
    let is_mod = |r: &str| ["redirect=", "redirect-rule=", "csp=", "removeparam="].iter().any(|m| r.contains(m));
    let cat_e: Vec<&'static str> = alpha::R_NET.iter().copied().filter(|r| r.starts_with("@@")).collect();
    let cat_m: Vec<&'static str> = alpha::R_NET.iter().copied().filter(|r| !r.starts_with("@@") && is_mod(r)).collect();
    let cat_b: Vec<&'static str> = alpha::R_NET.iter().copied().filter(|r| !r.starts_with("@@") && !is_mod(r) && !r.contains("badfilter")).collect();
    ctx.bound("category_triples", serde_json::json!({"blocking": cat_b.len(), "exceptions": cat_e.len(), "modifiers": cat_m.len()}));
    let (nb, ne, nm) = (cat_b.len() as u64, cat_e.len() as u64, cat_m.len() as u64);
    ctx.par_range("category triples", nb * ne * nm, 2, |i, l| {
        let items = [(cat_b[(i / (ne * nm)) as usize], false), (cat_e[((i / nm) % ne) as usize], false), (cat_m[(i % nm) as usize], false)];
        // alternately on an engine built without and with rule optimisation (the public
        // constructors optimise by default; equivalence of the two is C05's subject, this sweep
        // only makes sure the per-rule oracle is also put to optimised engines)
        vh::netsweep::check_list_opt("c01", &items, &reqs, l, false, true, i % 2 == 1);
    });
    // shared domain buckets: a pattern-less rule with several initiator domains is filed once per
    // domain, next to every subset of rules that one of those buckets owns alone; both build modes
    let shared = ["*$script,domain=example.com|ads.net", "$image,domain=example.com|tracker.co.uk", "@@*$script,domain=example.com|ads.net", "*$csp=d1,domain=example.com|ads.net"];
    let owned = ["/foo$image,domain=example.com", "/bar$image,domain=example.com", "ads$script,domain=example.com", "*$font,domain=example.com", "@@/foo$script,domain=example.com"];
    ctx.bound("shared_domain_buckets", serde_json::json!({"shared_rules": shared, "bucket_owned_rules": owned}));
    ctx.par_range("shared domain buckets", ((shared.len() as u64) << owned.len()) * 2, 2, |i, l| {
        let optimize = i % 2 == 1;
        let j = i / 2;
        let mut items: Vec<(&str, bool)> = owned.iter().enumerate().filter(|(k, _)| j & (1 << k) != 0).map(|(_, r)| (*r, false)).collect();
        items.insert(items.len() / 2, (shared[(j >> owned.len()) as usize], false));
        vh::netsweep::check_list_opt("c01.shared", &items, &reqs, l, false, true, optimize);
        vh::netsweep::check_list_incremental("c01.shared", &items, &reqs, l, true, optimize);
    });
    // modifier twins: rules with one pattern (one bucket, one mask) that differ only in the value of
    // their modifier option, in every ordered pair and triple, through every construction route
    // (built unoptimised, built optimised, handed over rule by rule and then optimised in place)
    let twins = [
        "/foo/bar$removeparam=utm", "/foo/bar$removeparam=x", "/foo/bar$removeparam=b", "/foo/bar$csp=d1", "/foo/bar$csp=d2", "/foo/bar$redirect=a", "/foo/bar$redirect=b",
        "/foo/bar$redirect-rule=a:5", "*$removeparam=x", "*$removeparam=b",
    ];
    let nt = twins.len() as u64;
    ctx.bound("modifier_twins", serde_json::json!(twins));
    let twin_len: u32 = ctx.tier.pick(2, 3);
    ctx.par_range("modifier twins x construction routes", count_arrangements_upto(nt, twin_len), 4, |i, l| {
        let mut idx = vec![];
        nth_arrangement(i, nt, &mut idx);
        if idx.len() < 2 {
            return;
        }
        let items: Vec<(&str, bool)> = idx.iter().map(|&j| (twins[j], false)).collect();
        vh::netsweep::check_list_opt("c01.twins", &items, &reqs, l, false, true, false);
        vh::netsweep::check_list_opt("c01.twins", &items, &reqs, l, false, true, true);
        vh::netsweep::check_list_incremental("c01.twins", &items, &reqs, l, true, true);
    });
    // the rule cube: every (pattern shape, option set, exception?) cell alone, and next to each of
    // a few partner rules that change which token the cell is filed under or share its bucket
    let np = alpha::CUBE_PATTERNS.len() as u64;
    let no = alpha::CUBE_OPTIONS.len() as u64;
    let partners: [Option<&'static str>; 8] = [None, Some("ads"), Some("/foo/bar"), Some("||ads.net^"), Some("@@||ads.net^$script"), Some("*$removeparam=utm"), Some("||example.com^$important"), Some("@@bar")];
    ctx.bound("cube", serde_json::json!({"patterns": np, "option_sets": no, "exception": 2, "partners": partners.len()}));
    ctx.par_range("rule cube", np * no * 2 * partners.len() as u64, 4, |i, l| {
        let p = (i % np) as usize;
        let o = ((i / np) % no) as usize;
        let exc = (i / np / no) % 2 == 1;
        let partner = partners[(i / np / no / 2) as usize];
        let rule = match alpha::cube_rule(p, o, exc) {
            Some(r) => r,
            None => return,
        };
        let mut items: Vec<(&str, bool)> = vec![(rule.as_str(), false)];
        if let Some(q) = partner {
            if q == rule {
                return;
            }
            // the partner once before and once after the cell (ids and insertion order differ)
            if (p + o) % 2 == 0 {
                items.insert(0, (q, false));
            } else {
                items.push((q, false));
            }
        }
        if l.samples.len() < 2 && (i + ctx.seed) % 1013 == 5 {
            l.samples.push(serde_json::json!({"cube_cell": rule, "partner": partner}));
        }
        vh::netsweep::check_list("c01.cube", &items, &reqs, l, false, true);
        if (i / np / no / 2) < 1 || (ctx.tier == vh::Tier::Thorough && (i / np / no / 2) % 2 == 0) {
            vh::netsweep::check_list_incremental("c01.cube", &items, &reqs, l, true, (p + o) % 2 == 1);
        }
    });
    // bucket sizes: n rules that share their only indexable token (one bucket of n entries), each
    // matching exactly one URL of its own, for every n up to a bound; every third rule is an
    // exception for the preceding rule's URL family, so that two lists have large buckets
    let n_max: u64 = ctx.tier.pick(120, 300);
    ctx.bound("bucket_size_max", n_max);
    ctx.par_range("bucket sizes", n_max, 1, |i, l| {
        let n = i as usize + 1;
        let texts: Vec<String> = (0..n).map(|k| if k % 3 == 2 { format!("@@/adv/x{:03}", k - 1) } else { format!("/adv/x{:03}", k) }).collect();
        let items: Vec<(&str, bool)> = texts.iter().map(|t| (t.as_str(), false)).collect();
        let mut rq: Vec<alpha::Req> = vec![];
        for k in 0..n + 1 {
            let url = format!("https://x.com/adv/x{:03}", k);
            if let Ok(req) = adblock::request::Request::new(&url, "https://y.org/", "script") {
                rq.push(alpha::Req { req, url, source: "https://y.org/".into(), ty: "script" });
            }
        }
        vh::netsweep::check_list_opt("c01.bucket-size", &items, &rq, l, false, false, n % 2 == 0);
        if n % 4 == 1 {
            vh::netsweep::check_list_incremental("c01.bucket-size", &items, &rq, l, false, false);
        }
    });
    // bucket forcing: every rule of the pool, stored under each of its indexable tokens in turn
    let forced: Vec<(&'static str, String, Vec<String>)> = alpha::R_NET.iter().flat_map(|r| forced_lists(r).into_iter().map(move |(t, l)| (*r, t, l))).collect();
    ctx.bound("bucket_forcing_lists", forced.len());
    ctx.par_range("bucket forcing", forced.len() as u64, 1, |i, l| {
        let (rule, target, list) = &forced[i as usize];
        let items: Vec<(&str, bool)> = list.iter().map(|r| (r.as_str(), false)).collect();
        if l.samples.len() < 2 && (i + ctx.seed) % 17 == 0 {
            l.samples.push(serde_json::json!({"bucket_forcing": {"rule": rule, "forced_token": target, "list": list}}));
        }
        vh::netsweep::check_list("c01.forced", &items, &reqs, l, false, true);
    });
    // corpus sweep: 3 613 real rules (frozen copy under harness/corpus) loaded as one list, against
    // URLs derived from every rule
    let nrules = corpus_rules().len() as u64;
    ctx.bound("corpus_rules", nrules);
    let full = ctx.tier == vh::Tier::Thorough;
    ctx.par_range("corpus: URLs derived from each rule", nrules, 8, |i, l| {
        if l.samples.len() < 3 && (i + ctx.seed) % 1201 == 0 {
            l.samples.push(serde_json::json!({"corpus_rule": corpus_rules()[i as usize], "derived_urls": derive_urls(corpus_rules()[i as usize], full)}));
        }
        corpus_check(i as usize, full, l);
    });
    if ctx.tier == vh::Tier::Thorough {
        // lists of <= 2 rules against the full request cross (all URLs x all initiators x all type aliases)
        let full = alpha::requests(true, true);
        ctx.bound("requests_full_cross", full.len());
        let n2 = count_arrangements_upto(pool.len() as u64, 2);
        ctx.par_range("lists<=2 x full request cross", n2, 1, |i, l| {
            let mut idx = vec![];
            nth_arrangement(i, pool.len() as u64, &mut idx);
            let items: Vec<(&'static str, bool)> = idx.iter().map(|&j| pool[j]).collect();
            vh::netsweep::check_list("c01", &items, &full, l, false, true);
        });
    }
    ctx.finish(
        "model_checking",
        "all ordered lists without repetition of <= k rules of the pool (R_net + 2 hosts lines), every (blocking rule, exception, modifier rule) triple of it, every cell of the rule cube (pattern shapes x option sets x exception) alone and next to 7 partner rules, n same-bucket rules for every n up to a bound, each built into a real engine (no optimisation), under every subset of the tags the list mentions, against every request of U_net x (initiator,type); plus bucket forcing (every pool rule with two filler rules per other indexable token, so that the rule is stored under each of its tokens in turn) and a corpus sweep (3 613 real rules from EasyList / uBO / Brave lists, frozen under harness/corpus, loaded as one list, against URLs derived from every rule by a fixed procedure x initiators x types); non-trivial = at least one rule of the list matches the request per the public matcher; states = engines built, transitions = requests checked, each compared field by field (matched, important, exception, redirect, rewritten URL, CSP set) with the reference combiner",
        &[
            "per-rule match = the public NetworkFilter::matches on the parsed rule (differential); precedence, badfilter, tags, redirect choice, removeparam and CSP come from the independent reference",
            "no 64-bit seahash collision among the strings of the alphabets (checked at start-up)",
        ],
    )
}

fn main() {
    run_main("C01", check, replay)
}
