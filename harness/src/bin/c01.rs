//! C01 — engine verdict equals rule-by-rule evaluation of the loaded list.
//! BX: all ordered lists of <= k rules of R_net (+ hosts lines) x the tag subsets the list can
//! observe x the request universe U_net, on real engines built without optimisation; oracle =
//! the public per-rule matcher on every parsed rule + the reference combiner
//! (`vh::oracle::netspec`). DESIGN §4 C01.

use serde_json::Value;
use vh::alpha;
use vh::util::{count_arrangements_upto, nth_arrangement};
use vh::{run_main, Ctx, Local};

fn pool() -> Vec<(&'static str, bool)> {
    alpha::R_NET
        .iter()
        .map(|r| (*r, false))
        .chain(alpha::R_HOSTS.iter().map(|r| (*r, true)))
        .collect()
}

fn replay(case: &Value, l: &mut Local) {
    vh::netsweep::replay_case("c01", case, l, true);
}

fn check(ctx: &Ctx) -> i32 {
    let pool = pool();
    vh::util::assert_no_hash_collisions(
        ["ads", "foo", "bar", "loads", "foo1bar", "adserver", "net", "example", "com", "tracker", "co", "uk", "http", "https", "www", "baz", "xbar", "js", "utm", "x", "b", "evil", "xads", "sub", "unrelated", "org", "page", "ads.net", "example.com", "tracker.co.uk"],
    );
    let k: u32 = ctx.tier.pick(2, 3);
    let reqs = alpha::requests(false, false);
    ctx.bound("list_max_len", k);
    ctx.bound("rule_pool", pool.len());
    ctx.bound("requests", reqs.len());
    let n = count_arrangements_upto(pool.len() as u64, k);
    ctx.par_range("lists", n, 4, |i, l| {
        let mut idx = vec![];
        nth_arrangement(i, pool.len() as u64, &mut idx);
        let items: Vec<(&'static str, bool)> = idx.iter().map(|&j| pool[j]).collect();
        let sample = l.samples.len() < 2 && (i + ctx.seed) % 577 == 3;
        vh::netsweep::check_list("c01", &items, &reqs, l, sample, true);
    });
    if ctx.tier == vh::Tier::Thorough {
        // lists of <= 2 rules against the full request cross (all URLs x all initiators x all type aliases)
        let full = alpha::requests(true, true);
        ctx.bound("requests_full_cross", full.len());
        let n2 = count_arrangements_upto(pool.len() as u64, 2);
        ctx.par_range("lists<=2 x full request cross", n2, 1, |i, l| {
            let mut idx = vec![];
            nth_arrangement(i, pool.len() as u64, &mut idx);
            let items: Vec<(&'static str, bool)> = idx.iter().map(|&j| pool[j]).collect();
            vh::netsweep::check_list("c01", &items, &full, l, false, true);
        });
    }
    ctx.finish(
        "model_checking",
        "all ordered lists without repetition of <= k rules of the 50-entry pool (R_net + 2 hosts lines), each built into a real engine (no optimisation), under every subset of the tags the list mentions, against every request of U_net x (initiator,type); non-trivial = at least one rule of the list matches the request per the public matcher; states = engines built, transitions = requests checked, each compared field by field (matched, important, exception, redirect, rewritten URL, CSP set) with the reference combiner",
        &[
            "per-rule match = the public NetworkFilter::matches on the parsed rule (differential); precedence, badfilter, tags, redirect choice, removeparam and CSP come from the independent reference",
            "no 64-bit seahash collision among the strings of the alphabets (checked at start-up)",
        ],
    )
}

fn main() {
    run_main("C01", check, replay)
}
