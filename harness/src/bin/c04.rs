//! C04 — exception / important / badfilter precedence; rule addition is monotone.
//! BX: (a)+(b) all base lists of <= k rules of R_net' x every extra rule x every insertion position
//! x requests: blocked(L) == spec(L), blocked(L+x) == spec(L+x), and the two monotonicity
//! implications; (c) every ordered pair (y, z) of a 130-spelling alphabet: z$badfilter disables y
//! iff same pattern and same option set after alias normalisation. DESIGN §4 C04.

use adblock::filters::network::NetworkFilterMaskHelper;
use serde_json::{json, Value};
use std::collections::{BTreeSet, HashSet};
use vh::alpha::{self, Req};
use vh::netsweep::build_engine;
use vh::oracle::netspec::{self as ns};
use vh::util::{count_arrangements_upto, nth_arrangement, subsets_of};
use vh::{run_main, Ctx, Local, Mismatch};

fn pool() -> Vec<&'static str> {
    alpha::R_NET
        .iter()
        .copied()
        .filter(|r| !r.contains("badfilter") && !r.contains("csp=") && !r.contains("removeparam"))
        .collect()
}

#[derive(PartialEq, Clone, Copy)]
enum Kind {
    Exception,
    Blocking,
    Neither,
}

fn kind_of(rule: &str) -> Kind {
    let rs = ns::parse_rules(&[rule], &[]);
    match rs.first() {
        None => Kind::Neither,
        Some(r) => {
            if r.f.is_exception() {
                if r.f.is_redirect() {
                    Kind::Neither // a redirect exception: not pinned whether it unblocks
                } else {
                    Kind::Exception
                }
            } else if r.f.is_redirect() && !r.f.also_block_redirect() {
                Kind::Neither // redirect-rule never blocks
            } else {
                Kind::Blocking
            }
        }
    }
}

fn blocked(e: &adblock::Engine, rq: &Req) -> Result<bool, String> {
    vh::util::catch(|| e.check_network_request(&rq.req).matched)
}

/// (a)+(b) for one (base list, extra rule, position).
fn check_mono(base: &[&str], x: &str, pos: usize, reqs: &[Req], l: &mut Local) {
    let kind = kind_of(x);
    let mut with: Vec<&str> = base.to_vec();
    with.insert(pos, x);
    let r0 = ns::parse_rules(base, &[]);
    let r1 = ns::parse_rules(&with, &[]);
    let mut e0 = build_engine(base, &[], false, true);
    let mut e1 = build_engine(&with, &[], false, true);
    l.states += 2;
    // a third subject for lists without `$badfilter` whose extra rule comes last: a blocker that
    // receives the rules one by one (`Blocker::add_filter` files a rule by its own dispatch)
    let mut inc: Option<(adblock::blocker::Blocker, adblock::resources::ResourceStorage)> = None;
    if pos == base.len() && !r1.iter().any(|r| r.f.is_badfilter()) {
        inc = vh::util::catch(|| {
            let mut b = adblock::blocker::Blocker::new(vec![], &adblock::blocker::BlockerOptions { enable_optimizations: false });
            for r in &r1 {
                let _ = b.add_filter((*r.f).clone());
            }
            (b, adblock::resources::ResourceStorage::from_resources(vh::net::std_resources()))
        })
        .ok();
        l.states += 1;
    }
    let store = ns::std_res_spec();
    let tags_present = alpha::tags_in(&with);
    for tagset in subsets_of(&tags_present) {
        let tagrefs: Vec<&str> = tagset.iter().map(|s| s.as_str()).collect();
        e0.use_tags(&tagrefs);
        e1.use_tags(&tagrefs);
        if let Some((b, _)) = inc.as_mut() {
            b.use_tags(&tagrefs);
        }
        let tags: HashSet<String> = tagset.iter().cloned().collect();
        let a0 = ns::active_rules_by_text(&r0, &tags);
        let a1 = ns::active_rules_by_text(&r1, &tags);
        for rq in reqs {
            l.evaluations += 1;
            l.transitions += 2;
            let (b0, b1) = match (blocked(&e0, rq), blocked(&e1, rq)) {
                (Ok(a), Ok(b)) => (a, b),
                (a, b) => {
                    l.mismatch(Mismatch {
                        sig: format!("c04.panic@{}", a.err().or(b.err()).unwrap_or_default()),
                        what: "engine panicked".into(),
                        case: json!({"kind":"mono","base":base,"x":x,"pos":pos,"tags":tagset,"url":rq.url,"source":rq.source,"type":rq.ty}),
                        size: 1,
                    });
                    continue;
                }
            };
            l.hist(match (b0, b1) {
                (false, false) => "allowed->allowed",
                (false, true) => "allowed->blocked",
                (true, false) => "blocked->allowed",
                (true, true) => "blocked->blocked",
            });
            if b0 != b1 {
                l.nontrivial += 1;
            }
            let mk = |sig: String, what: String| Mismatch {
                sig,
                what,
                case: json!({"kind":"mono","base":base,"x":x,"pos":pos,"tags":tagset,"url":rq.url,"source":rq.source,"type":rq.ty}),
                size: (base.len() * 10000 + rq.url.len() * 4 + rq.source.len() + x.len()) as u64,
            };
            // (b) monotonicity
            l.compared += 1;
            if kind == Kind::Exception && b1 && !b0 {
                l.mismatch(mk(
                    "c04.mono.exception-added-blocks".into(),
                    format!("adding exception {:?} at {} to {:?} turned ({}, {}, {}) from allowed into blocked", x, pos, base, rq.url, rq.source, rq.ty),
                ));
            }
            if kind == Kind::Blocking && b0 && !b1 {
                l.mismatch(mk(
                    "c04.mono.blocking-added-allows".into(),
                    format!("adding blocking rule {:?} at {} to {:?} turned ({}, {}, {}) from blocked into allowed", x, pos, base, rq.url, rq.source, rq.ty),
                ));
            }
            // the rule-by-rule blocker must block exactly what the reference says for the extended list
            if let Some((b, res)) = inc.as_ref() {
                let s = ns::spec_check_active(&a1, &rq.req, &rq.url, &store);
                l.compared += 1;
                l.transitions += 1;
                let got = vh::util::catch(|| b.check(&rq.req, res).matched);
                if !got.as_ref().map(|g| s.verdict.matched.accepts(g)).unwrap_or(false) {
                    l.mismatch(mk(
                        format!("c04.spec.rules-added-one-by-one.{}", match got { Ok(true) => "spurious-block", Ok(false) => "lost-block", Err(_) => "panic" }),
                        format!("extended list added with Blocker::add_filter: blocked={:?} but reference {:?} (matching {:?}) for ({}, {}, {})", got, s.verdict.matched, s.matching, rq.url, rq.source, rq.ty),
                    ));
                }
            }
            // (a) blocked == spec, for both lists
            for (which, act, b) in [("base", &a0, b0), ("extended", &a1, b1)] {
                let s = ns::spec_check_active(act, &rq.req, &rq.url, &store);
                l.compared += 1;
                if !s.verdict.matched.accepts(&b) {
                    l.mismatch(mk(
                        format!("c04.spec.{}", if b { "spurious-block" } else { "lost-block" }),
                        format!("{} list: engine blocked={} but reference {:?} (matching {:?}) for ({}, {}, {})", which, b, s.verdict.matched, s.matching, rq.url, rq.source, rq.ty),
                    ));
                }
                // the same precedence through the restricted forms of the check (an earlier engine
                // already blocks: importants and exceptions still decide; exceptions forced)
                if which == "extended" && s.verdict.hits > 0 && rq.req.is_supported {
                    let exp = ns::spec_subset(&s);
                    for (k, (prev, force)) in [(true, false), (false, true)].into_iter().enumerate() {
                        l.compared += 1;
                        l.transitions += 1;
                        let got = vh::util::catch(|| vh::net::Verdict::of(&e1.check_network_request_subset(&rq.req, prev, force)));
                        let ok = match &got {
                            Ok(g) => exp[k].0.accepts(&g.matched) && exp[k].1.accepts(&g.important) && exp[k].2.accepts(&g.exception),
                            Err(_) => false,
                        };
                        if !ok {
                            l.mismatch(mk(
                                format!("c04.spec.restricted-check({},{})", prev, force),
                                format!("extended list: check_network_request_subset(previously_matched={}, force_exceptions={}) gives {:?}, reference (matched, important, exception) {:?} (matching {:?}) for ({}, {}, {})", prev, force, got, exp[k], s.matching, rq.url, rq.source, rq.ty),
                            ));
                        }
                    }
                }
            }
        }
    }
}

// ---- (c) badfilter -------------------------------------------------------------------------

const BF_PATTERNS: &[&str] = &["ads", "||ads.net^", "|https://ads.net/", "/bar|", "foo*bar", "ads^foo", "@@ads", "@@||ads.net^"];
const BF_OPTIONS: &[&str] = &[
    "", "script", "image", "script,image", "image,script", "3p", "third-party", "1p", "~third-party", "first-party", "css", "stylesheet", "xhr", "xmlhttprequest",
    "domain=example.com", "from=example.com", "domain=example.com|tracker.co.uk", "domain=tracker.co.uk|example.com", "script,3p", "3p,script", "important",
    "script,important", "doc", "document",
];

// pattern cube: near-twin patterns (same hostname and a different remainder, same remainder and a
// different hostname, same text with a different anchor) under three option sets; a badfilter must
// cancel its exact twin only
const BF2_PATTERNS: &[&str] = &[
    "||ads.net/ads", "||ads.net/bar", "||ads.net^foo", "||ads.net^bar", "||ads.net*ads", "||ads.net*bar", "||a.ads.net/ads", "||example.com/ads",
    "||ads.net^", "||ads.net/", "ads.net/ads", "|https://ads.net/ads", "||ads.net/ads|", "/ads", "/bar", "/ads|", "|https://ads.net/bar",
    "/ads\\d+foo/", "/ads\\D+foo/", "/Ads\\d+foo/",
    "@@||ads.net/ads", "@@||ads.net/bar", "@@||ads.net^foo", "@@/ads", "||ads.net/ads^", "||ads.net/foo/bar", "||ads.net/foo*bar", "||ads.net/ads*bar",
];
const BF2_OPTIONS: &[&str] = &["", "script", "domain=example.com"];

// long fields: hostnames and paths of 20 to 40 bytes that differ only near their start or in one
// inner segment (whatever the rule id is computed from, it has to see every byte of every field)
const BF_LONG_PATTERNS: &[&str] = &[
    "||ads.tracking-platform.com^", "||cdn.tracking-platform.com^", "||tracking-platform.com^", "||pixel.tracking-platform.com^", "||bds.tracking-platform.com^",
    "/static/banners/slot1/leaderboard.png", "/static/banners/slot2/leaderboard.png", "/ttatic/banners/slot1/leaderboard.png",
    "||media.example.net/player/v1/assets/bundle.js", "||media.example.net/player/v2/assets/bundle.js", "||nedia.example.net/player/v1/assets/bundle.js",
    "@@||ads.tracking-platform.com^", "@@||cdn.tracking-platform.com^", "@@/static/banners/slot1/leaderboard.png", "@@/static/banners/slot2/leaderboard.png",
    "@@||media.example.net/player/v1/assets/bundle.js", "@@||media.example.net/player/v2/assets/bundle.js",
    // non-ASCII pattern text (a rule and its twin are the same text, however it is digested)
    "/\u{440}\u{435}\u{43a}/\u{431}\u{430}\u{43d}", "/\u{440}\u{435}\u{43a}/\u{431}\u{430}\u{43c}", "@@/\u{440}\u{435}\u{43a}/\u{431}\u{430}\u{43d}", "||ads.tracking-platform.com/caf\u{e9}",
];
const BF_LONG_OPTIONS: &[&str] = &["", "script", "third-party"];
const BF_LONG_URLS: &[&str] = &[
    "https://ads.tracking-platform.com/x", "https://cdn.tracking-platform.com/x", "https://tracking-platform.com/x", "https://pixel.tracking-platform.com/x", "https://bds.tracking-platform.com/x",
    "https://x.com/static/banners/slot1/leaderboard.png", "https://x.com/static/banners/slot2/leaderboard.png", "https://x.com/ttatic/banners/slot1/leaderboard.png",
    "https://media.example.net/player/v1/assets/bundle.js", "https://media.example.net/player/v2/assets/bundle.js", "https://nedia.example.net/player/v1/assets/bundle.js",
    "https://x.com/\u{440}\u{435}\u{43a}/\u{431}\u{430}\u{43d}.png", "https://x.com/\u{440}\u{435}\u{43a}/\u{431}\u{430}\u{43c}.png", "https://ads.tracking-platform.com/caf\u{e9}",
];

// option cube: one option set per distinguishing feature of a rule (every request type, the two
// redirect flavours, resource names and priorities, csp / removeparam values, match-case, negated
// types): a badfilter must cancel a rule only if ALL of these agree. (No list that mixes positive and
// negated types: `script,~image` and `~image` denote the same set of request types here, so whether
// they are "the same rule" for a badfilter is not pinned.)
const BF3_PATTERNS: &[&str] = &["||ads.net^", "ads", "@@||ads.net^"];
const BF3_OPTIONS: &[&str] = &[
    "", "redirect=a", "redirect-rule=a", "redirect=b", "redirect=a:5", "redirect-rule=a:5", "script,redirect=a", "script,redirect-rule=a", "csp=d1", "csp=d2", "removeparam=x",
    "removeparam=y", "match-case", "important", "websocket", "ping", "other", "font", "media", "object", "subdocument", "~script", "~image",
    "~script,~image", "1p", "3p", "script,3p", "image",
    // the same two domains under every combination of signs
    "domain=example.com|tracker.co.uk", "domain=example.com|~tracker.co.uk", "domain=~example.com|tracker.co.uk", "domain=~example.com|~tracker.co.uk",
    // long lists of equal length that differ in one entry (whatever digest of the list goes into the
    // rule id must tell them apart)
    "domain=d01.com|d02.com|d03.com|d04.com|d05.com|d06.com|d07.com|d08.com|d09.com|d10.com|d11.com|d12.com|example.com",
    "domain=d01.com|d02.com|d03.com|d04.com|d05.com|d06.com|d07.com|d08.com|d09.com|d10.com|d11.com|d12.com|unrelated.org",
    "domain=~d01.com|~d02.com|~d03.com|~d04.com|~d05.com|~d06.com|~d07.com|~d08.com|~d09.com|~d10.com|~d11.com|~d12.com|~ads.net",
    "domain=~d01.com|~d02.com|~d03.com|~d04.com|~d05.com|~d06.com|~d07.com|~d08.com|~d09.com|~d10.com|~d11.com|~d12.com|~a.ads.net",
];

/// Alias normalisation, written from the option documentation (not from /repo).
fn normalise(opts: &str) -> BTreeSet<String> {
    let mut out = BTreeSet::new();
    for o in opts.split(',').filter(|o| !o.is_empty()) {
        let n = match o {
            "3p" | "third-party" | "~1p" | "~first-party" => "third-party".to_string(),
            "1p" | "first-party" | "~3p" | "~third-party" => "first-party".to_string(),
            "css" | "stylesheet" => "stylesheet".to_string(),
            "xhr" | "xmlhttprequest" => "xmlhttprequest".to_string(),
            "doc" | "document" => "document".to_string(),
            o if o.starts_with("domain=") || o.starts_with("from=") => {
                let v = o.split_once('=').unwrap().1;
                let mut d: Vec<&str> = v.split('|').collect();
                d.sort();
                format!("domain={}", d.join("|"))
            }
            o => o.to_string(),
        };
        out.insert(n);
    }
    out
}

fn spell(pat: &str, opts: &str, bad: bool) -> String {
    let mut o: Vec<&str> = opts.split(',').filter(|s| !s.is_empty()).collect();
    if bad {
        o.push("badfilter");
    }
    if o.is_empty() {
        pat.to_string()
    } else {
        format!("{}${}", pat, o.join(","))
    }
}

fn bf_rules() -> Vec<(&'static str, &'static str)> {
    let mut v = vec![];
    for p in BF_PATTERNS {
        for o in BF_OPTIONS {
            // `important` on an exception is not meaningful; keep the alphabet to sensible rules
            if p.starts_with("@@") && o.contains("important") {
                continue;
            }
            v.push((*p, *o));
        }
    }
    v
}

fn check_badfilter_pair(y: (&str, &str), z: (&str, &str), reqs: &[Req], l: &mut Local) {
    let ytxt = spell(y.0, y.1, false);
    let ztxt = spell(z.0, z.1, true);
    let cancels = y.0 == z.0 && normalise(y.1) == normalise(z.1);
    let yr = ns::parse_rules(&[ytxt.as_str()], &[]);
    if yr.is_empty() {
        l.hist("y-rejected");
        return;
    }
    // a base blocking rule so that exceptions y are observable
    let base = "://"; // matches every URL; not a member of the spelling alphabet
    // the list under test: y once; when z cancels y, also y twice and y next to another spelling
    // of the same rule (an alias of one of its options): z cancels every one of them
    let mut variants: Vec<Vec<String>> = vec![vec![base.to_string(), ytxt.clone(), ztxt.clone()]];
    // a blocking y is invisible behind the base rule: once more without it
    if !ytxt.starts_with("@@") {
        variants.push(vec![ytxt.clone(), ztxt.clone()]);
    }
    if cancels {
        variants.push(vec![base.to_string(), ytxt.clone(), ytxt.clone(), ztxt.clone()]);
        if let Some(alias) = BF_OPTIONS.iter().find(|o| **o != y.1 && normalise(o) == normalise(y.1)) {
            variants.push(vec![base.to_string(), ytxt.clone(), ztxt.clone(), spell(y.0, alias, false)]);
        }
    }
    // and every list once more with three unrelated `$badfilter` rules around it (the set of
    // cancelled ids then has several members)
    let plain = variants.len();
    for k in 0..plain {
        if variants[k].first().map(|s| s.as_str()) != Some(base) {
            continue;
        }
        let mut v = variants[k].clone();
        v.insert(1, "zz1$badfilter".to_string());
        v.push("||zz2.com^$script,badfilter".to_string());
        v.push("@@zz3|$badfilter".to_string());
        variants.push(v);
    }
    let mut y_mattered = false;
    for (vi, list_owned) in variants.iter().enumerate() {
    let list: Vec<&str> = list_owned.iter().map(|s| s.as_str()).collect();
    let e = build_engine(&list, &[], false, false);
    l.states += 1;
    let with_base = list.first() == Some(&base);
    let expected_rules = match (cancels, with_base) {
        (true, true) => ns::parse_rules(&[base], &[]),
        (true, false) => ns::parse_rules(&[], &[]),
        (false, true) => ns::parse_rules(&[base, ytxt.as_str()], &[]),
        (false, false) => ns::parse_rules(&[ytxt.as_str()], &[]),
    };
    let tags = HashSet::new();
    let act = ns::active_rules_by_text(&expected_rules, &tags);
    for rq in reqs {
        l.evaluations += 1;
        l.transitions += 1;
        let got = match vh::util::catch(|| vh::net::Verdict::of(&e.check_network_request(&rq.req))) {
            Ok(v) => v,
            Err(loc) => {
                l.mismatch(Mismatch { sig: format!("c04.badfilter.panic@{}", loc), what: "panic".into(), case: json!({"kind":"badfilter","y":[y.0,y.1],"z":[z.0,z.1],"url":rq.url,"source":rq.source,"type":rq.ty}), size: 1 });
                continue;
            }
        };
        let s = ns::spec_check_active(&act, &rq.req, &rq.url, &[]);
        l.compared += 1;
        if s.matching.iter().any(|m| *m == ytxt) {
            y_mattered = true;
        }
        let csp_diff = if ytxt.contains("csp=") {
            l.compared += 1;
            match vh::util::catch(|| vh::net::csp_set(&e.get_csp_directives(&rq.req))) {
                Ok(c) if c == s.csp => None,
                _ => Some("csp"),
            }
        } else {
            None
        };
        if let Some(field) = ns::diff_verdict(&s.verdict, &got).or(csp_diff) {
            let sig = if cancels { format!("c04.badfilter.not-cancelled{}.{}", ["", ".variant1", ".variant2", ".variant3", ".variant4", ".variant5"][(vi % plain.max(1)).min(5)], field) } else { format!("c04.badfilter.wrongly-cancelled-or-matching.{}", field) };
            l.mismatch(Mismatch {
                sig,
                what: format!("list {:?}: oracle says {:?} {} {:?}; request ({}, {}, {}) reference {:?} engine {:?}", list, ztxt, if cancels { "disables" } else { "does not disable" }, ytxt, rq.url, rq.source, rq.ty, s.verdict, got),
                case: json!({"kind":"badfilter","y":[y.0,y.1],"z":[z.0,z.1],"url":rq.url,"source":rq.source,"type":rq.ty}),
                size: (ytxt.len() + ztxt.len() + rq.url.len()) as u64,
            });
        }
    }
    }
    l.hist(if cancels { "pair-cancels" } else { "pair-independent" });
    if !cancels && y_mattered {
        l.nontrivial += 1;
    }
    if cancels {
        l.nontrivial += 1;
    }
}

fn find_static<'a>(hay: &[&'static str], s: &str) -> Option<&'static str> {
    hay.iter().find(|h| **h == s).copied().or_else(|| if s.is_empty() { Some("") } else { None }).map(|x| x as &'a str).map(|_| hay.iter().find(|h| **h == s).copied().unwrap_or(""))
}

fn replay(case: &Value, l: &mut Local) {
    let url = case["url"].as_str().unwrap_or("").to_string();
    let source = case["source"].as_str().unwrap_or("").to_string();
    let ty: &'static str = Box::leak(case["type"].as_str().unwrap_or("script").to_string().into_boxed_str());
    let req = match adblock::request::Request::new(&url, &source, ty) {
        Ok(r) => r,
        Err(_) => return,
    };
    let reqs = vec![Req { req, url, source, ty }];
    match case["kind"].as_str().unwrap_or("") {
        "badfilter" => {
            let g = |k: &str, i: usize| case[k][i].as_str().unwrap_or("").to_string();
            let (y0, y1, z0, z1) = (g("y", 0), g("y", 1), g("z", 0), g("z", 1));
            check_badfilter_pair((&y0, &y1), (&z0, &z1), &reqs, l);
        }
        _ => {
            let base: Vec<String> = case["base"].as_array().map(|a| a.iter().filter_map(|v| v.as_str().map(|s| s.to_string())).collect()).unwrap_or_default();
            let base_refs: Vec<&str> = base.iter().map(|s| s.as_str()).collect();
            let x = case["x"].as_str().unwrap_or("").to_string();
            let pos = case["pos"].as_u64().unwrap_or(0) as usize;
            check_mono(&base_refs, &x, pos.min(base_refs.len()), &reqs, l);
        }
    }
    let _ = find_static;
}

fn check(ctx: &Ctx) -> i32 {
    let pool = pool();
    let k: u32 = ctx.tier.pick(1, 2);
    let reqs = alpha::requests(false, false);
    ctx.bound("base_list_max_len", k);
    ctx.bound("rule_pool", pool.len());
    ctx.bound("requests", reqs.len());
    let nb = count_arrangements_upto(pool.len() as u64, k);
    let np = pool.len() as u64;
    // index = (base list, extra rule); all insertion positions inside
    ctx.par_range("base lists x extra rule x position", nb * np, 2, |i, l| {
        let mut idx = vec![];
        nth_arrangement(i / np, np, &mut idx);
        let xi = (i % np) as usize;
        if idx.contains(&xi) {
            return;
        }
        let base: Vec<&str> = idx.iter().map(|&j| pool[j]).collect();
        if l.samples.len() < 2 && (i + ctx.seed) % 313 == 1 {
            l.samples.push(json!({"base": base, "extra": pool[xi], "positions": base.len() + 1, "requests": reqs.len()}));
        }
        for pos in 0..=base.len() {
            check_mono(&base, pool[xi], pos, &reqs, l);
        }
    });
    // category triples: an important rule, an ordinary blocking rule and an exception together (no
    // pair of them shows what the three do): each of the three in turn is the rule added to the
    // other two, at every position. Untagged rules only (tags are C07's subject).
    let untagged: Vec<&'static str> = pool.iter().copied().filter(|r| !r.contains("tag=")).collect();
    let imps: Vec<&'static str> = untagged.iter().copied().filter(|r| r.contains("important") && !r.starts_with("@@")).collect();
    let excs: Vec<&'static str> = untagged.iter().copied().filter(|r| r.starts_with("@@") && !r.contains("important") && kind_of(r) == Kind::Exception).collect();
    let blks: Vec<&'static str> = untagged.iter().copied().filter(|r| !r.contains("important") && !r.contains("redirect") && kind_of(r) == Kind::Blocking).collect();
    ctx.bound("category_triples", json!({"important": imps, "exceptions": excs, "blocking": blks.len()}));
    let triple_reqs: Vec<Req> = alpha::requests(false, false).into_iter().filter(|r| r.ty == "script" || r.ty == "image" || r.ty == "document").collect();
    let nt = (imps.len() * excs.len() * blks.len()) as u64;
    ctx.par_range("category triples", nt, 2, |i, l| {
        let (a, b, c) = (i as usize % imps.len(), i as usize / imps.len() % excs.len(), i as usize / imps.len() / excs.len());
        let (im, ex, bl) = (imps[a], excs[b], blks[c]);
        for pos in 0..=2 {
            check_mono(&[im, ex], bl, pos, &triple_reqs, l);
            check_mono(&[bl, ex], im, pos, &triple_reqs, l);
            check_mono(&[im, bl], ex, pos, &triple_reqs, l);
        }
    });
    // (c) badfilter pairs, over a reduced request set (every URL of U_net, two (initiator,type) pairs)
    let bf = bf_rules();
    let bf_reqs: Vec<Req> = alpha::requests(false, false)
        .into_iter()
        .filter(|r| (r.ty == "script" || r.ty == "image" || r.ty == "document") && (r.source.contains("unrelated") || r.source.contains("example.com") || r.source.is_empty() || r.source.contains("://ads.net") || r.source.contains("://a.ads.net")))
        .collect();
    ctx.bound("badfilter_spellings", bf.len());
    ctx.bound("badfilter_requests", bf_reqs.len());
    let m = bf.len() as u64;
    ctx.par_range("badfilter pairs", m * m, 16, |i, l| {
        let y = bf[(i / m) as usize];
        let z = bf[(i % m) as usize];
        if l.samples.len() < 3 && (i + ctx.seed) % 4001 == 2 {
            l.samples.push(json!({"y": spell(y.0, y.1, false), "z": spell(z.0, z.1, true), "requests": bf_reqs.len()}));
        }
        check_badfilter_pair(y, z, &bf_reqs, l);
    });
    let bf2: Vec<(&'static str, &'static str)> = BF2_PATTERNS.iter().flat_map(|p| BF2_OPTIONS.iter().map(move |o| (*p, *o))).collect();
    ctx.bound("badfilter_pattern_cube_spellings", bf2.len());
    let m2 = bf2.len() as u64;
    ctx.par_range("badfilter pattern cube", m2 * m2, 16, |i, l| {
        check_badfilter_pair(bf2[(i / m2) as usize], bf2[(i % m2) as usize], &bf_reqs, l);
    });
    let bfl: Vec<(&'static str, &'static str)> = BF_LONG_PATTERNS.iter().flat_map(|p| BF_LONG_OPTIONS.iter().map(move |o| (*p, *o))).collect();
    let bfl_reqs: Vec<Req> = BF_LONG_URLS
        .iter()
        .flat_map(|u| [("https://unrelated.org/", "script"), ("https://unrelated.org/", "image"), ("", "script")].into_iter().map(move |(s, t)| (*u, s, t)))
        .filter_map(|(u, s, t)| adblock::request::Request::new(u, s, t).ok().map(|req| Req { req, url: u.to_string(), source: s.to_string(), ty: t }))
        .collect();
    ctx.bound("badfilter_long_field_spellings", bfl.len());
    let ml = bfl.len() as u64;
    ctx.par_range("badfilter long fields", ml * ml, 16, |i, l| {
        check_badfilter_pair(bfl[(i / ml) as usize], bfl[(i % ml) as usize], &bfl_reqs, l);
    });
    let bf3: Vec<(&'static str, &'static str)> = BF3_PATTERNS
        .iter()
        .flat_map(|p| BF3_OPTIONS.iter().map(move |o| (*p, *o)))
        .filter(|(p, o)| !(p.starts_with("@@") && (o.contains("important") || o.contains("removeparam"))))
        .collect();
    ctx.bound("badfilter_option_cube_spellings", bf3.len());
    let m3 = bf3.len() as u64;
    ctx.par_range("badfilter option cube", m3 * m3, 16, |i, l| {
        check_badfilter_pair(bf3[(i / m3) as usize], bf3[(i % m3) as usize], &bf_reqs, l);
    });
    // a $badfilter rule alone never matches anything
    ctx.par_range("badfilter alone", m, 4, |i, l| {
        let z = bf[i as usize];
        let ztxt = spell(z.0, z.1, true);
        let e = build_engine(&[ztxt.as_str()], &[], false, false);
        l.states += 1;
        for rq in &bf_reqs {
            l.evaluations += 1;
            l.compared += 1;
            let v = vh::util::catch(|| vh::net::Verdict::of(&e.check_network_request(&rq.req)));
            if v != Ok(vh::net::Verdict::none()) {
                l.mismatch(Mismatch {
                    sig: "c04.badfilter.alone-matches".into(),
                    what: format!("{:?} alone gave {:?} for {}", ztxt, v, rq.url),
                    case: json!({"kind":"badfilter","y":["zzz-no-such-rule",""],"z":[z.0,z.1],"url":rq.url,"source":rq.source,"type":rq.ty}),
                    size: ztxt.len() as u64,
                });
            }
        }
    });
    ctx.finish(
        "model_checking",
        "(a,b) every base list of <= k rules of R_net' (R_net without badfilter/csp/removeparam) x every extra rule x every insertion position, two real engines each, under every tag subset, against U_net x (initiator,type): both engines' blocked bit compared with the reference precedence, and the two monotonicity implications; every (important rule, exception, ordinary blocking rule) triple of the untagged pool with each of the three as the added rule; (c) every ordered pair of the 184 rule spellings (8 patterns x 24 option spellings incl. aliases and reorderings): engine([base, y, z$badfilter]) compared with the reference for [base] or [base, y] according to the alias-normalising oracle; the same over a 25-pattern x 3-option pattern cube and a 3-pattern x 29-option option cube (one option set per distinguishing feature of a rule; csp answers compared as well); non-trivial = the extra rule changed a verdict / the pair cancels or y matched something",
        &["tag differences between a rule and its badfilter twin are outside the domain (not generated)", "spellings that are semantically equal but textually different type lists are not generated"],
    )
}

fn main() {
    run_main("C04", check, replay)
}
