//! C05 — rule optimisation never changes any verdict.
//! BX: lists over an alphabet whose rules share one bucket and differ in exactly one
//! fusion-relevant attribute x tag subsets x URLs; five real subjects per list: built with
//! optimisation, built without, and built without followed by the explicit `optimize()` on the
//! live blocker (twice). Differential oracle on every verdict field + CSP set. DESIGN §4 C05.

use adblock::blocker::{Blocker, BlockerOptions};
use adblock::filters::network::NetworkFilter;
use adblock::lists::{parse_filter, ParsedFilter};
use adblock::regex_manager::RegexManagerDiscardPolicy;
use adblock::resources::ResourceStorage;
use serde_json::{json, Value};
use std::collections::BTreeSet;
use vh::alpha::Req;
use vh::net::{csp_set, Verdict};
use vh::oracle::netspec::tag_of;
use vh::util::{catch, count_arrangements_upto, nth_arrangement, subsets_of};
use vh::{run_main, Ctx, Local, Mismatch};

const POOL: &[&str] = &[
    "adv", "advert", "advice", "@@adv", "@@advert", "@@advice", "adv$important", "advert$important",
    "adv$tag=a", "advert$tag=a", "advice$tag=b", "@@advert$tag=a", "@@advice$tag=b", "adv$important,tag=a",
    "adv$script", "advert$script", "advice$image", "@@advice$script",
    "adv$3p", "advert$3p", "|https://x.com/adv", "adv|", "advert|", "adv*x", "adv^", "advert^",
    "/adv[0-9]/", "/advi?ce/", "/adv[0-/", "/ADV/$match-case", "||adv.net^", "||adv.net/adv",
    "adv$domain=x.com", "advert$domain=x.com", "advice$domain=~x.com",
    "adv$redirect=a", "advert$redirect-rule=b", "||x.com^$csp=d1", "||x.com^$csp=d2", "*$removeparam=q", "adv$removeparam=q",
    // token-less rules (every token is a single character): all land in the wildcard bucket, so
    // rules with equal masks fuse; the texts contain one another away from the anchor
    "/a|", "/a.b|", ".b|", "/a", "/a.b", "@@/a|", "@@/a.b|", "/a*b|", "/a*b.c|",
    // two left-anchored wildcard rules in one bucket (a fused rule must keep every member anchored)
    "|https://x.com/a*b", "|https://x.com/a*c",
    // a plain pattern that would mean something else if it were read as a regex (backslash class)
    "adv\\d",
    // the empty tag (`$tag=`) is a tag like any other: such a rule is not the twin of an untagged one
    "@@adv$tag=", "adv$important,tag=",
    // same bucket, same mask, different long initiator lists (rules with `$domain=` are not fusion
    // candidates; any digest of such a list is not the list)
    "/adv/top$domain=x.com|n01.com|n02.com|n03.com|n04.com|n05.com|n06.com|n07.com|n08.com|n09.com|n10.com|n11.com|n12.com|n13.com",
    "/adv/side$domain=y.com|m01.com|m02.com|m03.com|m04.com|m05.com|m06.com|m07.com|m08.com|m09.com|m10.com|m11.com|m12.com|m13.com",
    // same bucket, masks that differ in exactly one bit the existing pairs do not cover
    // empty patterns (match everything) next to token-less partners with the same mask
    "*$image", "$image", "/a*b$image", "/a$image", "a^$image", "/a.b|$image",
    // redirect-rule rules of one bucket and one mask that name different resources / priorities
    "adv$redirect-rule=a", "advice$redirect-rule=b:5",
    // removeparam rules that differ only in the case of the parameter name (names are compared
    // exactly), or only in the name
    "*$removeparam=Q", "*$removeparam=r", "adv$removeparam=Q",
    "advice$script,document", "adv$document", "adv$1p", "advert$~script", "adv$xhr", "advert$websocket", "advice$font,script",
];

fn requests() -> Vec<Req> {
    let mut out = vec![];
    let paths = ["/", "/adv", "/advert", "/advice", "/adv/x", "/advx", "/adv1", "/ADV", "/xadv", "/adv?q=1", "/advert?q=1&r=2", "/adv?Q=1&q=2", "/x?Q=1", "/advice/", "/adv.js", "/x/advert/y", "/advertx", "/ad", "/a", "/a.b", "/a.b/", "/xa", "/a1b.c", "/a1b", "/a1b/x", "/a1b.c/x", "/adv/top", "/adv/side", "/r?u=https://x.com/a1c", "/r?u=https://x.com/a1b"];
    for host in ["x.com", "adv.net", "sub.adv.net"] {
        for p in paths {
            for (src, ty) in [("https://x.com/", "script"), ("https://y.com/", "script"), ("https://x.com/", "image"), ("https://y.com/", "subdocument"), ("", "document")] {
                let url = format!("https://{}{}", host, p);
                if let Ok(req) = adblock::request::Request::new(&url, src, ty) {
                    out.push(Req { req, url, source: src.to_string(), ty });
                }
            }
        }
    }
    out
}

fn parse_all(rules: &[&str]) -> Vec<NetworkFilter> {
    rules
        .iter()
        .filter_map(|r| match parse_filter(r, true, Default::default()) {
            Ok(ParsedFilter::Network(f)) => Some(f),
            _ => None,
        })
        .collect()
}

fn blocker(rules: &[&str], optimize: bool) -> Blocker {
    let b = Blocker::new(parse_all(rules), &BlockerOptions { enable_optimizations: optimize });
    b.set_regex_discard_policy(RegexManagerDiscardPolicy {
        cleanup_interval: std::time::Duration::ZERO,
        discard_unused_time: std::time::Duration::from_secs(3600),
    });
    b
}

type Ans = (Verdict, Option<BTreeSet<String>>);

fn ask(b: &Blocker, res: &ResourceStorage, rq: &Req) -> Result<Ans, String> {
    catch(|| (Verdict::of(&b.check(&rq.req, res)), csp_set(&b.get_csp_directives(&rq.req))))
}

fn classify(rules: &[&str], field: &str) -> String {
    let fs: Vec<(NetworkFilter, Option<String>)> = rules
        .iter()
        .filter_map(|r| match parse_filter(r, true, Default::default()) {
            Ok(ParsedFilter::Network(f)) => Some((f, tag_of(r))),
            _ => None,
        })
        .collect();
    let mut cause = "";
    for i in 0..fs.len() {
        for j in i + 1..fs.len() {
            let (a, b) = (&fs[i], &fs[j]);
            let plain = |f: &NetworkFilter| f.opt_domains.is_none() && f.opt_not_domains.is_none() && f.hostname.is_none();
            if a.0.mask == b.0.mask && plain(&a.0) && plain(&b.0) && a.1 != b.1 {
                cause = ".same-mask-rules-differ-in-tag";
            }
        }
    }
    format!("c05.{}{}", field, cause)
}

fn diff(a: &Ans, b: &Ans) -> Option<&'static str> {
    if a.0.matched != b.0.matched {
        Some("matched")
    } else if a.0.important != b.0.important {
        Some("important")
    } else if a.0.exception != b.0.exception {
        Some("exception")
    } else if a.0.redirect != b.0.redirect {
        Some("redirect")
    } else if a.0.rewritten != b.0.rewritten {
        Some("rewritten-url")
    } else if a.1 != b.1 {
        Some("csp")
    } else {
        None
    }
}

fn check_list(rules: &[&str], reqs: &[Req], res: &ResourceStorage, l: &mut Local) {
    let mut plain = blocker(rules, false);
    let mut opt = blocker(rules, true);
    let mut live = blocker(rules, false);
    live.optimize();
    live.optimize();
    // optimize() called after every tag switch (the tagged list is rebuilt, unfused, by use_tags)
    let mut live2 = blocker(rules, false);
    // built optimised from all rules but the last, the last one added to the live blocker, then
    // optimize(): buckets that already hold fused rules are fused again
    let mut incr = blocker(&rules[..rules.len().saturating_sub(1)], true);
    let incr_ok = match rules.last() {
        Some(last) => match parse_filter(last, true, Default::default()) {
            Ok(ParsedFilter::Network(f)) => incr.add_filter(f).is_ok(),
            _ => true, // the line is no network rule: nothing to add
        },
        None => true,
    };
    incr.optimize();
    l.states += 5;
    let tags_present = vh::alpha::tags_in(rules);
    // answers of the unoptimised blocker under the last tag set (for the warm-then-optimise pass)
    let mut last_answers: Vec<Option<Ans>> = vec![];
    let all_tagsets = subsets_of(&tags_present);
    for (ti, tagset) in all_tagsets.iter().enumerate() {
        let tagset = tagset.clone();
        let is_last = ti + 1 == all_tagsets.len();
        let tagrefs: Vec<&str> = tagset.iter().map(|s| s.as_str()).collect();
        plain.use_tags(&tagrefs);
        opt.use_tags(&tagrefs);
        live.use_tags(&tagrefs);
        live2.use_tags(&tagrefs);
        live2.optimize();
        incr.use_tags(&tagrefs);
        incr.optimize();
        for rq in reqs {
            l.evaluations += 1;
            l.transitions += 5;
            let a = ask(&plain, res, rq);
            let b = ask(&opt, res, rq);
            let c = ask(&live, res, rq);
            let d = ask(&live2, res, rq);
            let e5 = if incr_ok { ask(&incr, res, rq) } else { a.clone() };
            let (a, b, c, d, e5) = match (a, b, c, d, e5) {
                (Ok(a), Ok(b), Ok(c), Ok(d), Ok(e5)) => (a, b, c, d, e5),
                (a, b, c, d, e5) => {
                    let loc = a.err().or(b.err()).or(c.err()).or(d.err()).or(e5.err()).unwrap_or_default();
                    l.mismatch(Mismatch {
                        sig: format!("c05.panic@{}", loc),
                        what: format!("panic with rules {:?}", rules),
                        case: json!({"rules": rules, "tags": tagset, "url": rq.url, "source": rq.source, "type": rq.ty}),
                        size: rules.len() as u64,
                    });
                    if is_last {
                        last_answers.push(None);
                    }
                    continue;
                }
            };
            if is_last {
                last_answers.push(Some(a.clone()));
            }
            l.compared += 4;
            if a.0.matched || a.0.exception || a.0.redirect.is_some() || a.0.rewritten.is_some() || a.1.is_some() {
                l.nontrivial += 1;
                l.hist(&format!("{}{}", a.0.short(), if a.1.is_some() { "C" } else { "-" }));
            }
            for (name, other) in [("optimized-at-build", &b), ("optimize()-on-live-blocker", &c), ("optimize()-after-each-use_tags", &d), ("optimised-build + add_filter(last) + optimize()", &e5)] {
                if let Some(field) = diff(&a, other) {
                    l.mismatch(Mismatch {
                        sig: classify(rules, field),
                        what: format!("rules {:?} tags {:?} request ({}, {}, {}): unoptimised {:?} vs {} {:?}", rules, tagset, rq.url, rq.source, rq.ty, a, name, other),
                        case: json!({"rules": rules, "tags": tagset, "url": rq.url, "source": rq.source, "type": rq.ty}),
                        size: (rules.len() * 10000 + tagset.len() * 1000 + rq.url.len()) as u64,
                    });
                }
            }
        }
    }
    // sixth subject: the unoptimised blocker has by now answered every request (its compiled
    // regexes are cached); optimize() on that warm blocker, then every request once more
    if last_answers.len() == reqs.len() {
        plain.optimize();
        l.states += 1;
        let tagset = all_tagsets.last().cloned().unwrap_or_default();
        for (rq, before) in reqs.iter().zip(last_answers.iter()) {
            let before = match before {
                Some(b) => b,
                None => continue,
            };
            l.transitions += 1;
            l.compared += 1;
            match ask(&plain, res, rq) {
                Ok(after) => {
                    if let Some(field) = diff(before, &after) {
                        l.mismatch(Mismatch {
                            sig: format!("{}.warm-then-optimize", classify(rules, field)),
                            what: format!("rules {:?} tags {:?} request ({}, {}, {}): unoptimised {:?}, the same blocker after all queries and optimize() {:?}", rules, tagset, rq.url, rq.source, rq.ty, before, after),
                            case: json!({"rules": rules, "tags": tagset, "url": rq.url, "source": rq.source, "type": rq.ty}),
                            size: (rules.len() * 10000 + tagset.len() * 1000 + rq.url.len()) as u64,
                        });
                    }
                }
                Err(loc) => l.mismatch(Mismatch { sig: format!("c05.panic@{}", loc), what: format!("panic after optimize() on the warm blocker, rules {:?}", rules), case: json!({"rules": rules, "tags": tagset, "url": rq.url, "source": rq.source, "type": rq.ty}), size: rules.len() as u64 }),
            }
        }
    }
}

fn replay(case: &Value, l: &mut Local) {
    let rules: Vec<String> = case["rules"].as_array().map(|a| a.iter().filter_map(|v| v.as_str().map(|s| s.to_string())).collect()).unwrap_or_default();
    let refs: Vec<&str> = rules.iter().map(|s| s.as_str()).collect();
    let res = ResourceStorage::from_resources(vh::net::std_resources());
    let url = case["url"].as_str().unwrap_or("").to_string();
    let source = case["source"].as_str().unwrap_or("").to_string();
    let ty: &'static str = Box::leak(case["type"].as_str().unwrap_or("script").to_string().into_boxed_str());
    if let Ok(req) = adblock::request::Request::new(&url, &source, ty) {
        // the pool's whole request universe first (the warm-then-optimise subject depends on what was
        // asked before), the witness request last
        let mut reqs = requests();
        reqs.push(Req { req, url, source, ty });
        check_list(&refs, &reqs, &res, l);
    }
}

fn nth_combination(mut i: u64, n: usize, k: usize) -> Vec<usize> {
    // lexicographic k-combination of 0..n
    let binom = |n: u64, k: u64| -> u64 {
        if k > n {
            return 0;
        }
        let mut r = 1u64;
        for j in 0..k {
            r = r * (n - j) / (j + 1);
        }
        r
    };
    let mut out = vec![];
    let mut start = 0usize;
    for pos in 0..k {
        for c in start..n {
            let rest = binom((n - c - 1) as u64, (k - pos - 1) as u64);
            if i < rest {
                out.push(c);
                start = c + 1;
                break;
            }
            i -= rest;
        }
    }
    out
}

fn check(ctx: &Ctx) -> i32 {
    let reqs = requests();
    let n = POOL.len();
    ctx.bound("rule_pool", n);
    ctx.bound("requests", reqs.len());
    let ordered_k: u32 = ctx.tier.pick(2, 3);
    let combo_k: usize = ctx.tier.pick(3, 4);
    ctx.bound("ordered_lists_max_len", ordered_k);
    ctx.bound("unordered_lists_len", combo_k);
    let total = count_arrangements_upto(n as u64, ordered_k);
    ctx.par_range("ordered lists", total, 4, |i, l| {
        let res = ResourceStorage::from_resources(vh::net::std_resources());
        let mut idx = vec![];
        nth_arrangement(i, n as u64, &mut idx);
        let rules: Vec<&str> = idx.iter().map(|&j| POOL[j]).collect();
        if l.samples.len() < 2 && (i + ctx.seed) % 211 == 9 {
            l.samples.push(json!({"rules": rules, "requests": reqs.len(), "subjects": ["optimize=false", "optimize=true", "optimize=false + optimize() x2", "optimize=false + optimize() after every use_tags"]}));
        }
        check_list(&rules, &reqs, &res, l);
    });
    let binom = (0..combo_k as u64).fold(1u64, |r, j| r * (n as u64 - j) / (j + 1));
    ctx.par_range("unordered lists", binom, 4, |i, l| {
        let res = ResourceStorage::from_resources(vh::net::std_resources());
        let idx = nth_combination(i, n, combo_k);
        let rules: Vec<&str> = idx.iter().map(|&j| POOL[j]).collect();
        check_list(&rules, &reqs, &res, l);
    });
    // group sizes: n rules that all land in one bucket (their only indexable token is `adv`) and
    // are all fusable, n = 1..=N: whatever the optimiser does with large groups (chunking, RegexSet
    // limits), every rule must keep matching its own URL and nothing else
    // plain family: every n up to n_max; regex family (fused into a RegexSet, the expensive path):
    // every n up to 40, then the sizes around powers of two and a few large ones
    let n_max: usize = ctx.tier.pick(130, 400);
    // families: 0 = plain, 1 = small regexes, 2 = full regexes with counted repetitions (each compiles
    // to several KiB: the fused set is large although the group is small)
    let mut sizes: Vec<(usize, u8)> = (1..=n_max).map(|n| (n, 0u8)).collect();
    sizes.extend((1..=40).map(|n| (n, 1u8)));
    let around: Vec<usize> = ctx.tier.pick(vec![63, 64, 65, 66, 127, 128, 129, 130], vec![63, 64, 65, 66, 67, 100, 127, 128, 129, 130, 131, 191, 192, 193, 255, 256, 257, 258, 512, 768, 1024, 1536, 2048, 3000]);
    sizes.extend(around.iter().map(|n| (*n, 1u8)));
    let heavy: Vec<usize> = ctx.tier.pick(vec![1, 2, 3, 4, 8, 16, 24, 32, 48, 64, 100], vec![1, 2, 3, 4, 8, 16, 24, 32, 48, 64, 100, 150, 200, 300, 400]);
    sizes.extend(heavy.iter().map(|n| (*n, 2u8)));
    if ctx.tier == vh::Tier::Thorough {
        sizes.extend([512usize, 1024, 2048, 3000].iter().map(|n| (*n, 0u8)));
    }
    ctx.bound("group_size_max_every_n", n_max);
    ctx.bound("group_sizes_regex_family_beyond_40", json!(around));
    ctx.bound("group_sizes_heavy_regex_family", json!(heavy));
    ctx.par_range("group sizes", sizes.len() as u64, 1, |i, l| {
        let (n, family) = sizes[i as usize];
        let res = ResourceStorage::from_resources(vh::net::std_resources());
        // plain family: `/adv/x0001`; regex family: `/adv/*x0001^` (compiled, fused into a RegexSet);
        // heavy family: `/^https?:\/\/x\.com\/adv\/[a-z]{3,12}\/[a-z0-9]{10,60}x0001\//`
        let rules: Vec<String> = (0..n)
            .map(|k| match family {
                0 => format!("/adv/x{:04}", k),
                1 => format!("/adv/*x{:04}^", k),
                _ => format!("/^https?:\\/\\/x\\.com\\/adv\\/[a-z]{{3,12}}\\/[a-z0-9]{{10,60}}x{:04}\\//", k),
            })
            .collect();
        let refs: Vec<&str> = rules.iter().map(|s| s.as_str()).collect();
        let mut reqs: Vec<Req> = vec![];
        // every URL for small groups; for large ones the first, the last, the chunk borders and one beyond
        let ks: Vec<usize> = if n <= n_max { (0..n + 1).collect() } else { let mut v: Vec<usize> = (0..n + 1).step_by(61).collect(); v.extend([n - 1, n, 63, 64, 65, 127, 128, 129, 255, 256, 257]); v };
        for k in ks {
            let url = match family {
                0 => format!("https://x.com/adv/x{:04}/", k),
                1 => format!("https://x.com/adv/p/x{:04}/", k),
                _ => format!("https://x.com/adv/abc/abcdefghij0123x{:04}/", k),
            };
            if let Ok(req) = adblock::request::Request::new(&url, "https://y.com/", "script") {
                reqs.push(Req { req, url, source: "https://y.com/".into(), ty: "script" });
            }
        }
        check_list(&refs, &reqs, &res, l);
    });
    // shared buckets: a pattern-less rule with several initiator domains is filed once per domain
    // (one Arc in several buckets, which the optimiser must leave alone) next to every subset of
    // rules that the bucket of one of those domains owns alone
    let shared = ["*$script,domain=example.com|ads.net", "$image,domain=example.com|tracker.co.uk", "*$domain=example.com|ads.net|tracker.co.uk", "@@*$script,domain=example.com|ads.net"];
    let owned = ["/foo$image,domain=example.com", "/bar$image,domain=example.com", "ads$script,domain=example.com", "*$font,domain=example.com", "@@/foo$script,domain=example.com", "/foo/bar$script,domain=example.com"];
    ctx.bound("shared_bucket", json!({"shared_rules": shared, "owned_rules": owned}));
    let shared_reqs: Vec<Req> = vh::alpha::requests(false, true).into_iter().filter(|r| ["script", "image", "font", "other"].contains(&r.ty) && (r.source.contains("example.com") || r.source.contains("://ads.net")) && r.url.starts_with("https://")).collect();
    ctx.bound("shared_bucket_requests", shared_reqs.len());
    ctx.par_range("shared buckets", (shared.len() as u64) << owned.len(), 4, |i, l| {
        let res = ResourceStorage::from_resources(vh::net::std_resources());
        let si = (i >> owned.len()) as usize;
        let mut rules: Vec<&str> = owned.iter().enumerate().filter(|(k, _)| i & (1 << k) != 0).map(|(_, r)| *r).collect();
        rules.insert(rules.len() / 2, shared[si]);
        if si % 2 == 0 {
            rules.push(shared[si + 1]); // two shared rules in the same buckets
        }
        check_list(&rules, &shared_reqs, &res, l);
    });
    // the rule cube (vh::alpha): rules with the same option set are fusion candidates, rules whose
    // option sets differ in one respect must stay apart. Requests: the shared URL universe with two
    // (initiator, type) pairs per URL.
    let cube_reqs: Vec<Req> = vh::alpha::requests(false, false).into_iter().filter(|r| (r.ty == "script" && !r.source.is_empty()) || (r.ty == "image") || r.ty == "document")
        .filter(|r| {
            let hosts: &[&str] = if ctx.tier == vh::Tier::Quick { &["://ads.net/", "://example.com/"] } else { &["://ads.net/", "://a.ads.net/", "://example.com/", "://tracker.co.uk/", "://1.2.3.4/"] };
            hosts.iter().any(|h| r.url.contains(h))
        })
        .collect();
    let np = vh::alpha::CUBE_PATTERNS.len();
    let no = vh::alpha::CUBE_OPTIONS.len();
    ctx.bound("cube_requests", cube_reqs.len());
    ctx.bound("cube", json!({"patterns": np, "option_sets": no}));
    // (a) same option set: all pairs (thorough: all triples) of patterns, blocking and exception
    let k_same: usize = ctx.tier.pick(2, 3);
    let combos: u64 = if k_same == 2 { (np * (np - 1) / 2) as u64 } else { (np * (np - 1) * (np - 2) / 6) as u64 };
    // rules are fused bucket by bucket: a pair of patterns is only a fusion candidate when the two
    // can be filed under a common token (or both have none and go to the wildcard bucket). The
    // quick tier skips the other pairs; the thorough tier (triples) takes everything.
    let pattern_tokens: Vec<Vec<u64>> = (0..np)
        .map(|p| match vh::alpha::cube_rule(p, 1, false).and_then(|r| NetworkFilter::parse(&r, true, Default::default()).ok()) {
            Some(f) => f.get_tokens().into_iter().flatten().collect(),
            None => vec![],
        })
        .collect();
    let may_share_bucket = |a: usize, b: usize| (pattern_tokens[a].is_empty() && pattern_tokens[b].is_empty()) || pattern_tokens[a].iter().any(|t| pattern_tokens[b].contains(t));
    ctx.par_range("cube: same option set", combos * no as u64 * 2, 8, |i, l| {
        let res = ResourceStorage::from_resources(vh::net::std_resources());
        let c = i % combos;
        let o = ((i / combos) % no as u64) as usize;
        let exc = i / combos / no as u64 == 1;
        let idx = nth_combination(c, np, k_same);
        if k_same == 2 && !may_share_bucket(idx[0], idx[1]) {
            l.count("cube_pairs_skipped_no_common_bucket", 1);
            return;
        }
        let rules: Vec<String> = idx.iter().filter_map(|&p| vh::alpha::cube_rule(p, o, exc)).collect();
        if rules.len() < 2 {
            return;
        }
        let mut refs: Vec<&str> = rules.iter().map(|s| s.as_str()).collect();
        // an exception is only observable next to a blocking rule
        if exc {
            refs.push("/");
        }
        check_list(&refs, &cube_reqs, &res, l);
    });
    // (b) one pattern pair under two different option sets (grouping keys must keep them apart):
    // 8 (thorough: 12) patterns that land in the wildcard bucket or share the `ads` bucket x all ordered pairs of option sets
    let pats_b: Vec<usize> = vh::alpha::CUBE_PATTERNS.iter().enumerate().filter(|(_, p)| if ctx.tier == vh::Tier::Quick { ["ads", "ads*", "ads^", "a", "/", "*", "", "/ads"].contains(p) } else { ["ads", "ads*", "*ads", "ads^", "^ads^", "ads.", "a", "/", "*", "", "=1", "/ads"].contains(p) }).map(|(i, _)| i).collect();
    let nb = pats_b.len() as u64;
    ctx.par_range("cube: two option sets", nb * nb * (no * no) as u64, 8, |i, l| {
        let res = ResourceStorage::from_resources(vh::net::std_resources());
        let p1 = pats_b[(i % nb) as usize];
        let p2 = pats_b[((i / nb) % nb) as usize];
        let o1 = ((i / nb / nb) % no as u64) as usize;
        let o2 = (i / nb / nb / no as u64) as usize;
        if o1 >= o2 || p1 == p2 {
            return;
        }
        let (a, b) = match (vh::alpha::cube_rule(p1, o1, false), vh::alpha::cube_rule(p2, o2, false)) {
            (Some(a), Some(b)) => (a, b),
            _ => return,
        };
        check_list(&[a.as_str(), b.as_str()], &cube_reqs, &res, l);
    });
    ctx.finish(
        "model_checking",
        "all ordered lists of <= k rules and all k'-element subsets of the rule alphabet (rules that share the wildcard / 'adv*' buckets and differ in one fusion-relevant attribute: pattern, exception, important, tag, type, party, anchors, regex, match-case, hostname, domain, redirect, csp, removeparam); six real blockers per list (the unoptimised one once more after it answered every request and was then optimised in place, built optimised, built unoptimised, unoptimised + optimize() twice, unoptimised + optimize() after every tag switch, built optimised without the last rule + add_filter(last rule) + optimize()), under every tag subset, against the request universe; all verdict fields and the CSP set must agree; plus n same-bucket fusable rules for every n up to a bound (group sizes; three families: plain, small regexes, full regexes with counted repetitions), plus the rule cube: all pairs (thorough: triples) of 53 pattern shapes under each of 19 option sets, as blocking rules and as exceptions, and 12 same-bucket patterns under every two different option sets; non-trivial = the unoptimised engine reports anything",
        &["differential: the unoptimised engine is the reference (its own correctness is C01's subject)"],
    )
}

fn main() {
    run_main("C05", check, replay)
}
