//! C07 — tagged rules are active exactly when their tag is enabled.
//! BX: every subset of a 9-rule pool x optimise on/off x every tag set installed by one `use_tags`
//! x a request battery: the engine must answer like an engine built from the tag-stripped
//! sublist (no tag machinery involved in the reference).
//! HX: on representative lists, every sequence of <= d operations over
//! {use, enable, disable}(S) for all S in P({a,b,c}) and deserialize(buffer serialised under T):
//! after every step `tag_exists` must equal the set-algebra model, after the last step the whole
//! battery must equal the reference for the model's tag set. DESIGN §4 C07.

use adblock::Engine;
use serde_json::{json, Value};
use std::collections::{BTreeMap, BTreeSet};
use vh::net::{csp_set, engine, Verdict};
use vh::util::{catch, subsets_of};
use vh::{run_main, Ctx, Local, Mismatch};

const POOL: &[&str] = &[
    "adv$tag=a",
    "@@advice$tag=b",
    "adv$important,tag=a",
    "||x.com^$csp=d1,tag=b",
    "foo*bar$tag=a",
    "advert",
    "@@advert/x",
    "||y.com^$important",
    "||x.com^$csp=d2",
    // same rule under another tag: both land in one bucket and both match the same requests
    "@@advice$tag=a",
    "adv$important,tag=b",
    "foo*bar$tag=b",
    // plain tagged rules with the pattern of the tagged important ones (bucket neighbours in any
    // container that holds both kinds)
    "adv$tag=b",
    "adv$tag=c",
    // a second tagged exception under the tag of the first one, in its bucket (the two are fusion
    // candidates: whatever is built from them still carries the tag)
    "@@advisor$tag=b",
    // (no tagged `$redirect=` rule: src/blocker.rs documents "`tag` + `redirect` is unsupported
    // for now" and the property's category list does not name it; such rules are never active)
];
const TAGS: [&str; 3] = ["a", "b", "c"];

fn strip_tag(rule: &str) -> String {
    match rule.rsplit_once('$') {
        None => rule.to_string(),
        Some((p, o)) => {
            let kept: Vec<&str> = o.split(',').filter(|x| !x.starts_with("tag=")).collect();
            if kept.is_empty() {
                p.to_string()
            } else {
                format!("{}${}", p, kept.join(","))
            }
        }
    }
}

fn tag_of(rule: &str) -> Option<&str> {
    rule.rsplit_once('$')?.1.split(',').find_map(|o| o.strip_prefix("tag="))
}

fn battery() -> Vec<(String, &'static str, &'static str)> {
    let mut v = vec![];
    for u in ["https://x.com/adv", "https://x.com/advice", "https://x.com/advisor", "https://x.com/advert", "https://x.com/advert/x", "https://x.com/foo1bar", "https://x.com/", "https://y.com/adv", "https://y.com/", "https://w.com/advice?adv", "https://w.com/foo/bar"] {
        for ty in ["script", "document", "subdocument"] {
            v.push((u.to_string(), "https://z.com/", ty));
        }
    }
    v
}

/// per query: the ordinary verdict, the CSP set, and the two restricted forms of the check (a rule
/// matched earlier: only importants and exceptions are consulted; exceptions forced)
type Answers = Vec<(Verdict, Option<BTreeSet<String>>, [String; 2])>;

fn answers(e: &Engine, bat: &[(String, &'static str, &'static str)]) -> Result<Answers, String> {
    catch(|| {
        bat.iter()
            .map(|(u, s, t)| {
                let r = adblock::request::Request::new(u, s, t).unwrap();
                let sub = |a: bool, b: bool| Verdict::of(&e.check_network_request_subset(&r, a, b)).short();
                (Verdict::of(&e.check_network_request(&r)), csp_set(&e.get_csp_directives(&r)), [sub(true, false), sub(false, true)])
            })
            .collect()
    })
}

/// Reference: engine built from the rules that are untagged or whose tag is in `set`, with the
/// tag option textually removed, and no tag enabled.
fn reference(list: &[&str], set: &BTreeSet<String>, optimize: bool, bat: &[(String, &'static str, &'static str)]) -> Answers {
    let stripped: Vec<String> = list
        .iter()
        .filter(|r| tag_of(r).map(|t| set.contains(t)).unwrap_or(true))
        .map(|r| strip_tag(r))
        .collect();
    let refs: Vec<&str> = stripped.iter().map(|s| s.as_str()).collect();
    let e = engine(&refs, false, optimize);
    answers(&e, bat).expect("reference engine panicked")
}

/// Classifier: the category of the simplest single tagged rule that already misbehaves alone under
/// this tag set, else "interaction".
fn blame(list: &[&str], set: &BTreeSet<String>, optimize: bool, bat: &[(String, &'static str, &'static str)]) -> String {
    for r in list {
        if tag_of(r).is_none() {
            continue;
        }
        let single = [*r];
        let mut e = engine(&single, false, optimize);
        let refs: Vec<&str> = set.iter().map(|s| s.as_str()).collect();
        e.use_tags(&refs);
        if let Ok(got) = answers(&e, bat) {
            if first_diff(&got, &reference(&single, set, optimize, bat)).is_some() {
                return tagged_categories(&single, set);
            }
        }
    }
    "interaction".to_string()
}

fn first_diff(a: &Answers, b: &Answers) -> Option<usize> {
    a.iter().zip(b.iter()).position(|(x, y)| x != y)
}

/// Which rule categories are tagged in the list (for the signature).
fn tagged_categories(list: &[&str], set: &BTreeSet<String>) -> String {
    let mut c = BTreeSet::new();
    for r in list {
        if let Some(t) = tag_of(r) {
            let on = set.contains(t);
            let cat = if r.contains("csp=") {
                "csp"
            } else if r.starts_with("@@") {
                "exception"
            } else if r.contains("important") {
                "important"
            } else {
                "blocking"
            };
            c.insert(format!("{}:{}", cat, if on { "on" } else { "off" }));
        }
    }
    c.into_iter().collect::<Vec<_>>().join(",")
}

fn check_static(list: &[&str], optimize: bool, bat: &[(String, &'static str, &'static str)], l: &mut Local) {
    let mut e = engine(list, false, optimize);
    l.states += 1;
    for set in subsets_of(&TAGS) {
        let model: BTreeSet<String> = set.iter().map(|s| s.to_string()).collect();
        e.use_tags(&set);
        l.evaluations += 1;
        l.transitions += bat.len() as u64;
        let got = match answers(&e, bat) {
            Ok(a) => a,
            Err(loc) => {
                l.mismatch(Mismatch { sig: format!("c07.panic@{}", loc), what: "panic".into(), case: json!({"kind":"static","list":list,"optimize":optimize,"tags":set}), size: 1 });
                continue;
            }
        };
        let exp = reference(list, &model, optimize, bat);
        l.compared += bat.len() as u64;
        if list.iter().any(|r| tag_of(r).is_some()) {
            l.nontrivial += 1;
        }
        for t in TAGS {
            if e.tag_exists(t) != model.contains(t) {
                l.mismatch(Mismatch { sig: "c07.tag_exists".into(), what: format!("tag_exists({}) wrong after use_tags({:?})", t, set), case: json!({"kind":"static","list":list,"optimize":optimize,"tags":set}), size: list.len() as u64 });
            }
        }
        if let Some(i) = first_diff(&got, &exp) {
            // minimal responsible rule: the simplest tagged rule whose removal makes the case agree is
            // not searched here; enumeration is simplest-first so the smallest list wins by `size`.
            l.mismatch(Mismatch {
                sig: format!("c07.activity[{}]", blame(list, &model, optimize, bat)),
                what: format!("list {:?} optimize={} tags {:?} query {:?}: engine {:?}, tag-stripped reference {:?}", list, optimize, set, bat[i], got[i], exp[i]),
                case: json!({"kind":"static","list":list,"optimize":optimize,"tags":set}),
                size: (list.len() * 100 + set.len()) as u64,
            });
        }
        l.hist(&format!("tags={}", set.len()));
    }
}

// ---- HX -------------------------------------------------------------------------------------

#[derive(Clone, Debug)]
enum Op {
    Use(Vec<&'static str>),
    Enable(Vec<&'static str>),
    Disable(Vec<&'static str>),
    Deser(Vec<&'static str>),
    /// deserialize of a buffer that is rejected (a valid buffer cut in half): the call fails and
    /// the engine, its enabled set included, stays as it was
    DeserBad,
}

fn ops() -> Vec<Op> {
    let mut v = vec![];
    for s in subsets_of(&TAGS) {
        v.push(Op::Use(s.clone()));
    }
    for s in subsets_of(&TAGS) {
        v.push(Op::Enable(s.clone()));
    }
    for s in subsets_of(&TAGS) {
        v.push(Op::Disable(s.clone()));
    }
    for s in subsets_of(&["a", "b"]) {
        v.push(Op::Deser(s));
    }
    v.push(Op::DeserBad);
    // the same sets spelled in another order / with repetitions (arguments are slices, not sets)
    v.push(Op::Enable(vec!["b", "a"]));
    v.push(Op::Enable(vec!["c", "c"]));
    v.push(Op::Disable(vec!["b", "a", "b"]));
    v.push(Op::Use(vec!["c", "a", "c"]));
    v
}

fn op_name(o: &Op) -> String {
    match o {
        Op::Use(s) => format!("use{:?}", s),
        Op::Enable(s) => format!("enable{:?}", s),
        Op::Disable(s) => format!("disable{:?}", s),
        Op::Deser(s) => format!("deserialize(buffer made under {:?})", s),
        Op::DeserBad => "deserialize(truncated buffer)".to_string(),
    }
}

struct HxCtx {
    list: Vec<&'static str>,
    optimize: bool,
    bat: Vec<(String, &'static str, &'static str)>,
    ops: Vec<Op>,
    buffers: BTreeMap<Vec<&'static str>, Vec<u8>>,
    expected: BTreeMap<BTreeSet<String>, Answers>,
}

fn hx_ctx(list: &[&'static str], optimize: bool) -> HxCtx {
    let bat = battery();
    let mut buffers = BTreeMap::new();
    for t in subsets_of(&["a", "b"]) {
        let mut e = engine(list, false, optimize);
        e.use_tags(&t);
        buffers.insert(t.clone(), e.serialize_raw().expect("serialize"));
    }
    let mut expected = BTreeMap::new();
    for s in subsets_of(&TAGS) {
        let model: BTreeSet<String> = s.iter().map(|x| x.to_string()).collect();
        let a = reference(list, &model, optimize, &bat);
        expected.insert(model, a);
    }
    HxCtx { list: list.to_vec(), optimize, bat, ops: ops(), buffers, expected }
}

fn run_history(h: &HxCtx, seq: &[usize], l: &mut Local, which: usize) {
    let mut e = engine(&h.list, false, h.optimize);
    let mut model: BTreeSet<String> = BTreeSet::new();
    l.evaluations += 1;
    for (step, &oi) in seq.iter().enumerate() {
        let op = &h.ops[oi];
        l.transitions += 1;
        let r = catch(|| match op {
            Op::Use(s) => e.use_tags(s),
            Op::Enable(s) => e.enable_tags(s),
            Op::Disable(s) => e.disable_tags(s),
            Op::Deser(t) => e.deserialize(&h.buffers[t]).expect("valid buffer must load"),
            Op::DeserBad => {
                let b = &h.buffers[&Vec::<&'static str>::new()];
                assert!(e.deserialize(&b[..b.len() / 2]).is_err(), "a buffer cut in half was accepted");
            }
        });
        match op {
            Op::Use(s) => model = s.iter().map(|x| x.to_string()).collect(),
            Op::Enable(s) => model.extend(s.iter().map(|x| x.to_string())),
            Op::Disable(s) => {
                for x in s {
                    model.remove(*x);
                }
            }
            Op::Deser(_) | Op::DeserBad => {} // "loading a serialized engine keeps the caller's enabled set"
        }
        let case = || json!({"kind":"history","list_id":which,"optimize":h.optimize,"ops":seq});
        if let Err(loc) = r {
            l.mismatch(Mismatch { sig: format!("c07.history.panic@{}", loc), what: format!("{} panicked", op_name(op)), case: case(), size: seq.len() as u64 });
            return;
        }
        l.compared += 3;
        for t in TAGS {
            if e.tag_exists(t) != model.contains(t) {
                let names: Vec<String> = seq[..=step].iter().map(|&i| op_name(&h.ops[i])).collect();
                l.mismatch(Mismatch {
                    sig: format!("c07.history.tag_exists.after-{}", match op { Op::Use(_) => "use", Op::Enable(_) => "enable", Op::Disable(_) => "disable", Op::Deser(_) => "deserialize", Op::DeserBad => "failed-deserialize" }),
                    what: format!("after {:?}: tag_exists({}) = {}, model {:?}", names, t, e.tag_exists(t), model),
                    case: case(),
                    size: seq.len() as u64,
                });
                return;
            }
        }
    }
    // full battery after the last step
    let got = match answers(&e, &h.bat) {
        Ok(a) => a,
        Err(loc) => {
            l.mismatch(Mismatch { sig: format!("c07.history.panic@{}", loc), what: "battery panicked".into(), case: json!({"kind":"history","list_id":which,"optimize":h.optimize,"ops":seq}), size: seq.len() as u64 });
            return;
        }
    };
    let exp = &h.expected[&model];
    l.compared += h.bat.len() as u64;
    l.transitions += h.bat.len() as u64;
    if !model.is_empty() {
        l.nontrivial += 1;
    }
    l.hist(&format!("final-tags={}", model.len()));
    if let Some(i) = first_diff(&got, exp) {
        let names: Vec<String> = seq.iter().map(|&i| op_name(&h.ops[i])).collect();
        let last = seq.last().map(|&i| match h.ops[i] { Op::Use(_) => "use", Op::Enable(_) => "enable", Op::Disable(_) => "disable", Op::Deser(_) => "deserialize", Op::DeserBad => "failed-deserialize" }).unwrap_or("none");
        l.mismatch(Mismatch {
            sig: format!("c07.history.activity[{}].last-op-{}", blame(&h.list, &model, h.optimize, &h.bat), last),
            what: format!("list {:?} optimize={} after {:?} (model tags {:?}) query {:?}: engine {:?}, reference {:?}", h.list, h.optimize, names, model, h.bat[i], got[i], exp[i]),
            case: json!({"kind":"history","list_id":which,"optimize":h.optimize,"ops":seq}),
            size: (seq.len() * 100) as u64,
        });
    }
}

// ---- tag names are compared as given ----------------------------------------------------------

/// Names on the rule side and on the API side: the empty name, padded names, case twins, a name
/// with an inner blank, a non-ASCII name. Membership is by equality of the names given.
const NAMES: [&str; 9] = ["", "a", " a", "a ", "A", "ab", "a b", "\u{e9}", "\u{c9}"];
const NAME_FORMS: [(&str, &str); 4] = [("adv$tag={}", "blocking"), ("@@adv$tag={}", "exception"), ("adv$important,tag={}", "important"), ("||x.com^$csp=d1,tag={}", "csp")];

fn check_names(i: u64, l: &mut Local) {
    let n = NAMES.len() as u64;
    let r = NAMES[(i % n) as usize];
    if r.ends_with(' ') {
        // a list line is trimmed before it is parsed: a rule cannot carry a name that ends in a blank
        return;
    }
    let given = NAMES[((i / n) % n) as usize];
    let other = NAMES[((i / n / n) % n) as usize];
    let (form, kind) = NAME_FORMS[(i / n / n / n) as usize % NAME_FORMS.len()];
    let optimize = (i / n / n / n) as usize / NAME_FORMS.len() == 1;
    let rule = form.replace("{}", r);
    if !matches!(adblock::lists::parse_filter(&rule, true, Default::default()), Ok(adblock::lists::ParsedFilter::Network(_))) {
        l.count("tag_name_rules_rejected_by_the_parser", 1);
        return;
    }
    let list: Vec<&str> = if kind == "exception" { vec!["adv", rule.as_str()] } else { vec![rule.as_str()] };
    let req = adblock::request::Request::new("https://x.com/adv", "https://z.com/", if kind == "csp" { "document" } else { "script" }).unwrap();
    // what an active / inactive rule of this form answers
    let observe = |e: &Engine| -> Result<String, String> {
        catch(|| format!("{:?} {:?}", Verdict::of(&e.check_network_request(&req)), csp_set(&e.get_csp_directives(&req))))
    };
    let stripped: Vec<String> = list.iter().map(|x| strip_tag(x)).collect();
    let active_ans = observe(&engine(&stripped.iter().map(|x| x.as_str()).collect::<Vec<_>>(), false, optimize));
    let inactive_ans = observe(&engine(&list[..list.len() - 1], false, optimize));
    l.states += 1;
    // three ways to reach a set: use[given]; enable[given] on the empty set; use[given, other] then disable[other]
    for way in 0..3 {
        let mut e = engine(&list, false, optimize);
        let model: BTreeSet<&str> = match way {
            0 => {
                e.use_tags(&[given]);
                [given].into_iter().collect()
            }
            1 => {
                e.enable_tags(&[given]);
                [given].into_iter().collect()
            }
            _ => {
                e.use_tags(&[given, other]);
                e.disable_tags(&[other]);
                [given].into_iter().filter(|x| *x != other).collect()
            }
        };
        l.evaluations += 1;
        l.transitions += 2;
        l.compared += 1 + NAMES.len() as u64;
        let exp = if model.contains(r) { &active_ans } else { &inactive_ans };
        if model.contains(r) {
            l.nontrivial += 1;
        }
        let got = observe(&e);
        let case = json!({"kind":"names","index":i});
        if &got != exp {
            l.mismatch(Mismatch {
                sig: format!("c07.names.activity[{}]", kind),
                what: format!("rule {:?}, way {} with names ({:?}, {:?}): enabled set {:?}; answers {:?}, expected {:?}", rule, way, given, other, model, got, exp),
                case: case.clone(),
                size: (r.len() + given.len() + other.len()) as u64,
            });
        }
        for m in NAMES {
            if catch(|| e.tag_exists(m)) != Ok(model.contains(m)) {
                l.mismatch(Mismatch {
                    sig: "c07.names.tag_exists".into(),
                    what: format!("rule {:?}, way {} with names ({:?}, {:?}): enabled set {:?}, tag_exists({:?}) says otherwise", rule, way, given, other, model, m),
                    case: case.clone(),
                    size: (r.len() + given.len() + other.len()) as u64,
                });
            }
        }
    }
}

// ---- a blocker that receives tagged rules while tags are switched -----------------------------

/// Operations on a `Blocker` that starts with two untagged rules: tag switches and `add_filter` of
/// tagged rules of every category. After any history the blocker must answer like a blocker built
/// in one go from the rules it holds, with the model's tag set enabled.
const BH_ADD: [&str; 5] = ["adv$tag=a", "@@advice$tag=b", "adv$important,tag=a", "||x.com^$csp=d1,tag=b", "advert$tag=b"];
const BH_BASE: [&str; 2] = ["advice", "foo*bar"];
const BH_OPS: usize = 6 + BH_ADD.len();

fn bh_op_name(o: usize) -> String {
    match o {
        0 => "use[a]".into(),
        1 => "use[]".into(),
        2 => "enable[a]".into(),
        3 => "enable[b]".into(),
        4 => "disable[a]".into(),
        5 => "enable[]".into(),
        k => format!("add_filter({})", BH_ADD[k - 6]),
    }
}

fn bh_answers(b: &adblock::blocker::Blocker, bat: &[(String, &'static str, &'static str)]) -> Result<Vec<String>, String> {
    let res = adblock::resources::ResourceStorage::default();
    catch(|| {
        bat.iter()
            .map(|(u, s, t)| {
                let r = adblock::request::Request::new(u, s, t).unwrap();
                format!("{:?} {:?}", Verdict::of(&b.check(&r, &res)), csp_set(&b.get_csp_directives(&r)))
            })
            .collect()
    })
}

fn bh_run(seq: &[usize], optimize: bool, bat: &[(String, &'static str, &'static str)], l: &mut Local) {
    use adblock::blocker::{Blocker, BlockerOptions};
    let nf = |r: &str| adblock::filters::network::NetworkFilter::parse(r, true, Default::default()).expect("pool rule must parse");
    let opts = BlockerOptions { enable_optimizations: optimize };
    let mut b = Blocker::new(BH_BASE.iter().map(|r| nf(r)).collect(), &opts);
    let mut held: Vec<&str> = BH_BASE.to_vec();
    let mut model: BTreeSet<&str> = BTreeSet::new();
    l.evaluations += 1;
    let case = || json!({"kind":"blocker-history","optimize":optimize,"ops":seq});
    for &o in seq {
        l.transitions += 1;
        let r = catch(|| match o {
            0 => b.use_tags(&["a"]),
            1 => b.use_tags(&[]),
            2 => b.enable_tags(&["a"]),
            3 => b.enable_tags(&["b"]),
            4 => b.disable_tags(&["a"]),
            5 => b.enable_tags(&[]),
            k => {
                let _ = b.add_filter(nf(BH_ADD[k - 6]));
            }
        });
        if let Err(loc) = r {
            l.mismatch(Mismatch { sig: format!("c07.blocker-history.panic@{}", loc), what: format!("{} panicked", bh_op_name(o)), case: case(), size: seq.len() as u64 });
            return;
        }
        match o {
            0 => model = ["a"].into_iter().collect(),
            1 => model.clear(),
            2 => {
                model.insert("a");
            }
            3 => {
                model.insert("b");
            }
            4 => {
                model.remove("a");
            }
            5 => {}
            k => {
                if !held.contains(&BH_ADD[k - 6]) {
                    held.push(BH_ADD[k - 6]);
                }
            }
        }
    }
    let got = bh_answers(&b, bat);
    let mut fresh = Blocker::new(held.iter().map(|r| nf(r)).collect(), &BlockerOptions { enable_optimizations: false });
    fresh.use_tags(&model.iter().copied().collect::<Vec<_>>());
    let exp = bh_answers(&fresh, bat);
    l.compared += bat.len() as u64;
    if held.len() > BH_BASE.len() && !model.is_empty() {
        l.nontrivial += 1;
    }
    let mut enabled = b.tags_enabled();
    enabled.sort();
    let want: Vec<String> = model.iter().map(|s| s.to_string()).collect();
    if got != exp || enabled != want {
        let names: Vec<String> = seq.iter().map(|&o| bh_op_name(o)).collect();
        let i = match (&got, &exp) {
            (Ok(g), Ok(e)) => g.iter().zip(e.iter()).position(|(x, y)| x != y),
            _ => None,
        };
        l.mismatch(Mismatch {
            sig: format!("c07.blocker-history.{}.last-op-{}", if enabled != want { "enabled-set" } else { "activity" }, seq.last().map(|&o| if o < 6 { "tags" } else { "add_filter" }).unwrap_or("none")),
            what: format!("blocker (optimize={}) after {:?}: holds {:?}, model tags {:?}, tags_enabled {:?}; first differing query {:?}: blocker {:?}, blocker built in one go {:?}", optimize, names, held, model, enabled, i.map(|i| &bat[i]), i.and_then(|i| got.as_ref().ok().map(|g| g[i].clone())), i.and_then(|i| exp.as_ref().ok().map(|g| g[i].clone()))),
            case: case(),
            size: (seq.len() * 100) as u64,
        });
    }
}

fn hx_lists() -> Vec<(Vec<&'static str>, bool)> {
    let full: Vec<&'static str> = POOL.to_vec();
    let tagged: Vec<&'static str> = POOL.iter().copied().filter(|r| tag_of(r).is_some()).collect();
    let one_each: Vec<&'static str> = vec!["adv$tag=a", "@@advice$tag=b", "adv$important,tag=c", "||x.com^$csp=d1,tag=b", "advert"];
    vec![(full.clone(), true), (full, false), (tagged, true), (one_each, false)]
}

fn replay(case: &Value, l: &mut Local) {
    let bat = battery();
    match case["kind"].as_str().unwrap_or("") {
        "names" => check_names(case["index"].as_u64().unwrap_or(0), l),
        "blocker-history" => {
            let seq: Vec<usize> = case["ops"].as_array().map(|a| a.iter().filter_map(|v| v.as_u64().map(|x| x as usize)).collect()).unwrap_or_default();
            bh_run(&seq, case["optimize"].as_bool().unwrap_or(false), &bat, l);
        }
        "history" => {
            let which = case["list_id"].as_u64().unwrap_or(0) as usize;
            let lists = hx_lists();
            let (list, _) = &lists[which.min(lists.len() - 1)];
            let h = hx_ctx(list, case["optimize"].as_bool().unwrap_or(true));
            let seq: Vec<usize> = case["ops"].as_array().map(|a| a.iter().filter_map(|v| v.as_u64().map(|x| x as usize)).collect()).unwrap_or_default();
            run_history(&h, &seq, l, which);
        }
        _ => {
            let list: Vec<String> = case["list"].as_array().map(|a| a.iter().filter_map(|v| v.as_str().map(|s| s.to_string())).collect()).unwrap_or_default();
            let refs: Vec<&str> = list.iter().map(|s| s.as_str()).collect();
            check_static(&refs, case["optimize"].as_bool().unwrap_or(true), &bat, l);
        }
    }
}

fn check(ctx: &Ctx) -> i32 {
    let bat = battery();
    ctx.bound("pool", POOL.len());
    ctx.bound("battery_queries", bat.len());
    // BX part
    ctx.par_range("pool subsets x optimise", (1u64 << POOL.len()) * 2, 4, |i, l| {
        let optimize = i % 2 == 0;
        let m = i / 2;
        let list: Vec<&str> = POOL.iter().enumerate().filter(|(j, _)| m & (1 << j) != 0).map(|(_, r)| *r).collect();
        if l.samples.len() < 1 && (i + ctx.seed) % 97 == 5 {
            l.samples.push(json!({"kind":"static","list":list,"optimize":optimize,"tag_sets":8,"battery":bat.len()}));
        }
        check_static(&list, optimize, &bat, l);
    });
    // tag names: every (rule-side name, two API-side names) triple x 4 rule categories x optimise
    let nn = NAMES.len() as u64;
    ctx.bound("tag_name_spellings", NAMES.len());
    ctx.par_range("tag names: rule-side x API-side spellings", nn * nn * nn * NAME_FORMS.len() as u64 * 2, 4, |i, l| check_names(i, l));
    // blocker histories: tag switches interleaved with add_filter of tagged rules
    let bh_depth: u32 = ctx.tier.pick(4, 5);
    ctx.bound("blocker_history_depth", bh_depth);
    ctx.bound("blocker_history_operations", BH_OPS);
    let bh_total = vh::util::count_strings_upto(BH_OPS as u64, bh_depth);
    ctx.par_range("blocker histories (tag switches x add_filter)", bh_total * 2, 64, |i, l| {
        let mut seq = vec![];
        vh::util::nth_seq(i / 2, BH_OPS as u64, &mut seq);
        bh_run(&seq, i % 2 == 1, &bat, l);
    });
    // HX part
    let depth: u32 = ctx.tier.pick(3, 4);
    ctx.bound("history_depth", depth);
    let lists = hx_lists();
    let nops = ops().len() as u64;
    ctx.bound("operation_alphabet", nops);
    ctx.bound("history_lists", lists.len());
    for (which, (list, optimize)) in lists.iter().enumerate() {
        let h = hx_ctx(list, *optimize);
        let total = vh::util::count_strings_upto(nops, depth);
        ctx.par_range(&format!("histories list#{}", which), total, 64, |i, l| {
            let mut seq = vec![];
            vh::util::nth_seq(i, nops, &mut seq);
            if l.samples.len() < 2 && (i + ctx.seed) % 5003 == 17 {
                l.samples.push(json!({"kind":"history","list":h.list,"optimize":h.optimize,"ops":seq.iter().map(|&k| op_name(&h.ops[k])).collect::<Vec<_>>()}));
            }
            run_history(&h, &seq, l, which);
        });
        ctx.merge({
            let mut l = Local::default();
            l.states += 8; // model states: subsets of {a,b,c}
            l
        });
    }
    ctx.finish(
        "model_checking",
        "BX: all 16384 subsets of the 14-rule pool x optimise on/off x all 8 tag sets x a 30-query battery (network + CSP), compared with an engine built from the tag-stripped sublist; HX: on 4 representative lists every operation sequence of length <= d over 28 operations (use/enable/disable of every subset of {a,b,c}; deserialize of the same list serialised under every subset of {a,b}), each on a fresh real engine; tag_exists checked against the set model after every step and the battery after the last; tag names: 9 spellings (empty, padded, case twins, inner blank, non-ASCII) on the rule side x the same on the API side (use, enable, use+disable of a second name) x 4 rule categories x optimise, membership by equality of the names given; blocker histories: every sequence of <= 4 (thorough 5) of 11 operations (use / enable / disable of tags, add_filter of a tagged rule of each category) on a Blocker built with and without optimisation, compared with a blocker built in one go from the rules held, under the model's tag set; non-trivial = a tagged rule is present / the final tag set is non-empty; states = engines built + model states, transitions = operations and queries executed",
        &["the tag-stripped reference engine is built by the same crate (differential); tag combined with redirect / removeparam / generichide is outside the property's list of categories and not generated"],
    )
}

fn main() {
    run_main("C07", check, replay)
}
