//! C16 — per-site cosmetic resources contain exactly the rules scoped to that host.
//! BX: every ordered list of <= 2 (quick) / <= 3 connected (thorough) cosmetic rules of an alphabet
//! (location forms x bodies x `##`/`#@#`) x three network sides (no generichide, a generichide
//! exception for example.com, an unrelated one) x page hosts; `Engine::url_cosmetic_resources` is
//! compared field by field with a reference that scopes rules on *strings* (no hashes): registrable
//! domain from `addr::psl`, label-suffix lookup sets, exceptions win. DESIGN §4 C16.

use adblock::lists::{parse_filter, FilterSet, ParseOptions};
use adblock::request::Request;
use adblock::resources::{MimeType, Resource, ResourceType};
use serde_json::{json, Value};
use std::collections::BTreeSet;
use vh::net::{engine_from_set, resource};
use vh::util::{assert_no_hash_collisions, catch, count_arrangements_upto, nth_arrangement};
use vh::{run_main, Ctx, Local, Mismatch};

// ------------------------------------------------------------------------------------------------
// alphabet
// ------------------------------------------------------------------------------------------------

#[derive(Clone, Copy, PartialEq, Eq, Debug)]
enum Kind {
    /// plain selector: hide / unhide
    Plain,
    /// selector with an action (`:style(..)`, `:remove()`): procedural/action JSON
    Action,
    /// `+js(..)`
    Script,
}

struct Body {
    text: &'static str,
    kind: Kind,
    /// Plain/Action: the CSS selector; Script: the text between `+js(` and `)`
    sel: &'static str,
    /// Action: (type, arg)
    action: Option<(&'static str, Option<&'static str>)>,
}

const BODIES: [Body; 10] = [
    Body { text: ".ad", kind: Kind::Plain, sel: ".ad", action: None },
    Body { text: "#id", kind: Kind::Plain, sel: "#id", action: None },
    Body { text: "div[x]", kind: Kind::Plain, sel: "div[x]", action: None },
    Body { text: ".ad > a", kind: Kind::Plain, sel: ".ad > a", action: None },
    Body { text: ".ad:style(x)", kind: Kind::Action, sel: ".ad", action: Some(("style", Some("x"))) },
    Body { text: ".ad:remove()", kind: Kind::Action, sel: ".ad", action: Some(("remove", None)) },
    Body { text: "+js(s1)", kind: Kind::Script, sel: "s1", action: None },
    Body { text: "+js(s1, arg)", kind: Kind::Script, sel: "s1, arg", action: None },
    Body { text: "+js(s2, arg)", kind: Kind::Script, sel: "s2, arg", action: None },
    Body { text: "+js()", kind: Kind::Script, sel: "", action: None },
];
const NB: usize = BODIES.len();
/// index of the blanket `+js()` body
const BLANKET: usize = 9;

const HOSTNAMES: [&str; 8] = [
    "example.com",
    "sub.example.com",
    "a.b.example.com",
    "example.co.uk",
    "x.example.co.uk",
    "example.org",
    "bücher.de",
    "localhost",
];
const ENTITIES: [&str; 3] = ["example.*", "sub.example.*", "b.example.*"];

/// Location lists with two items (each chosen for one interaction of positive / negated / entity).
const PAIRS: [&str; 19] = [
    "example.com,example.org",          // two unrelated positives
    "example.com,~sub.example.com",     // host minus one subdomain
    "sub.example.com,~example.com",     // positive below a negated parent: applies nowhere
    "example.*,~example.co.uk",         // entity minus one concrete registrable domain
    "example.com,~example.*",           // host under a negated entity: applies nowhere
    "~example.com,~example.org",        // two negations only: generic elsewhere
    "~example.com,~sub.example.*",      // a negated hostname and a negated entity: generic elsewhere
    "example.co.uk,~x.example.co.uk",   // multi-label suffix, host minus subdomain
    "example.*,~sub.example.*",         // entity minus entity
    "a.b.example.com,b.example.*",      // hostname and entity, both positive
    "bücher.de,example.com",            // IDN next to ASCII
    "Example.com,~SUB.example.com",     // upper-case letters in a location (ASCII and IDN)
    "BÜCHER.de,Example.*",
    "bücher.de,münchen.de",             // two IDN locations (each is converted to punycode on its own)
    "example.com,~bücher.de,münchen.de,straße.*", // three, of every kind
    "example.org,example.*",            // hostname and entity, both positive; most pages covered by the entity only
    "localhost,sub.example.*",          // the same with a sub-domain entity
    "example.*,~sub.example.com,~x.example.*", // entity minus a hostname and minus an entity
    "example.com,example.co.uk,~sub.example.com,~x.example.*", // two of each polarity, hostname and entity negations
];

/// Public suffixes used as hostname locations (the property's "or public suffix").
/// `uk` and `io` are label-suffixes OF a multi-label public suffix (co.uk, github.io): they are neither
/// the page's public suffix nor a parent domain down to it, and cover no page under co.uk / github.io.
const PUBLIC_SUFFIX_FORMS: [&str; 6] = ["com", "co.uk", "~co.uk", "uk", "io", "github.io"];

const PAGE_HOSTS: [&str; 18] = [
    "user.github.io",
    "münchen.de",
    "straße.co.uk",
    "example.com",
    "sub.example.com",
    "a.b.example.com",
    "example.co.uk",
    "x.example.co.uk",
    "example.org",
    "bücher.de",
    "localhost",
    "example.com.evil.org",
    "myexample.com",
    "co.uk",
    "127.0.0.1",
    "deep.a.b.example.com",
    // registrable domains that begin with their own public suffix (the suffix is cut off once)
    "example.net.net",
    "sub.example.com.au.com.au",
];

const GH_RULES: [Option<&str>; 5] = [
    None,
    Some("@@||example.com^$generichide"),
    Some("@@||unrelated.net^$generichide"),
    // the page is its own initiator for this lookup: a pattern-less generichide exception scoped by
    // domain=, and one with an excluded sub-domain
    Some("@@$generichide,domain=example.com"),
    Some("@@||example.com^$generichide,domain=~sub.example.com"),
];

/// Does the generichide exception of network side `gh` apply to the page?
fn gh_applies(gh: usize, p: &Page) -> bool {
    let under_sub = p.host == "sub.example.com" || p.host.ends_with(".sub.example.com");
    match gh {
        1 | 3 => p.under_example_com,
        4 => p.under_example_com && !under_sub,
        _ => false,
    }
}

const S1_CONTENT: &str = "function s1(a) { window.s1 = a; }";
const S2_CONTENT: &str = "window.s2 = \"{{1}}\";";

fn resources() -> Vec<Resource> {
    vec![
        resource("s1.js", &[], ResourceType::Mime(MimeType::ApplicationJavascript), S1_CONTENT, &[], 0),
        resource("s2.js", &[], ResourceType::Template, S2_CONTENT, &[], 0),
    ]
}

#[derive(Clone, Debug)]
struct Loc {
    /// ASCII (punycode) form, without `~` and without `.*`
    name: String,
    entity: bool,
    neg: bool,
}

#[derive(Clone, Debug)]
struct Rule {
    text: String,
    /// text before the separator (identifies the location form)
    loc_text: String,
    locs: Vec<Loc>,
    unhide: bool,
    body: usize,
}

fn to_ascii(name: &str) -> Option<String> {
    // host names are case-insensitive; a page's host is reported in lower case
    if name.is_ascii() {
        Some(name.to_ascii_lowercase())
    } else {
        idna::domain_to_ascii(name).ok().filter(|s| !s.is_empty())
    }
}

/// The reference's own reader for the rule grammar of this alphabet:
/// `[loc{,loc}] ("##" | "#@#") body`, loc = ["~"] name [".*"].
fn parse_rule(text: &str) -> Option<Rule> {
    let i = text.find('#')?;
    // `#?#` / `#@?#`: the ABP spellings of `##` / `#@#` for extended selectors
    let (unhide, body_text) = if text[i..].starts_with("#@?#") {
        (true, &text[i + 4..])
    } else if text[i..].starts_with("#@#") {
        (true, &text[i + 3..])
    } else if text[i..].starts_with("#?#") {
        (false, &text[i + 3..])
    } else if text[i..].starts_with("##") {
        (false, &text[i + 2..])
    } else {
        return None;
    };
    let body = BODIES.iter().position(|b| b.text == body_text)?;
    let loc_text = &text[..i];
    let mut locs = vec![];
    for part in loc_text.split(',').filter(|p| !p.is_empty()) {
        let (neg, rest) = match part.strip_prefix('~') {
            Some(r) => (true, r),
            None => (false, part),
        };
        let (entity, name) = match rest.strip_suffix(".*") {
            Some(n) => (true, n),
            None => (false, rest),
        };
        locs.push(Loc { name: to_ascii(name)?, entity, neg });
    }
    Some(Rule { text: text.to_string(), loc_text: loc_text.to_string(), locs, unhide, body })
}

/// Rules that the documented grammar rejects (error variants GenericUnhide, GenericScriptInject,
/// GenericAction, DoubleNegation): they are not part of the alphabet.
fn documented_invalid(r: &Rule) -> bool {
    if r.locs.is_empty() {
        return r.unhide || BODIES[r.body].kind != Kind::Plain;
    }
    r.unhide && r.locs.iter().any(|l| l.neg)
}

fn location_forms() -> Vec<String> {
    let mut v = vec![String::new()];
    for h in HOSTNAMES.iter().chain(ENTITIES.iter()) {
        v.push(h.to_string());
    }
    for h in HOSTNAMES.iter().chain(ENTITIES.iter()) {
        v.push(format!("~{}", h));
    }
    for p in PUBLIC_SUFFIX_FORMS {
        v.push(p.to_string());
    }
    for p in PAIRS {
        v.push(p.to_string());
    }
    v
}

struct Alphabet {
    rules: Vec<Rule>,
    excluded: Vec<String>,
}

fn build_alphabet() -> Alphabet {
    let mut rules = vec![];
    let mut excluded = vec![];
    // simplest first: body-major would scatter locations; location-major keeps short rules early
    for loc in location_forms() {
        for b in BODIES.iter() {
            for op in ["##", "#@#"] {
                let text = format!("{}{}{}", loc, op, b.text);
                let r = parse_rule(&text).expect("alphabet rule must be readable by the reference");
                if documented_invalid(&r) {
                    excluded.push(text);
                } else {
                    rules.push(r);
                }
            }
        }
    }
    // the two ABP marker spellings on a few locations (plain selector bodies only)
    for loc in ["example.com", "sub.example.com", "example.*", "example.com,~sub.example.com"] {
        for (bi, b) in BODIES.iter().enumerate() {
            if b.kind != Kind::Plain || bi > 3 {
                continue;
            }
            for op in ["#?#", "#@?#"] {
                let text = format!("{}{}{}", loc, op, b.text);
                let r = parse_rule(&text).expect("alphabet rule must be readable by the reference");
                if documented_invalid(&r) {
                    excluded.push(text);
                } else {
                    rules.push(r);
                }
            }
        }
    }
    Alphabet { rules, excluded }
}

// ------------------------------------------------------------------------------------------------
// pages
// ------------------------------------------------------------------------------------------------

#[derive(Clone, Debug)]
struct Page {
    url: String,
    /// ASCII host
    host: String,
    domain: String,
    suffix: Option<String>,
    /// host without ".<suffix>"
    entity_base: Option<String>,
    host_lookup: BTreeSet<String>,
    entity_lookup: BTreeSet<String>,
    under_example_com: bool,
}

/// Registrable domain from the public suffix list, called directly (trusted component shared with
/// the crate). Hosts without one (IP literals, single labels, a public suffix itself): the host.
fn registrable(host: &str) -> String {
    use addr::parser::DomainName;
    use addr::psl::List;
    match List.parse_domain_name(host) {
        Ok(d) => d.root().unwrap_or(host).to_string(),
        Err(_) => host.to_string(),
    }
}

fn label_suffixes(s: &str) -> Vec<&str> {
    let mut v = vec![s];
    for (i, c) in s.char_indices() {
        if c == '.' {
            v.push(&s[i + 1..]);
        }
    }
    v
}

fn url_host(url: &str) -> Option<&str> {
    let rest = &url[url.find("://")? + 3..];
    let end = rest.find(|c| c == '/' || c == '?' || c == '#').unwrap_or(rest.len());
    Some(&rest[..end])
}

fn make_page(url: &str) -> Option<Page> {
    let host = to_ascii(url_host(url)?)?;
    let domain = registrable(&host);
    if !host.ends_with(&domain) {
        return None;
    }
    let suffix = domain.find('.').map(|i| domain[i + 1..].to_string());
    let mut host_lookup = BTreeSet::new();
    for s in label_suffixes(&host) {
        if s.len() >= domain.len() {
            host_lookup.insert(s.to_string());
        }
    }
    let mut entity_lookup = BTreeSet::new();
    let mut entity_base = None;
    if let Some(p) = &suffix {
        host_lookup.insert(p.clone());
        if let Some(base) = host.strip_suffix(&format!(".{}", p)) {
            for s in label_suffixes(base) {
                entity_lookup.insert(s.to_string());
            }
            entity_base = Some(base.to_string());
        }
    }
    let under_example_com = host == "example.com" || host.ends_with(".example.com");
    Some(Page { url: url.to_string(), host, domain, suffix, entity_base, host_lookup, entity_lookup, under_example_com })
}

fn build_pages(thorough: bool) -> Vec<Page> {
    let mut out = vec![];
    for h in PAGE_HOSTS {
        out.push(make_page(&format!("https://{}/", h)).expect("page host must be readable"));
        if thorough {
            out.push(make_page(&format!("http://{}/a/b.html?x=1#f", h)).expect("page host must be readable"));
        }
    }
    out
}

// ------------------------------------------------------------------------------------------------
// reference model
// ------------------------------------------------------------------------------------------------

fn covers(l: &Loc, p: &Page) -> bool {
    if l.entity {
        p.entity_lookup.contains(&l.name)
    } else {
        p.host_lookup.contains(&l.name)
    }
}

/// What one rule contributes on one page.
#[derive(Clone, Copy, Default, Debug)]
struct Eff {
    /// the rule's domain list covers the page (a positive location does, no negated one does)
    plus: bool,
    /// an `#@#` rule whose domain list covers the page
    minus_unhide: bool,
    /// a negated location of the rule covers the page
    minus_neg: bool,
    /// the rule is unscoped (no location, or negated locations only with a plain selector)
    generic: bool,
    /// only negated locations with an action / `+js` body: the property does not say what it means
    unspec: bool,
}

fn eff(r: &Rule, p: &Page) -> Eff {
    let mut e = Eff::default();
    let kind = BODIES[r.body].kind;
    if r.locs.is_empty() {
        e.generic = true;
        return e;
    }
    let pos_any = r.locs.iter().any(|l| !l.neg);
    let pos_cov = r.locs.iter().any(|l| !l.neg && covers(l, p));
    let neg_cov = r.locs.iter().any(|l| l.neg && covers(l, p));
    if !pos_any {
        if kind == Kind::Plain {
            e.generic = true;
            e.minus_neg = neg_cov;
        } else {
            e.unspec = true;
        }
        return e;
    }
    if r.unhide {
        e.minus_unhide = pos_cov;
    } else {
        e.plus = pos_cov && !neg_cov;
        e.minus_neg = neg_cov;
    }
    e
}

fn canon(v: &Value) -> String {
    match v {
        Value::Object(m) => {
            let mut keys: Vec<&String> = m.keys().collect();
            keys.sort();
            let parts: Vec<String> = keys
                .iter()
                .map(|k| format!("{}:{}", Value::String((*k).clone()), canon(&m[*k])))
                .collect();
            format!("{{{}}}", parts.join(","))
        }
        Value::Array(a) => format!("[{}]", a.iter().map(canon).collect::<Vec<_>>().join(",")),
        other => other.to_string(),
    }
}

fn action_json(b: &Body) -> String {
    let (ty, arg) = b.action.expect("action body");
    let action = match arg {
        Some(a) => json!({"type": ty, "arg": a}),
        None => json!({"type": ty}),
    };
    canon(&json!({"selector": [{"type": "css-selector", "arg": b.sel}], "action": action}))
}

/// The invocation a `+js(args)` body stands for with the two scriptlets of this check.
fn script_block(args: &str) -> Option<String> {
    let parts: Vec<&str> = args.split(',').map(|s| s.trim()).collect();
    match parts[0] {
        "s1" => {
            let quoted: Vec<String> = parts[1..].iter().map(|a| Value::String(a.to_string()).to_string()).collect();
            Some(format!("s1({})", quoted.join(", ")))
        }
        "s2" => {
            let mut t = S2_CONTENT.to_string();
            if let Some(a) = parts.get(1) {
                t = t.replacen("{{1}}", a, 1);
            }
            Some(t)
        }
        _ => None,
    }
}

/// Per body: the selector / JSON value / invocation it contributes (computed once).
static ITEMS: once_cell::sync::Lazy<Vec<String>> = once_cell::sync::Lazy::new(|| (0..NB).map(item_of).collect());

/// What a returned item of some field corresponds to in the body table.
fn item_of(b: usize) -> String {
    match BODIES[b].kind {
        Kind::Plain => BODIES[b].sel.to_string(),
        Kind::Action => action_json(&BODIES[b]),
        Kind::Script => script_block(BODIES[b].sel).unwrap_or_default(),
    }
}

#[derive(Clone, Debug, PartialEq, Eq)]
struct Res {
    hide: BTreeSet<String>,
    procedural: BTreeSet<String>,
    exceptions: BTreeSet<String>,
    preamble: String,
    blocks: Vec<String>,
    generichide: bool,
}

#[derive(Default)]
struct Masks {
    plus: [u8; NB],
    minus_unhide: [u8; NB],
    minus_neg: [u8; NB],
    generic: [u8; NB],
}

fn masks(rules: &[&Rule], effs: &[Eff]) -> Masks {
    let mut m = Masks::default();
    for (i, (r, e)) in rules.iter().zip(effs).enumerate() {
        let bit = 1u8 << i;
        if e.plus {
            m.plus[r.body] |= bit;
        }
        if e.minus_unhide {
            m.minus_unhide[r.body] |= bit;
        }
        if e.minus_neg {
            m.minus_neg[r.body] |= bit;
        }
        if e.generic {
            m.generic[r.body] |= bit;
        }
    }
    m
}

/// Items the property does not pin for this case: executed, not compared.
#[derive(Default, Debug)]
struct Skip {
    /// plain selectors left out of the `hide_selectors` and `exceptions` comparison
    selectors: BTreeSet<String>,
    /// procedural / action JSON values left out
    procedural: BTreeSet<String>,
    /// script invocations left out
    blocks: BTreeSet<String>,
    /// the whole injected script is left out
    all_script: bool,
    reasons: BTreeSet<&'static str>,
}

impl Skip {
    fn any(&self) -> bool {
        !self.reasons.is_empty()
    }
    fn body(&mut self, b: usize, why: &'static str) {
        self.reasons.insert(why);
        match BODIES[b].kind {
            Kind::Plain => {
                self.selectors.insert(BODIES[b].sel.to_string());
            }
            Kind::Action => {
                self.procedural.insert(ITEMS[b].clone());
            }
            Kind::Script => {
                if b == BLANKET {
                    self.all_script = true;
                } else if !ITEMS[b].is_empty() {
                    self.blocks.insert(ITEMS[b].clone());
                }
            }
        }
    }
}

fn is_misc(sel: &str) -> bool {
    !sel.starts_with('.') && !sel.starts_with('#')
}

const WHY_ONLY_NEG: &str = "only-negated-locations-with-action-or-script";
const WHY_CROSS_NEG: &str = "negated-location-vs-other-rule";

fn model(rules: &[&Rule], effs: &[Eff], generichide: bool) -> (Res, Skip) {
    let mut skip = Skip::default();
    for (r, e) in rules.iter().zip(effs) {
        if e.unspec {
            skip.body(r.body, WHY_ONLY_NEG);
        }
    }
    let m = masks(rules, effs);
    // A negated location of one rule is an exception for that rule at that host. Whether it also
    // takes away what *another* rule (or an unscoped rule) provides for the same host is not
    // stated by the property: that body is not compared.
    for b in 0..NB {
        let mut neg = m.minus_neg[b];
        while neg != 0 {
            let bit = neg & neg.wrapping_neg();
            neg &= !bit;
            if (m.plus[b] | m.generic[b]) & !bit != 0 {
                skip.body(b, WHY_CROSS_NEG);
            }
            if b == BLANKET {
                for b2 in 0..NB {
                    if BODIES[b2].kind == Kind::Script && m.plus[b2] & !bit != 0 {
                        skip.body(BLANKET, WHY_CROSS_NEG);
                    }
                }
            }
        }
    }
    let mut res = Res {
        hide: BTreeSet::new(),
        procedural: BTreeSet::new(),
        exceptions: BTreeSet::new(),
        preamble: String::new(),
        blocks: vec![],
        generichide,
    };
    let blanket = (m.minus_unhide[BLANKET] | m.minus_neg[BLANKET]) != 0;
    let mut s1_used = false;
    for b in 0..NB {
        let body = &BODIES[b];
        let minus = (m.minus_unhide[b] | m.minus_neg[b]) != 0;
        match body.kind {
            Kind::Plain => {
                if minus {
                    res.exceptions.insert(body.sel.to_string());
                } else if m.plus[b] != 0
                    || (m.generic[b] != 0 && is_misc(body.sel) && !generichide)
                {
                    res.hide.insert(body.sel.to_string());
                }
            }
            Kind::Action => {
                if m.plus[b] != 0 && !minus {
                    res.procedural.insert(ITEMS[b].clone());
                }
            }
            Kind::Script => {
                if m.plus[b] != 0 && !minus && !blanket {
                    let block = &ITEMS[b];
                    if !block.is_empty() {
                        if block.starts_with("s1(") {
                            s1_used = true;
                        }
                        res.blocks.push(block.clone());
                    }
                }
            }
        }
    }
    res.blocks.sort();
    res.blocks.dedup();
    if s1_used {
        res.preamble = format!("{}\n", S1_CONTENT);
    }
    (res, skip)
}

/// Removes the items that are not compared from one side.
fn without_skipped(r: &Res, skip: &Skip) -> Res {
    let script_skipped = skip.all_script || !skip.blocks.is_empty();
    Res {
        hide: r.hide.difference(&skip.selectors).cloned().collect(),
        procedural: r.procedural.difference(&skip.procedural).cloned().collect(),
        exceptions: r.exceptions.difference(&skip.selectors).cloned().collect(),
        // the function definitions in front of the invocations depend on every invocation
        preamble: if script_skipped { String::new() } else { r.preamble.clone() },
        blocks: if skip.all_script {
            vec![]
        } else {
            r.blocks.iter().filter(|b| !skip.blocks.contains(*b)).cloned().collect()
        },
        generichide: r.generichide,
    }
}

// ------------------------------------------------------------------------------------------------
// subject
// ------------------------------------------------------------------------------------------------

const OPEN: &str = "try {\n";
const CLOSE: &str = "\n} catch ( e ) { }\n";

/// Splits an injected script into (text before the first block, the blocks).
fn split_script(s: &str) -> Option<(String, Vec<String>)> {
    let first = match s.find(OPEN) {
        Some(i) => i,
        None => return Some((s.to_string(), vec![])),
    };
    let pre = s[..first].to_string();
    let mut rest = &s[first..];
    let mut blocks = vec![];
    while !rest.is_empty() {
        rest = rest.strip_prefix(OPEN)?;
        let end = rest.find(CLOSE)?;
        blocks.push(rest[..end].to_string());
        rest = &rest[end + CLOSE.len()..];
    }
    blocks.sort();
    Some((pre, blocks))
}

fn build_engine(rules: &[&Rule], gh: usize, res: &[Resource]) -> adblock::Engine {
    let mut fs = FilterSet::new(false);
    let texts: Vec<&str> = rules.iter().map(|r| r.text.as_str()).collect();
    fs.add_filters(&texts, ParseOptions::default());
    if let Some(g) = GH_RULES[gh] {
        fs.add_filters([g], ParseOptions::default());
    }
    let mut e = engine_from_set(fs, true);
    e.use_resources(res.to_vec());
    e
}

fn observe(e: &adblock::Engine, url: &str) -> Result<Res, String> {
    let r = catch(|| e.url_cosmetic_resources(url))?;
    let (preamble, blocks) = match split_script(&r.injected_script) {
        Some(x) => x,
        None => (format!("!unsplittable:{}", r.injected_script), vec![]),
    };
    Ok(Res {
        hide: r.hide_selectors.into_iter().collect(),
        procedural: r
            .procedural_actions
            .iter()
            .map(|s| match serde_json::from_str::<Value>(s) {
                Ok(v) => canon(&v),
                Err(_) => format!("!not-json:{}", s),
            })
            .collect(),
        exceptions: r.exceptions.into_iter().collect(),
        preamble,
        blocks,
        generichide: r.generichide,
    })
}

// ------------------------------------------------------------------------------------------------
// classifier
// ------------------------------------------------------------------------------------------------

fn suffix_class(p: &Page) -> String {
    match &p.suffix {
        None => "ps0".into(),
        Some(s) => format!("ps{}", s.split('.').count()),
    }
}

/// How a covering location relates to the page host.
fn cover_reason(l: &Loc, p: &Page) -> &'static str {
    if l.entity {
        if p.entity_base.as_deref() == Some(l.name.as_str()) {
            "entity-exact"
        } else {
            "entity-parent"
        }
    } else if l.name == p.host {
        "host-exact"
    } else if l.name == p.domain {
        "registrable-domain"
    } else if p.suffix.as_deref() == Some(l.name.as_str()) {
        "public-suffix"
    } else {
        "parent-domain"
    }
}

/// Non-covering relations, most suspicious first.
const NONCOVER_RANK: [&str; 10] = [
    "above-registrable-domain",
    "unaligned-suffix",
    "entity-unaligned-suffix",
    "prefix-of-host",
    "entity-prefix-of-host",
    "location-below-host",
    "entity-below-host",
    "entity-on-host-without-suffix",
    "unrelated-host",
    "entity-unrelated",
];

/// How a non-covering location relates to the page host.
fn noncover_reason(l: &Loc, p: &Page) -> &'static str {
    if l.entity {
        let base = match &p.entity_base {
            Some(b) => b,
            None => return "entity-on-host-without-suffix",
        };
        if base.ends_with(&l.name) {
            "entity-unaligned-suffix"
        } else if base.starts_with(&l.name) {
            "entity-prefix-of-host"
        } else if l.name.ends_with(&format!(".{}", base)) {
            "entity-below-host"
        } else {
            "entity-unrelated"
        }
    } else if p.host.ends_with(&format!(".{}", l.name)) {
        "above-registrable-domain"
    } else if p.host.ends_with(&l.name) {
        "unaligned-suffix"
    } else if p.host.starts_with(&l.name) {
        "prefix-of-host"
    } else if l.name.ends_with(&format!(".{}", p.host)) {
        "location-below-host"
    } else {
        "unrelated-host"
    }
}

/// Structural cause of one item that the reference expects and the engine does not return
/// (`missing`) or the other way round (`extra`), computed from the rules of the list that carry
/// the item's body.
fn cause(field: &str, missing: bool, item: &str, rules: &[&Rule], effs: &[Eff], p: &Page, gh: bool) -> String {
    let b = match (0..NB).find(|&b| {
        let k = BODIES[b].kind;
        let right_field = match field {
            "hide" | "exceptions" => k == Kind::Plain,
            "procedural" => k == Kind::Action,
            _ => k == Kind::Script,
        };
        right_field && ITEMS[b] == item && !item.is_empty()
    }) {
        Some(b) => b,
        None => return "item-of-no-rule".into(),
    };
    let with_body: Vec<(usize, &&Rule)> = rules.iter().enumerate().filter(|(_, r)| r.body == b).collect();
    let ps = suffix_class(p);
    if missing {
        if field == "exceptions" {
            for (i, r) in &with_body {
                let e = &effs[*i];
                if e.minus_unhide || e.minus_neg {
                    if let Some(l) = r.locs.iter().find(|l| (l.neg || r.unhide) && covers(l, p)) {
                        return format!("{}.{}.{}", if r.unhide { "unhide-rule" } else { "negated-location" }, cover_reason(l, p), ps);
                    }
                }
            }
            return "expected-without-rule".into();
        }
        // an exception or negated location elsewhere in the list that does not cover the host but
        // comes close is the likeliest reason for a lost item
        let lost_to = rules
            .iter()
            .filter(|r| r.body == b || (field == "script" && r.body == BLANKET))
            .flat_map(|r| r.locs.iter().filter(move |l| (l.neg || r.unhide) && !covers(l, p)))
            .map(|l| noncover_reason(l, p))
            .min_by_key(|r| NONCOVER_RANK.iter().position(|x| x == r).unwrap_or(NONCOVER_RANK.len()));
        if let Some(reason) = lost_to {
            if !reason.contains("unrelated") {
                return format!("lost-to-non-covering-exception.{}.{}", reason, ps);
            }
        }
        for (i, r) in &with_body {
            let e = &effs[*i];
            if e.plus {
                if let Some(l) = r.locs.iter().find(|l| !l.neg && covers(l, p)) {
                    return format!("covered.{}.{}", cover_reason(l, p), ps);
                }
            } else if e.generic && field == "hide" {
                return "generic-misc-selector".into();
            }
        }
        return "expected-without-rule".into();
    }
    // extra
    // the location (of a rule with this body) that comes closest to covering the host is blamed
    let closest = |want: &dyn Fn(&Rule, &Loc) -> bool| -> Option<&'static str> {
        with_body
            .iter()
            .flat_map(|(_, r)| r.locs.iter().filter(move |l| want(r, l) && !covers(l, p)))
            .map(|l| noncover_reason(l, p))
            .min_by_key(|r| NONCOVER_RANK.iter().position(|x| x == r).unwrap_or(NONCOVER_RANK.len()))
    };
    if field == "exceptions" {
        return match closest(&|r, l| l.neg || r.unhide) {
            Some(reason) => format!("no-exception-covers.{}.{}", reason, ps),
            None => "no-exception-rule".into(),
        };
    }
    for (i, _) in &with_body {
        let e = &effs[*i];
        if e.minus_unhide {
            return "returned-although-unhidden".into();
        }
        if e.minus_neg {
            return "returned-although-negated-location-covers".into();
        }
    }
    if field == "script" && rules.iter().zip(effs).any(|(r, e)| r.body == BLANKET && (e.minus_unhide || e.minus_neg)) {
        return "blanket-script-exception-ignored".into();
    }
    let near = closest(&|_, l| !l.neg);
    if let Some(reason) = near {
        if !reason.contains("unrelated") {
            return format!("not-covered.{}.{}", reason, ps);
        }
    }
    for (i, _) in &with_body {
        let e = &effs[*i];
        if e.generic {
            if gh {
                return "generic-selector-under-generichide".into();
            }
            if !is_misc(BODIES[b].sel) {
                return "generic-class-or-id-selector-returned".into();
            }
        }
    }
    if let Some(reason) = near {
        return format!("not-covered.{}.{}", reason, ps);
    }
    "returned-without-covering-rule".into()
}

fn first_diff<'a>(exp: &'a BTreeSet<String>, got: &'a BTreeSet<String>) -> Option<(bool, &'a String)> {
    if let Some(x) = exp.difference(got).next() {
        return Some((true, x));
    }
    got.difference(exp).next().map(|x| (false, x))
}

// ------------------------------------------------------------------------------------------------
// one list
// ------------------------------------------------------------------------------------------------

fn case_json(rules: &[&Rule], gh: usize, p: &Page) -> Value {
    json!({"rules": rules.iter().map(|r| r.text.clone()).collect::<Vec<_>>(), "generichide_rule": GH_RULES[gh], "gh": gh, "url": p.url})
}

fn check_list(rules: &[&Rule], effs_by_page: &[Vec<Eff>], pages: &[Page], ghs: &[usize], res: &[Resource], l: &mut Local, sample: Option<usize>) {
    let size_base: u64 = rules.len() as u64 * 100_000 + rules.iter().map(|r| r.text.len() as u64).sum::<u64>() * 100;
    let mut sampled = false;
    for &gh in ghs {
        let eng = match catch(|| build_engine(rules, gh, res)) {
            Ok(e) => e,
            Err(loc) => {
                l.mismatch(Mismatch {
                    sig: format!("c16.build-panic@{}", loc),
                    what: format!("building the engine panicked at {}", loc),
                    case: case_json(rules, gh, &pages[0]),
                    size: size_base,
                });
                continue;
            }
        };
        l.states += 1;
        for (pi, p) in pages.iter().enumerate() {
            l.evaluations += 1;
            l.transitions += 1;
            let effs = &effs_by_page[pi];
            let size = size_base + gh as u64 * 1000 + p.url.len() as u64;
            let got = match observe(&eng, &p.url) {
                Ok(g) => g,
                Err(loc) => {
                    l.mismatch(Mismatch {
                        sig: format!("c16.query-panic@{}", loc),
                        what: format!("url_cosmetic_resources panicked at {}", loc),
                        case: case_json(rules, gh, p),
                        size,
                    });
                    continue;
                }
            };
            let ghide = gh_applies(gh, p);
            let (exp_full, skip) = model(rules, effs, ghide);
            let got_full = got;
            let (exp, got) = if skip.any() {
                // part of the answer is not pinned by the property: counted, the rest is compared
                l.unspecified += 1;
                for why in &skip.reasons {
                    l.count(&format!("partly-unspecified:{}", why), 1);
                }
                (without_skipped(&exp_full, &skip), without_skipped(&got_full, &skip))
            } else {
                (exp_full, got_full)
            };
            l.compared += 1;
            let nontrivial = effs.iter().any(|e| e.plus || e.minus_unhide || e.minus_neg) || !exp.hide.is_empty();
            if nontrivial {
                l.nontrivial += 1;
            }
            l.hist(&format!(
                "hide{} proc{} exc{} js{} gh{}",
                got.hide.len(),
                got.procedural.len(),
                got.exceptions.len(),
                got.blocks.len(),
                got.generichide as u8
            ));
            // one sample per selected list: its first non-trivial page on the selected network side
            if sample == Some(gh) && nontrivial && !sampled && l.samples.len() < 3 {
                sampled = true;
                l.samples.push(json!({"case": case_json(rules, gh, p), "host_lookup": p.host_lookup, "entity_lookup": p.entity_lookup,
                    "observed": {"hide": got.hide, "procedural": got.procedural, "exceptions": got.exceptions, "script_blocks": got.blocks, "generichide": got.generichide}}));
            }
            if got == exp {
                continue;
            }
            let mut report = |field: &str, sig: String, what: String| {
                l.mismatch(Mismatch {
                    sig,
                    what: format!("{} on {} (host {}, domain {}), rules {:?}, network side {:?}: {}", field, p.url, p.host, p.domain,
                        rules.iter().map(|r| r.text.as_str()).collect::<Vec<_>>(), GH_RULES[gh], what),
                    case: case_json(rules, gh, p),
                    size,
                });
            };
            if got.generichide != exp.generichide {
                report("generichide", format!("c16.generichide.{}", if exp.generichide { "not-reported" } else { "spurious" }),
                    format!("expected {}, got {}", exp.generichide, got.generichide));
            }
            for (field, e, g) in [
                ("hide", &exp.hide, &got.hide),
                ("procedural", &exp.procedural, &got.procedural),
                ("exceptions", &exp.exceptions, &got.exceptions),
            ] {
                if let Some((missing, item)) = first_diff(e, g) {
                    let c = cause(field, missing, item, rules, effs, p, ghide);
                    report(field, format!("c16.{}.{}.{}", field, if missing { "missing" } else { "extra" }, c),
                        format!("expected {:?}, got {:?}", e, g));
                }
            }
            if got.blocks != exp.blocks {
                // multiset comparison: a block returned twice is a difference too
                let es: BTreeSet<String> = exp.blocks.iter().cloned().collect();
                let gs: BTreeSet<String> = got.blocks.iter().cloned().collect();
                let (sig, item) = match first_diff(&es, &gs) {
                    Some((missing, item)) => (
                        format!("c16.script.{}.{}", if missing { "missing" } else { "extra" }, cause("script", missing, item, rules, effs, p, ghide)),
                        item.clone(),
                    ),
                    None => ("c16.script.duplicate-invocation".to_string(), String::new()),
                };
                report("script", sig, format!("expected blocks {:?}, got {:?} ({})", exp.blocks, got.blocks, item));
            } else if got.preamble != exp.preamble {
                report("script", "c16.script.preamble".into(), format!("expected text before the invocations {:?}, got {:?}", exp.preamble, got.preamble));
            }
        }
    }
}

fn effs_for(rules: &[&Rule], pages: &[Page]) -> Vec<Vec<Eff>> {
    pages.iter().map(|p| rules.iter().map(|r| eff(r, p)).collect()).collect()
}

// ------------------------------------------------------------------------------------------------
// replay / check
// ------------------------------------------------------------------------------------------------

fn check_gh_spelling(g: &str, gh_pages: &[Page], l: &mut Local) {
        let f = match adblock::filters::network::NetworkFilter::parse(g, true, Default::default()) {
            Ok(f) => f,
            Err(_) => {
                l.hist("generichide-spelling-rejected");
                return;
            }
        };
        let mut fs = FilterSet::new(false);
        fs.add_filters(["##div[x]", "##.ad", g], ParseOptions::default());
        let e = engine_from_set(fs, true);
        l.states += 1;
        for p in gh_pages {
            let req = match Request::new(&p.url, &p.url, "document") {
                Ok(r) => r,
                Err(_) => continue,
            };
            use adblock::filters::network::NetworkMatchable;
            let exp = f.matches(&req, &mut adblock::regex_manager::RegexManager::default());
            l.evaluations += 1;
            l.transitions += 1;
            l.compared += 1;
            if exp {
                l.nontrivial += 1;
            }
            match catch(|| e.url_cosmetic_resources(&p.url)) {
                Ok(r) => {
                    let misc = r.hide_selectors.contains("div[x]");
                    if r.generichide != exp || misc == exp {
                        l.mismatch(Mismatch {
                            sig: format!("c16.generichide.spelling.{}", if exp { "not-reported" } else { "spurious" }),
                            what: format!("rule {:?} on {}: the exception {} the page's own document request, url_cosmetic_resources says generichide={} (misc generic selector returned: {})", g, p.url, if exp { "applies to" } else { "does not apply to" }, r.generichide, misc),
                            case: json!({"kind": "gh-spelling", "rule": g, "url": p.url}),
                            size: (g.len() * 100 + p.url.len()) as u64,
                        });
                    }
                }
                Err(loc) => l.mismatch(Mismatch { sig: format!("c16.query-panic@{}", loc), what: format!("url_cosmetic_resources panicked at {}", loc), case: json!({"kind": "gh-spelling", "rule": g, "url": p.url}), size: 1 }),
            }
        }
}

fn replay(case: &Value, l: &mut Local) {
    if let Some(t) = case["invalid_rule"].as_str() {
        l.compared += 1;
        l.evaluations += 1;
        if parse_filter(t, false, ParseOptions::default()).is_ok() {
            l.mismatch(Mismatch { sig: "c16.documented-invalid-rule-accepted".into(), what: format!("{:?} is accepted by the parser", t), case: case.clone(), size: t.len() as u64 });
        }
        return;
    }
    if case["kind"].as_str() == Some("gh-spelling") {
        let pages: Vec<Page> = make_page(case["url"].as_str().unwrap_or("https://example.com/")).into_iter().collect();
        check_gh_spelling(case["rule"].as_str().unwrap_or(""), &pages, l);
        return;
    }
    let texts: Vec<String> = case["rules"].as_array().map(|a| a.iter().filter_map(|v| v.as_str().map(|s| s.to_string())).collect()).unwrap_or_default();
    let parsed: Vec<Rule> = match texts.iter().map(|t| parse_rule(t)).collect::<Option<Vec<_>>>() {
        Some(p) => p,
        None => {
            eprintln!("machinery: replay case contains a rule outside the C16 grammar");
            std::process::exit(3);
        }
    };
    let rules: Vec<&Rule> = parsed.iter().collect();
    let gh = case["gh"].as_u64().unwrap_or(0).min(GH_RULES.len() as u64 - 1) as usize;
    let url = case["url"].as_str().unwrap_or("https://example.com/");
    let page = match make_page(url) {
        Some(p) => p,
        None => {
            eprintln!("machinery: replay case has an unreadable url");
            std::process::exit(3);
        }
    };
    let pages = vec![page];
    let effs = effs_for(&rules, &pages);
    check_list(&rules, &effs, &pages, &[gh], &resources(), l, None);
}

/// Two rules can interact: same location form, same body, or a `+js` body next to the blanket
/// `+js()`.
fn related(a: &Rule, b: &Rule) -> bool {
    a.loc_text == b.loc_text
        || a.body == b.body
        || (BODIES[a.body].kind == Kind::Script && BODIES[b.body].kind == Kind::Script && (a.body == BLANKET || b.body == BLANKET))
}

fn startup_checks(ctx: &Ctx, alpha: &Alphabet, pages: &[Page]) {
    // the reference works on the host text the engine sees: insist that both agree on it
    for p in pages {
        match Request::new(&p.url, &p.url, "document") {
            Ok(r) if r.hostname == p.host => {}
            Ok(r) => {
                eprintln!("machinery: host of {:?}: reference {:?}, request parser {:?}", p.url, p.host, r.hostname);
                std::process::exit(3);
            }
            Err(_) => {
                eprintln!("machinery: page url {:?} rejected by Request::new", p.url);
                std::process::exit(3);
            }
        }
    }
    // hostname and entity name spaces must not overlap inside the universe (DESIGN: not generated)
    let mut strings: BTreeSet<String> = BTreeSet::new();
    for r in &alpha.rules {
        for loc in &r.locs {
            strings.insert(loc.name.clone());
            for p in pages {
                let cross = if loc.entity { p.host_lookup.contains(&loc.name) } else { p.entity_lookup.contains(&loc.name) };
                if cross {
                    eprintln!("machinery: location {:?} is both a hostname and an entity lookup string of {:?}", loc.name, p.host);
                    std::process::exit(3);
                }
            }
        }
    }
    for p in pages {
        strings.extend(p.host_lookup.iter().cloned());
        strings.extend(p.entity_lookup.iter().cloned());
    }
    assert_no_hash_collisions(strings.iter().map(|s| s.as_str()));
    // forms the documented grammar rejects must be rejected; everything else is left to the sweep
    let mut accepted_invalid = vec![];
    for t in &alpha.excluded {
        if parse_filter(t, false, ParseOptions::default()).is_ok() {
            accepted_invalid.push(t.clone());
        }
    }
    // (error variants GenericUnhide, GenericScriptInject, GenericAction, DoubleNegation of the parser:
    // such a rule has no defined scope, so loading it would put selectors on pages no rule covers)
    let mut l = Local::default();
    l.compared += alpha.excluded.len() as u64;
    for t in &accepted_invalid {
        l.mismatch(Mismatch {
            sig: "c16.documented-invalid-rule-accepted".into(),
            what: format!("{:?} is a form the documented grammar rejects (generic unhide / generic action or scriptlet / negated location on an exception), but the parser accepts it", t),
            case: json!({"invalid_rule": t}),
            size: t.len() as u64,
        });
    }
    ctx.merge(l);
}

fn check(ctx: &Ctx) -> i32 {
    let thorough = ctx.tier.pick(false, true);
    let alpha = build_alphabet();
    let pages = build_pages(thorough);
    startup_checks(ctx, &alpha, &pages);
    let rules = &alpha.rules;
    let n = rules.len() as u64;
    let res = resources();
    let ghs = [0usize, 1, 2, 3, 4];
    // per (page, rule) contribution, computed once
    let eff_table: Vec<Vec<Eff>> = pages.iter().map(|p| rules.iter().map(|r| eff(r, p)).collect()).collect();
    let effs_of = |idx: &[usize]| -> Vec<Vec<Eff>> { eff_table.iter().map(|row| idx.iter().map(|&i| row[i]).collect()).collect() };

    ctx.bound("location_forms", json!(location_forms()));
    ctx.bound("bodies", json!(BODIES.iter().map(|b| b.text).collect::<Vec<_>>()));
    ctx.bound("alphabet_rules", n);
    ctx.bound("documented_invalid_forms_excluded", alpha.excluded.len());
    ctx.bound("page_urls", json!(pages.iter().map(|p| p.url.clone()).collect::<Vec<_>>()));
    ctx.bound("network_sides", json!(GH_RULES));
    ctx.bound("list_max_len_full", 2);
    ctx.bound("list_max_len_connected", ctx.tier.pick(2, 3));

    let total = count_arrangements_upto(n, 2);
    ctx.par_range("lists<=2", total, 32, |i, l| {
        let mut idx = vec![];
        nth_arrangement(i, n, &mut idx);
        let rs: Vec<&Rule> = idx.iter().map(|&k| &rules[k]).collect();
        let effs = effs_of(&idx);
        let sample = if (i + ctx.seed) % 7919 == 11 { Some((i % 5) as usize) } else { None };
        check_list(&rs, &effs, &pages, &ghs, &res, l, sample);
    });

    if thorough {
        // all ordered triples without repetition whose relatedness graph is connected; one URL per
        // host and the two network sides that can differ (the longer URL form and the unrelated
        // generichide rule are covered by the sweep above)
        let pages3 = build_pages(false);
        let eff_table3: Vec<Vec<Eff>> = pages3.iter().map(|p| rules.iter().map(|r| eff(r, p)).collect()).collect();
        let ghs3 = [0usize, 1];
        ctx.bound("triples_page_urls", pages3.len());
        ctx.bound("triples_network_sides", json!([GH_RULES[0], GH_RULES[1]]));
        ctx.par_range("connected-triples", n * n, 8, |ij, l| {
            let (i, j) = ((ij / n) as usize, (ij % n) as usize);
            if i == j {
                return;
            }
            let rij = related(&rules[i], &rules[j]);
            for k in 0..rules.len() {
                if k == i || k == j {
                    continue;
                }
                let links = rij as u8 + related(&rules[i], &rules[k]) as u8 + related(&rules[j], &rules[k]) as u8;
                if links < 2 {
                    continue;
                }
                let idx = [i, j, k];
                let rs = [&rules[i], &rules[j], &rules[k]];
                let effs: Vec<Vec<Eff>> = eff_table3.iter().map(|row| idx.iter().map(|&i| row[i]).collect()).collect();
                l.count("connected_triples", 1);
                check_list(&rs, &effs, &pages3, &ghs3, &res, l, None);
            }
        });
    }

    // generichide spellings: "a generichide exception matches the page" = the exception applies to
    // the page's own document request (the page is its own initiator). Every spelling below is
    // evaluated by the public matcher on Request::new(url, url, "document") and must agree with
    // the flag url_cosmetic_resources reports (and with the presence of the misc generic selector).
    const GH_PATTERNS: [&str; 13] = [
        "||example.com^", "||sub.example.com^", "|https://example.com/", "|https://", "example.com", "*", "", "/p?q", "||example.co.uk^",
        // hosts that are written differently in the page URL and in its normalised form; an exact URL
        "||m\u{fc}nchen.de^", "||stra\u{df}e.co.uk^", "|https://example.com/|", "||xn--mnchen-3ya.de^",
    ];
    const GH_OPTIONS: [&str; 12] = [
        "generichide", "ghide", "generichide,domain=example.com", "generichide,domain=sub.example.com", "generichide,domain=~sub.example.com", "generichide,domain=example.com|example.co.uk",
        "generichide,1p", "generichide,3p", "generichide,document", "generichide,script", "generichide,domain=example.org", "generichide,~third-party,domain=~a.b.example.com",
    ];
    ctx.bound("generichide_spellings", GH_PATTERNS.len() * GH_OPTIONS.len());
    let mut gh_pages = build_pages(true);
    // the same page under URL texts that normalisation changes (the lookup is about the page, not
    // about the spelling of its address)
    for spelled in ["https:/example.com/", "https:example.com/", " https://example.com/ ", "https://example.com:443/", "https://example.com/a/../", "https://m\u{fc}nchen.de:443/x"] {
        if let Some(mut p) = make_page("https://example.com/") {
            p.url = spelled.to_string();
            gh_pages.push(p);
        }
    }
    ctx.par_range("generichide spellings", (GH_PATTERNS.len() * GH_OPTIONS.len()) as u64, 1, |i, l| {
        let g = format!("@@{}${}", GH_PATTERNS[i as usize % GH_PATTERNS.len()], GH_OPTIONS[i as usize / GH_PATTERNS.len()]);
        check_gh_spelling(&g, &gh_pages, l);
    });

    ctx.finish(
        "model_checking",
        "every ordered list without repetition of <= 2 rules (thorough: plus every ordered triple whose rules are connected by a shared location form / body / blanket +js()) of the alphabet {36 location forms x 10 bodies x ##/#@#, minus documented-invalid forms} x 5 network sides (none, @@||example.com^$generichide, unrelated generichide, a pattern-less generichide exception with domain=example.com, one with an excluded sub-domain; triples: the first two) x page URLs (13 hosts; thorough pairs: two URL forms per host); every (list, side, page) runs url_cosmetic_resources on a freshly built engine with scriptlets s1 (function style) and s2 (template) and compares hide_selectors, procedural_actions (as JSON values), exceptions, generichide, the multiset of try-blocks and the text before them; plus 9 x 12 spellings of a generichide exception (patterns x options: domain=, party, types) whose applicability to the page's own document request is taken from the public matcher; non-trivial = some rule of the list covers or is excepted/negated for the page host, or a generic selector is returned; states = engines built, transitions = queries",
        &[
            "addr::psl's public suffix data is trusted (used by both sides); idna::domain_to_ascii is trusted for the IDN host",
            "a negated location is read as an exception for that location (uBO reading; the source documents it); where that reading and 'the rule just does not cover the host' differ — another rule or an unscoped rule provides the same body for the host — that body is Unspecified (left out of the comparison; the rest of the answer is compared)",
            "the body of a rule with only negated locations and an action or +js body is Unspecified (the source documents that no generic half is created); the rest of the answer is compared; such cases count in both unspecified_cases and traces_validated",
            "an exception removes exactly the rule body with the same text (+js(s1) does not except +js(s1, arg)); only #@#+js() is a blanket exception",
            "hash-map seeds inside the engine are redrawn per engine, not enumerated; results are compared as sets",
            "hostname / entity name-space overlap (example##x vs example.*##x) is not generated (checked at start-up)",
        ],
    )
}

fn main() {
    run_main("C16", check, replay)
}
