//! C15 — injected CSP is the union of matching csp rules minus excepted directives.
//! BX: all ordered lists of <= k rules of a csp alphabet x tag subsets x requests of every type,
//! on real engines; oracle = set algebra written from the property text (`netspec::spec_csp`).
//! Because every order of every list is enumerated and the reference is order-free, order
//! independence is checked too. DESIGN §4 C15.

use serde_json::Value;
use vh::alpha::{Req, TYPES_ALL};
use vh::util::{count_arrangements_upto, nth_arrangement};
use vh::{run_main, Ctx, Local};

const POOL: &[&str] = &[
    "||x.com^$csp=d1",
    "||x.com^$csp=d2",
    "|https://x.com/$csp=d1",
    "x.com/p$csp=d3",
    "||x.com^$csp=d1,domain=y.com",
    "||x.com^$csp=d4,domain=~y.com",
    "||x.com^$csp=d5,tag=t",
    "||x.com^$csp=d1,tag=u",
    "||x.com^$csp=d6,3p",
    "||x.com^$csp=d7,1p",
    "$csp=d8,domain=y.com",
    "@@||x.com^$csp=d1",
    "@@||x.com^$csp=d2",
    "@@||x.com^$csp",
    "@@||x.com^$csp,domain=y.com",
    "@@||x.com^$csp=d5,tag=u",
    "@@|https://x.com/p$csp=d3",
    "||x.com^",
    "@@||x.com^",
    "||x.com^$important",
    "||x.com^$subdocument",
    "||z.com^$csp=d9",
    "||x.com^$csp=script-src 'none'",
    "@@||x.com^$csp=script-src 'none'",
];

fn requests() -> Vec<Req> {
    let mut out = vec![];
    for (url, src) in [
        ("https://x.com/", "https://x.com/"),
        ("https://x.com/p", "https://y.com/"),
        ("https://sub.x.com/p", "https://y.com/"),
        ("http://x.com/p", "https://sub.y.com/a"),
        ("https://x.com/p", ""),
        ("https://z.com/", "https://x.com/"),
        ("https://w.com/", "https://y.com/"),
        ("wss://x.com/p", "https://x.com/"),
    ] {
        for ty in TYPES_ALL {
            if let Ok(req) = adblock::request::Request::new(url, src, ty) {
                out.push(Req { req, url: url.into(), source: src.into(), ty });
            }
        }
    }
    out
}

fn replay(case: &Value, l: &mut Local) {
    vh::netsweep::replay_case("c15", case, l, false);
}

fn check(ctx: &Ctx) -> i32 {
    let k: u32 = ctx.tier.pick(3, 5);
    let reqs = requests();
    ctx.bound("list_max_len", k);
    ctx.bound("rule_pool", POOL.len());
    ctx.bound("requests", reqs.len());
    let n = count_arrangements_upto(POOL.len() as u64, k);
    ctx.par_range("lists", n, 8, |i, l| {
        let mut idx = vec![];
        nth_arrangement(i, POOL.len() as u64, &mut idx);
        let items: Vec<(&str, bool)> = idx.iter().map(|&j| (POOL[j], false)).collect();
        let sample = l.samples.len() < 2 && (i + ctx.seed) % 1009 == 5;
        vh::netsweep::check_list("c15", &items, &reqs, l, sample, false);
    });
    ctx.finish(
        "model_checking",
        "all ordered lists without repetition of <= k rules of the 24-rule csp alphabet (directives, duplicates with a different pattern spelling, domain / negated domain / party / tag restrictions, specific and blanket exceptions, non-csp rules matching the same request), under every subset of the tags the list mentions, against 8 URLs x all 19 request-type strings; the CSP answer is compared as a set with the reference and the rest of the verdict with the combiner; non-trivial = at least one rule matches",
        &["per-rule applicability from the public matcher; the set algebra from the reference"],
    )
}

fn main() {
    run_main("C15", check, replay)
}
