//! C15 — injected CSP is the union of matching csp rules minus excepted directives.
//! BX: all ordered lists of <= k rules of a csp alphabet x tag subsets x requests of every type,
//! on real engines; oracle = set algebra written from the property text (`netspec::spec_csp`).
//! Because every order of every list is enumerated and the reference is order-free, order
//! independence is checked too. DESIGN §4 C15.

use serde_json::Value;
use vh::alpha::{Req, TYPES_ALL};
use vh::util::{count_arrangements_upto, nth_arrangement};
use vh::{run_main, Ctx, Local};

const POOL: &[&str] = &[
    "||x.com^$csp=d1",
    "||x.com^$csp=d2",
    "|https://x.com/$csp=d1",
    "x.com/p$csp=d3",
    "||x.com^$csp=d1,domain=y.com",
    "||x.com^$csp=d4,domain=~y.com",
    "||x.com^$csp=d5,tag=t",
    "||x.com^$csp=d1,tag=u",
    "||x.com^$csp=d6,3p",
    "||x.com^$csp=d7,1p",
    "$csp=d8,domain=y.com",
    "@@||x.com^$csp=d1",
    "@@||x.com^$csp=d2",
    "@@||x.com^$csp",
    "@@||x.com^$csp,domain=y.com",
    "@@||x.com^$csp=d5,tag=u",
    "@@|https://x.com/p$csp=d3",
    "||x.com^",
    "@@||x.com^",
    "||x.com^$important",
    "||x.com^$subdocument",
    "||z.com^$csp=d9",
    "||x.com^$csp=script-src 'none'",
    "@@||x.com^$csp=script-src 'none'",
    // pattern-less rules filed under nested initiator domains: a page on sub.y.com probes the
    // buckets of sub.y.com, y.com and com, and every one of them can hold applicable rules
    "$csp=d10,domain=sub.y.com",
    "@@$csp=d8,domain=sub.y.com",
    "@@$csp=d10,domain=y.com",
    // a csp rule that also carries `important`: still a csp rule (it injects its directive and does
    // not block)
    "||x.com^$csp=d11,important",
    // a second unanchored csp rule in the bucket of `x.com/p$csp=d3` (same mask, another directive)
    "x.com/q$csp=d12",
    // directives that contain the option syntax's own `=` and differ only behind it
    "||x.com^$csp=r=1",
    "||x.com^$csp=r=2",
    "@@||x.com^$csp=r=2",
    // a NON-exception csp rule without a value: legal (the unit tests parse it), carries no directive
    // and therefore contributes nothing - in particular it is not a blanket exception
    "||x.com^$csp",
    "x.com/p$csp,domain=y.com",
    // a pattern-less rule with several initiator domains (filed once per domain)
    "$csp=d13,domain=y.com|x.com",
    // csp next to another value-carrying modifier, or twice (see `readings`): at most the csp value
    // may ever be injected, never the other option's value
    "||x.com^$csp=d14,redirect-rule=a",
    "||x.com^$removeparam=q,csp=d15",
    "||x.com^$csp=d16,csp=d17",
];

/// The admissible readings of a rule line, as rule texts for `csp_rule_applies`. A line that
/// carries csp together with redirect / redirect-rule / removeparam, or csp twice, names more than one
/// modifier value: the property does not say whether that is a rule at all (the parser refuses it),
/// so it may count as absent or as a csp rule with one of ITS csp values - nothing else.
fn readings(rule: &str) -> Vec<Option<String>> {
    let Some((pat, opts)) = rule.rsplit_once('$') else { return vec![Some(rule.to_string())] };
    let opts: Vec<&str> = opts.split(',').collect();
    fn is_csp(o: &str) -> bool {
        o == "csp" || o.starts_with("csp=")
    }
    fn other(o: &str) -> bool {
        o.starts_with("redirect=") || o.starts_with("redirect-rule=") || o.starts_with("removeparam=")
    }
    let n_csp = opts.iter().filter(|o| is_csp(o)).count();
    if n_csp == 0 || (n_csp == 1 && !opts.iter().any(|o| other(o))) {
        return vec![Some(rule.to_string())];
    }
    let mut out = vec![None];
    for c in opts.iter().filter(|o| is_csp(o)) {
        let kept: Vec<&str> = opts.iter().filter(|o| !is_csp(o) && !other(o)).copied().chain(std::iter::once(*c)).collect();
        out.push(Some(format!("{}${}", pat, kept.join(","))));
    }
    out
}

/// Every combination of readings of the lines of a list.
fn list_readings(items: &[&str]) -> Vec<Vec<String>> {
    let mut out: Vec<Vec<String>> = vec![vec![]];
    for r in items {
        let alts = readings(r);
        let mut next = vec![];
        for base in &out {
            for a in &alts {
                let mut v = base.clone();
                if let Some(t) = a {
                    v.push(t.clone());
                }
                next.push(v);
            }
        }
        out = next;
    }
    out
}

/// The admissible answers for a request: one per combination of readings.
fn admissible(variants: &[Vec<String>], rq: &Req, tagset: &[String]) -> Vec<Option<std::collections::BTreeSet<String>>> {
    let mut v: Vec<Option<std::collections::BTreeSet<String>>> = vec![];
    for list in variants {
        let hits: Vec<(Option<String>, bool)> = list.iter().filter_map(|r| csp_rule_applies(r, &rq.url, &rq.source, tagset)).collect();
        let e = vh::oracle::netspec::spec_csp(&rq.req, &hits);
        if !v.contains(&e) {
            v.push(e);
        }
    }
    v
}

fn requests() -> Vec<Req> {
    let mut out = vec![];
    for (url, src) in [
        ("https://x.com/", "https://x.com/"),
        ("https://x.com/p", "https://y.com/"),
        ("https://sub.x.com/p", "https://y.com/"),
        ("http://x.com/p", "https://sub.y.com/a"),
        ("https://x.com/p", "https://a.sub.y.com/"),
        ("https://x.com/p", ""),
        ("https://z.com/", "https://x.com/"),
        ("https://w.com/", "https://y.com/"),
        ("wss://x.com/p", "https://x.com/"),
        // (no document outside http(s)/ws(s): C12 says such requests are not eligible for matching,
        // C15 speaks of "document requests" and "matching rules" without naming schemes, and the
        // engine answers check_network_request one way and get_csp_directives the other: not pinned)
    ] {
        for ty in TYPES_ALL {
            if let Ok(req) = adblock::request::Request::new(url, src, ty) {
                out.push(Req { req, url: url.into(), source: src.into(), ty });
            }
        }
    }
    out
}

// ---- independent applicability of the pool's rules (not taken from the real matcher) ------------

fn host_of(url: &str) -> &str {
    url.split("://").nth(1).unwrap_or("").split(|c| c == '/' || c == '?').next().unwrap_or("")
}
fn site(host: &str) -> String {
    let labels: Vec<&str> = host.split('.').collect();
    labels[labels.len().saturating_sub(2)..].join(".")
}
fn covers(domain: &str, host: &str) -> bool {
    host == domain || host.ends_with(&format!(".{}", domain))
}

/// (directive, is_exception) if the csp rule applies to the request, by the option semantics.
fn csp_rule_applies(rule: &str, url: &str, src: &str, tags: &[String]) -> Option<(Option<String>, bool)> {
    let (exc, r) = match rule.strip_prefix("@@") {
        Some(r) => (true, r),
        None => (false, rule),
    };
    let (pat, opts) = r.rsplit_once('$')?;
    let mut directive = None;
    let mut is_csp = false;
    let host = host_of(url);
    let src_host = host_of(src);
    for o in opts.split(',') {
        if o == "csp" {
            is_csp = true;
        } else if let Some(d) = o.strip_prefix("csp=") {
            is_csp = true;
            directive = Some(d.to_string());
        } else if let Some(d) = o.strip_prefix("domain=") {
            if d.contains('|') {
                // several positive entries (the pool has no mixed list): one of them must cover
                if src_host.is_empty() || !d.split('|').any(|x| covers(x, src_host)) {
                    return None;
                }
                continue;
            }
            let (neg, d) = match d.strip_prefix('~') {
                Some(d) => (true, d),
                None => (false, d),
            };
            let inside = !src_host.is_empty() && covers(d, src_host);
            if neg == inside || (!neg && src_host.is_empty()) {
                return None;
            }
        } else if let Some(t) = o.strip_prefix("tag=") {
            if !tags.iter().any(|x| x == t) {
                return None;
            }
        } else if o == "3p" || o == "1p" {
            let third = src_host.is_empty() || site(host) != site(src_host);
            if (o == "3p") != third {
                return None;
            }
        }
    }
    if !is_csp {
        return None;
    }
    let pattern_ok = if let Some(h) = pat.strip_prefix("||").and_then(|p| p.strip_suffix('^')) {
        covers(h, host)
    } else if let Some(p) = pat.strip_prefix('|') {
        url.starts_with(p)
    } else {
        pat.is_empty() || url.contains(pat)
    };
    if !pattern_ok {
        return None;
    }
    Some((directive, exc))
}

/// Compares the engine's CSP answer with the set algebra over the independently applicable rules.
fn check_independent(items: &[&str], reqs: &[Req], l: &mut Local) {
    let variants = list_readings(items);
    if variants.len() > 1 {
        l.unspecified += 1;
    }
    // two subjects: built without and with optimisation (the csp list is optimised like any other)
    // a third subject: an empty blocker that receives the rules one by one (`Blocker::add_filter`)
    {
        use adblock::blocker::{Blocker, BlockerOptions};
        use adblock::filters::network::NetworkFilter;
        let built = vh::util::catch(|| {
            let mut b = Blocker::new(vec![], &BlockerOptions { enable_optimizations: false });
            for r in items {
                if let Ok(f) = NetworkFilter::parse(r, true, Default::default()) {
                    let _ = b.add_filter(f);
                }
            }
            b
        });
        if let Ok(mut b) = built {
            let tags_present = vh::alpha::tags_in(items);
            for tagset in vh::util::subsets_of(&tags_present) {
                let refs: Vec<&str> = tagset.iter().map(|s| s.as_str()).collect();
                b.use_tags(&refs);
                for rq in reqs {
                    if !rq.req.is_supported {
                        continue;
                    }
                    let exp = admissible(&variants, rq, &tagset);
                    let got = vh::util::catch(|| vh::net::csp_set(&b.get_csp_directives(&rq.req)));
                    l.compared += 1;
                    l.transitions += 1;
                    if !got.as_ref().map(|g| exp.contains(g)).unwrap_or(false) {
                        l.mismatch(vh::Mismatch {
                            sig: "c15.csp.rule-applicability.rules-added-one-by-one".into(),
                            what: format!("rules {:?} added with Blocker::add_filter, tags {:?}, request ({}, {}, {}): option semantics give {:?}, blocker {:?}", items, tagset, rq.url, rq.source, rq.ty, exp, got),
                            case: serde_json::json!({"rules": items, "hosts": [], "tags": tagset, "url": rq.url, "source": rq.source, "type": rq.ty, "independent": true}),
                            size: (items.len() * 10000 + rq.url.len() * 4 + rq.source.len()) as u64,
                        });
                    }
                }
            }
        }
    }
    for optimize in [false, true] {
    let mut e = vh::netsweep::build_engine(items, &[], optimize, false);
    let tags_present = vh::alpha::tags_in(items);
    for tagset in vh::util::subsets_of(&tags_present) {
        let refs: Vec<&str> = tagset.iter().map(|s| s.as_str()).collect();
        e.use_tags(&refs);
        for rq in reqs {
            if !rq.req.is_supported {
                continue;
            }
            let exp = admissible(&variants, rq, &tagset);
            let got = vh::util::catch(|| vh::net::csp_set(&e.get_csp_directives(&rq.req)));
            l.compared += 1;
            l.transitions += 1;
            if !got.as_ref().map(|g| exp.contains(g)).unwrap_or(false) {
                l.mismatch(vh::Mismatch {
                    sig: format!("c15.csp.rule-applicability{}", if optimize { ".optimised-engine" } else { "" }),
                    what: format!("list {:?} tags {:?} optimize={} request ({}, {}, {}): option semantics give {:?}, engine {:?}", items, tagset, optimize, rq.url, rq.source, rq.ty, exp, got),
                    case: serde_json::json!({"rules": items, "hosts": [], "tags": tagset, "url": rq.url, "source": rq.source, "type": rq.ty, "independent": true}),
                    size: (items.len() * 10000 + rq.url.len() * 4 + rq.source.len()) as u64,
                });
            }
        }
    }
    }
}

fn replay(case: &Value, l: &mut Local) {
    if case["invalid_rule"].is_string() {
        return check_invalid_forms(l);
    }
    if case["independent"].as_bool() == Some(true) {
        let rules: Vec<String> = case["rules"].as_array().map(|a| a.iter().filter_map(|v| v.as_str().map(|s| s.to_string())).collect()).unwrap_or_default();
        let items: Vec<&str> = rules.iter().map(|s| s.as_str()).collect();
        check_independent(&items, &requests(), l);
        return;
    }
    vh::netsweep::replay_case("c15", case, l, false);
}

/// csp rules combined with a request-type option: the parser documents them as invalid
/// (error CspWithContentType) whichever option comes first. A rejected line is not a rule: next
/// to a valid csp rule it changes nothing.
const INVALID_CSP: [&str; 10] = [
    "||x.com^$csp=d1,script",
    "||x.com^$script,csp=d1",
    "||x.com^$subdocument,csp=d2",
    "||x.com^$csp=d2,subdocument",
    "||x.com^$~script,csp=d3",
    "||x.com^$document,csp=d3",
    "@@||x.com^$image,csp",
    "@@||x.com^$csp,image",
    "@@||x.com^$xhr,csp=d1",
    "||x.com^$csp=d1,~image",
];

fn check_invalid_forms(l: &mut Local) {
    use adblock::lists::{parse_filter, ParseOptions};
    for t in INVALID_CSP {
        l.evaluations += 1;
        l.compared += 1;
        let accepted = vh::util::catch(|| parse_filter(t, true, ParseOptions::default()).is_ok());
        l.hist(match accepted {
            Ok(false) => "invalid-form:rejected",
            Ok(true) => "invalid-form:ACCEPTED",
            Err(_) => "invalid-form:PANIC",
        });
        if accepted != Ok(false) {
            l.mismatch(vh::Mismatch {
                sig: "c15.documented-invalid-csp-rule-accepted".into(),
                what: format!("{:?} combines csp with a request-type option (documented as invalid) but the parser accepts it: {:?}", t, accepted),
                case: serde_json::json!({"invalid_rule": t}),
                size: t.len() as u64,
            });
        }
    }
}

fn check(ctx: &Ctx) -> i32 {
    {
        let mut l = Local::default();
        check_invalid_forms(&mut l);
        ctx.merge(l);
    }
    let k: u32 = ctx.tier.pick(3, 5);
    let reqs = requests();
    ctx.bound("list_max_len", k);
    ctx.bound("rule_pool", POOL.len());
    ctx.bound("requests", reqs.len());
    let n = count_arrangements_upto(POOL.len() as u64, k);
    ctx.par_range("lists", n, 8, |i, l| {
        let mut idx = vec![];
        nth_arrangement(i, POOL.len() as u64, &mut idx);
        let items: Vec<(&str, bool)> = idx.iter().map(|&j| (POOL[j], false)).collect();
        let sample = l.samples.len() < 2 && (i + ctx.seed) % 1009 == 5;
        vh::netsweep::check_list("c15", &items, &reqs, l, sample, false);
        // lists of <= 2 rules are also checked against the fully independent oracle
        if idx.len() <= 2 {
            let plain: Vec<&str> = idx.iter().map(|&j| POOL[j]).collect();
            check_independent(&plain, &reqs, l);
        }
    });
    ctx.finish(
        "model_checking",
        "all ordered lists without repetition of <= k rules of the 24-rule csp alphabet (directives, duplicates with a different pattern spelling, domain / negated domain / party / tag restrictions, specific and blanket exceptions, non-csp rules matching the same request), under every subset of the tags the list mentions, against 8 URLs x all 19 request-type strings; the CSP answer is compared as a set with the reference and the rest of the verdict with the combiner; non-trivial = at least one rule matches",
        &["per-rule applicability from the public matcher; the set algebra from the reference"],
    )
}

fn main() {
    run_main("C15", check, replay)
}
