//! C02 — a rule's pattern matches a URL exactly when ABP pattern semantics say so.
//! BX: all pattern bodies up to a length bound over a small alphabet x anchor modes x URL universe,
//! compared with the independent reference in `vh::oracle::pattern`; plus weakening relations and
//! a curated full-regex universe. DESIGN §4 C02.

use adblock::filters::network::{NetworkFilter, NetworkMatchable};
use adblock::regex_manager::RegexManager;
use adblock::request::Request;
use serde_json::{json, Value};
use vh::oracle::pattern::{self as pat, Left};
use vh::util::{catch, count_strings_upto, nth_string};
use vh::{run_main, Ctx, Local, Mismatch, Tri};

const SIGMA: [&str; 6] = ["a", "b", ".", "/", "*", "^"];
// (the two last modes give the left anchor something to bite on: over {a,b,.,/,*,^} alone a
// `|`-anchored pattern can never match a URL, which always starts with its scheme)
// case sweep: the same modes with upper-case letters in the rule text (ABP patterns are
// case-insensitive; the parser lower-cases the text, the hostname and the regex separately)
const SIGMA_CASE: [&str; 6] = ["a", "A", "B", "/", "*", "^"];
// metacharacter sweep: characters that mean something to a regular expression (or to the rule
// syntax elsewhere) are plain literals inside a pattern, also when the pattern is compiled to a regex
const METAS: [&str; 11] = ["|", "$", "+", "?", "(", ")", "[", "]", "{", "}", "="];
const MODES_META: [(&str, &str); 4] = [("", ""), ("", "|"), ("|https://a.b/", ""), ("||a.b/", "")];

fn build_meta_urls(m: &str) -> Vec<U> {
    let mut out = vec![];
    let sig = ["a", "/", m];
    for i in 0..count_strings_upto(3, 4) {
        let path = nth_string(i, &sig);
        for host in ["a.b", "b.a.b"] {
            let url = format!("https://{}/{}", host, path);
            let req = match Request::new(&url, "", "script") {
                Ok(r) => r,
                Err(_) => continue,
            };
            if req.url != url || req.hostname != host {
                continue;
            }
            out.push(U { req, host_start: 8, host_end: 8 + host.len() });
        }
    }
    out
}

const MODES: [(&str, &str); 8] = [("", ""), ("|", ""), ("", "|"), ("|", "|"), ("||", ""), ("||", "|"), ("|https://a.b", ""), ("|http://b.a/", "|")];

struct U {
    req: Request,
    host_start: usize,
    host_end: usize,
}

fn build_urls() -> Vec<U> {
    let hosts = ["a.b", "b.a", "ab.a", "aa.b", "a.a.b", "a.b.a.b", "b.ab.a", "a.ba", "b.ab"];
    let mut paths: Vec<String> = vec![];
    let n = count_strings_upto(4, 3);
    for i in 0..n {
        paths.push(nth_string(i, &["a", "b", "/", "."]));
    }
    for extra in ["?a", "a?b", "a=b", "a:b", "A", "aB/", "ab.a", "a.b/a", "b/a.b", "a&b", "a_b", "a-b", "a%b", "AB", "Ab", "bA/", "B/a", "A.B", "aA", "B",
        // an `@` outside the authority, followed by host-like text (also the request's own host)
        "a@a.b", "a@a.b/a", "@b.a", "a/@a.b/b", "?a@a.b", "?a=b@b.a/a", "a@ab.a/b", "#@a.b/a"] {
        paths.push(extra.to_string());
    }
    let mut out = vec![];
    for scheme in ["http", "https"] {
        for host in hosts {
            for userinfo in ["", "a.b@"] {
                for p in &paths {
                    let url = format!("{}://{}{}/{}", scheme, userinfo, host, p);
                    let host_start = scheme.len() + 3 + userinfo.len();
                    let host_end = host_start + host.len();
                    let req = match Request::new(&url, "", "script") {
                        Ok(r) => r,
                        Err(_) => continue,
                    };
                    // the reference works on the text the matcher sees; insist that the parser
                    // left it alone (machinery check, not a property check)
                    if req.url != url || req.hostname != host {
                        continue;
                    }
                    out.push(U { req, host_start, host_end });
                }
            }
        }
    }
    // an explicit port: the text directly behind the host is `:8`, not the path (the end of the
    // hostname and the end of the authority are different positions)
    let n2 = count_strings_upto(4, 2);
    let mut port_paths: Vec<String> = (0..n2).map(|i| nth_string(i, &["a", "b", "/", "."])).collect();
    port_paths.extend(["a.b/a", "b/a.b", "?a", "8/a", ":8/a"].iter().map(|s| s.to_string()));
    for scheme in ["http", "https"] {
        for host in ["a.b", "b.a", "a.a.b"] {
            for p in &port_paths {
                let url = format!("{}://{}:8/{}", scheme, host, p);
                let host_start = scheme.len() + 3;
                let host_end = host_start + host.len();
                if let Ok(req) = Request::new(&url, "", "script") {
                    if req.url == url && req.hostname == host {
                        out.push(U { req, host_start, host_end });
                    }
                }
            }
        }
    }
    out
}

fn real_match(f: &NetworkFilter, r: &Request) -> Result<bool, String> {
    // a fresh manager per call site: compiled regexes are cached by filter address
    let mut rm = RegexManager::default();
    catch(|| f.matches(r, &mut rm))
}

fn occurrences(hay: &[u8], needle: &[u8]) -> usize {
    if needle.is_empty() || needle.len() > hay.len() {
        return 0;
    }
    (0..=hay.len() - needle.len())
        .filter(|&i| &hay[i..i + needle.len()] == needle)
        .count()
}

/// Classifier for `||` mismatches (known defect D2): the anchor host text occurs more than once
/// in the hostname, or also in the URL text before the hostname (scheme / userinfo).
/// Model of the known defect D2, used only to *classify* a mismatch: the verdict obtained when
/// just the first occurrence of the host text in the hostname is examined, and the remainder is
/// matched after the first occurrence of the host text in the URL.
fn first_occurrence_model(p: &pat::Pat, u: &U) -> bool {
    let (h, rest) = pat::split_host(&p.body);
    let text = u.req.url.to_ascii_lowercase();
    let text = text.as_bytes();
    let host = &text[u.host_start..u.host_end];
    let find = |hay: &[u8]| -> Option<usize> {
        if h.len() > hay.len() {
            return None;
        }
        (0..=hay.len() - h.len()).find(|&i| &hay[i..i + h.len()] == &h[..])
    };
    let idx = match find(host) {
        Some(i) => i,
        None => return false,
    };
    let wildcard = matches!(rest.first(), Some(pat::El::Star));
    let start_ok = idx == 0 || h[0] == b'.' || host[idx - 1] == b'.';
    let end = idx + h.len();
    let end_ok = end == host.len() || wildcard || *h.last().unwrap() == b'.' || host[end] == b'.';
    if !(start_ok && end_ok) {
        return false;
    }
    if rest.len() == 1 && rest[0] == pat::El::Caret && !p.right {
        return host.ends_with(&h);
    }
    let after = find(text).unwrap_or(0) + h.len();
    pat::match_here(rest, text, after.min(text.len()), p.right)
}

fn classify_host(p: &pat::Pat, u: &U) -> &'static str {
    let (h, _) = pat::split_host(&p.body);
    let text = u.req.url.as_bytes();
    if occurrences(&text[..u.host_start], &h) > 0 {
        "c02.hostanchor.host-text-also-before-hostname"
    } else if occurrences(&text[u.host_start..u.host_end], &h) >= 2 {
        "c02.hostanchor.host-text-repeated-in-hostname"
    } else {
        "c02.hostanchor.other"
    }
}

/// Spellings on which the relations are *not* checked, because the property text does not pin
/// their meaning and this code base documents or exhibits a special reading: doubled `*` / `^`,
/// a `*` directly before a right `|`, and in `||` mode an empty or dot-leading host text,
/// `||host|` with nothing after the host, `||host*...|` and `||host...^|`.
fn quirky(rule: &str) -> bool {
    let p = pat::parse(rule);
    let body = pat::body_text(rule);
    if body.is_empty() || body.contains("**") || body.contains("^^") {
        return true;
    }
    if p.right && body.ends_with('*') {
        return true;
    }
    if body.len() > 1 && body.starts_with('/') && body.ends_with('/') {
        return true;
    }
    if p.left == Left::Host {
        let (h, rest) = pat::split_host(&p.body);
        if h.is_empty() || h[0] == b'.' {
            return true;
        }
        if p.right && (rest.is_empty() || matches!(rest.first(), Some(pat::El::Star)) || body.ends_with('^')) {
            return true;
        }
    }
    false
}

fn check_pattern(rule: &str, urls: &[U], l: &mut Local, relations: bool) {
    check_pattern_sfx(rule, "", urls, l, relations)
}

/// `suffix` is an option part (`$script`) that the real parser needs to see when the pattern text
/// itself contains a `$`; the reference is given the pattern text only.
fn check_pattern_sfx(rule: &str, suffix: &str, urls: &[U], l: &mut Local, relations: bool) {
    let p = pat::parse(rule);
    let full = format!("{}{}", rule, suffix);
    let f = match catch(|| NetworkFilter::parse(&full, true, Default::default())) {
        Err(loc) => {
            l.mismatch(Mismatch {
                sig: format!("c02.parse-panic@{}", loc),
                what: format!("NetworkFilter::parse panicked at {}", loc),
                case: json!({"kind":"pattern","rule":rule}),
                size: rule.len() as u64,
            });
            return;
        }
        Ok(Err(_)) => {
            l.hist("rule-rejected");
            return;
        }
        Ok(Ok(f)) => f,
    };
    l.states += 1;
    let degenerate = pat::is_degenerate(rule, &p);
    let mut rm = RegexManager::default();
    // weakened variants for the relations (only where both sides are ordinary patterns)
    let body = pat::body_text(rule);
    let is_full_regex = body.len() > 1 && body.starts_with('/') && body.ends_with('/');
    let weaker: Vec<(String, &'static str, NetworkFilter)> = if relations && !is_full_regex && !quirky(rule) {
        let mut v = vec![];
        let mut add = |txt: String, name: &'static str| {
            if quirky(&txt) {
                return;
            }
            if let Ok(Ok(w)) = catch(|| NetworkFilter::parse(&txt, true, Default::default())) {
                v.push((txt, name, w));
            }
        };
        match p.left {
            Left::Pipe => add(rule[1..].to_string(), "drop-left-pipe"),
            Left::Host if !body.contains('^') => add(rule[2..].to_string(), "drop-host-anchor"),
            _ => {}
        }
        if p.right {
            add(rule[..rule.len() - 1].to_string(), "drop-right-pipe");
        }
        v
    } else {
        vec![]
    };
    let mut wrm: Vec<RegexManager> = weaker.iter().map(|_| RegexManager::default()).collect();

    for u in urls {
        l.evaluations += 1;
        l.transitions += 1;
        let got = match catch(|| f.matches(&u.req, &mut rm)) {
            Ok(b) => b,
            Err(loc) => {
                l.mismatch(Mismatch {
                    sig: format!("c02.match-panic@{}", loc),
                    what: format!("matches() panicked at {}", loc),
                    case: json!({"kind":"pattern","rule":rule,"url":u.req.url}),
                    size: (rule.len() + u.req.url.len()) as u64,
                });
                continue;
            }
        };
        if got {
            l.nontrivial += 1;
        }
        if !degenerate {
            let url = pat::Url { text: u.req.url.as_bytes(), host_start: u.host_start, host_end: u.host_end };
            match pat::reference(&p, &url) {
                Tri::Unspec => {
                    l.unspecified += 1;
                }
                Tri::Must(exp) => {
                    l.compared += 1;
                    l.hist(match (exp, got) {
                        (true, true) => "match",
                        (false, false) => "no-match",
                        (true, false) => "LOST-match",
                        (false, true) => "SPURIOUS-match",
                    });
                    if exp != got {
                        let sig = if p.left == Left::Host {
                            let c = classify_host(&p, u);
                            if c != "c02.hostanchor.other" && first_occurrence_model(&p, u) == got {
                                c.to_string()
                            } else {
                                "c02.hostanchor.other".to_string()
                            }
                        } else {
                            format!("c02.pattern.{}", if exp { "lost" } else { "spurious" })
                        };
                        l.mismatch(Mismatch {
                            sig,
                            what: format!("rule {:?} url {:?}: reference says {}, matcher says {}", rule, u.req.url, exp, got),
                            case: json!({"kind":"pattern","rule":rule,"suffix":suffix,"url":u.req.url,"host_start":u.host_start,"host_end":u.host_end}),
                            size: (rule.len() * 100 + u.req.url.len()) as u64,
                        });
                    }
                }
            }
        }
        // weakening: match(stronger) => match(weaker)
        if got {
            for (k, (txt, name, w)) in weaker.iter().enumerate() {
                l.compared += 1;
                let wg = catch(|| w.matches(&u.req, &mut wrm[k])).unwrap_or(false);
                if !wg {
                    let sig = if p.left == Left::Host && *name == "drop-host-anchor" {
                        // a hostname-anchored match that the unanchored pattern loses
                        format!("c02.weakening.{}", name)
                    } else {
                        format!("c02.weakening.{}", name)
                    };
                    l.mismatch(Mismatch {
                        sig,
                        what: format!("{:?} matches {:?} but weaker {:?} does not", rule, u.req.url, txt),
                        case: json!({"kind":"weakening","rule":rule,"weaker":txt,"url":u.req.url}),
                        size: (rule.len() * 100 + u.req.url.len()) as u64,
                    });
                }
            }
        }
    }
}

/// star-substitution and star-append relations, on the non-hostname modes.
fn check_star_relations(rule: &str, urls: &[U], l: &mut Local) {
    let p = pat::parse(rule);
    let body = pat::body_text(rule);
    if quirky(rule) {
        return;
    }
    let f = match catch(|| NetworkFilter::parse(rule, true, Default::default())) {
        Ok(Ok(f)) => f,
        _ => return,
    };
    let (pre, post) = match (p.left, p.right) {
        (Left::None, false) => ("", ""),
        (Left::Pipe, false) => ("|", ""),
        (Left::None, true) => ("", "|"),
        (Left::Pipe, true) => ("|", "|"),
        (Left::Host, false) => ("||", ""),
        (Left::Host, true) => ("||", "|"),
    };
    let mut variants: Vec<(String, &'static str, bool)> = vec![];
    // replace one literal by '*' (never loses a match). In `||` mode only literals after the host
    // text are replaced (replacing a host character changes which label is anchored).
    let host_len = if p.left == Left::Host { pat::split_host(&p.body).0.len() } else { 0 };
    for (i, c) in body.char_indices() {
        if c == '*' || c == '^' || i < host_len {
            continue;
        }
        let mut nb = String::new();
        nb.push_str(&body[..i]);
        nb.push('*');
        nb.push_str(&body[i + 1..]);
        variants.push((format!("{}{}{}", pre, nb, post), "literal-to-star", false));
    }
    // appending '*' never changes the verdict (not for right-anchored patterns)
    // (in `||` mode a star directly after the host text turns whole-label anchoring into prefix
    // anchoring, so there the relation is only meaningful when something follows the host)
    let host_only = p.left == Left::Host && pat::split_host(&p.body).1.is_empty();
    if !p.right && !host_only {
        variants.push((format!("{}{}*", pre, body), "append-star", true));
    }
    let parsed: Vec<(String, &'static str, bool, NetworkFilter)> = variants
        .into_iter()
        .filter_map(|(t, n, both)| {
            if quirky(&t) {
                return None;
            }
            match catch(|| NetworkFilter::parse(&t, true, Default::default())) {
                Ok(Ok(w)) => Some((t, n, both, w)),
                _ => None,
            }
        })
        .collect();
    if parsed.is_empty() {
        return;
    }
    let mut rm = RegexManager::default();
    let mut wrm: Vec<RegexManager> = parsed.iter().map(|_| RegexManager::default()).collect();
    for u in urls {
        let got = catch(|| f.matches(&u.req, &mut rm)).unwrap_or(false);
        for (k, (txt, name, both, w)) in parsed.iter().enumerate() {
            l.evaluations += 1;
            let wg = catch(|| w.matches(&u.req, &mut wrm[k])).unwrap_or(false);
            let bad = (got && !wg) || (*both && wg != got);
            // URLs on which the known defect D2 applies (anchor text occurs more than once) are
            // already decided, and reported, by the equality clause; the relations skip them.
            if p.left == Left::Host && classify_host(&p, u) != "c02.hostanchor.other" {
                continue;
            }
            l.compared += 1;
            if bad {
                let sig = format!("c02.relation.{}", name);
                l.mismatch(Mismatch {
                    sig,
                    what: format!("{:?} -> {} on {:?} but {:?} -> {}", rule, got, u.req.url, txt, wg),
                    case: json!({"kind":"star","rule":rule,"url":u.req.url}),
                    size: (rule.len() * 100 + u.req.url.len()) as u64,
                });
            }
        }
    }
}

const REGEXES: [&str; 26] = [
    r"/a\.b/",
    r"/^https:\/\/a/",
    r"/b\/a/",
    r"/[ab]{2}\./",
    r"/a+b/",
    r"/(ab|ba)\.a/",
    r"/\d/",
    r"/\w\.\w\//",
    r"/a.b/",
    r"/\/a\?/",
    r"/[^a]\/\?/",
    r"/a|b\.b/",
    r"/^http:/",
    r"/A\.B/",
    r"/[A-Z]/",
    r"/a\.b\/a/$match-case",
    r"/A/$match-case",
    r"/aB/$match-case",
    r"/[A-Z]/$match-case",
    r"/\/\//",
    r"/:\/\/[^\/]*@/",
    r"/\.a\/./",
    r"/b\/b/",
    r"/a{2}/",
    r"/\D\/a/",
    r"/\W\w\W/$match-case",
];

fn check_full_regex(rule: &str, urls: &[U], l: &mut Local) {
    let (re_txt, match_case) = match rule.strip_suffix("$match-case") {
        Some(r) => (r, true),
        None => (rule, false),
    };
    let inner = &re_txt[1..re_txt.len() - 1];
    let inner = inner.replace("\\/", "/");
    let reference = regex::bytes::RegexBuilder::new(&inner)
        .unicode(false)
        .case_insensitive(!match_case)
        .build()
        .expect("curated regex must compile");
    let f = match catch(|| NetworkFilter::parse(rule, true, Default::default())) {
        Ok(Ok(f)) => f,
        other => {
            l.mismatch(Mismatch {
                sig: "c02.fullregex.rejected".into(),
                what: format!("curated full-regex rule {:?} did not parse: {:?}", rule, other.map(|r| r.map(|_| ()))),
                case: json!({"kind":"regex","rule":rule}),
                size: 1,
            });
            return;
        }
    };
    l.states += 1;
    let mut rm = RegexManager::default();
    for u in urls {
        l.evaluations += 1;
        l.transitions += 1;
        l.compared += 1;
        let got = catch(|| f.matches(&u.req, &mut rm)).unwrap_or(false);
        let exp = reference.is_match(u.req.url.as_bytes());
        if got {
            l.nontrivial += 1;
        }
        l.hist(match (exp, got) {
            (true, true) => "regex-match",
            (false, false) => "regex-no-match",
            (true, false) => "regex-LOST",
            (false, true) => "regex-SPURIOUS",
        });
        if exp != got {
            // classifier: the rule is case-insensitive and contains an upper-case escape class
            // (\D \W \S \B) whose meaning changes when the text of the regex is lower-cased
            let upper_escape = !match_case
                && ["\\D", "\\W", "\\S", "\\B"].iter().any(|e| inner.contains(e));
            let sig = if upper_escape {
                "c02.fullregex.lowercased-escape-class".to_string()
            } else {
                "c02.fullregex.mismatch".to_string()
            };
            l.mismatch(Mismatch {
                sig,
                what: format!("full regex {:?} on {:?}: regex crate says {}, matcher says {}", rule, u.req.url, exp, got),
                case: json!({"kind":"regex","rule":rule,"url":u.req.url}),
                size: (rule.len() * 100 + u.req.url.len()) as u64,
            });
        }
    }
}

/// Two spellings of one body (different anchor modes) evaluated through ONE shared regex manager,
/// as rules of one engine are: whatever the manager caches for one of them must not answer for
/// the other. Oracle: the same rule with a manager of its own (validated against the reference
/// by the main sweep).
fn check_shared_manager(body: &str, urls: &[U], l: &mut Local) {
    let rules: Vec<(String, NetworkFilter)> = MODES
        .iter()
        .map(|m| format!("{}{}{}", m.0, body, m.1))
        .filter(|r| !quirky(r))
        .filter_map(|r| match catch(|| NetworkFilter::parse(&r, true, Default::default())) {
            Ok(Ok(f)) => Some((r, f)),
            _ => None,
        })
        .collect();
    // answers with a private manager per rule, every 4th URL
    let sub: Vec<&U> = urls.iter().step_by(4).collect();
    let own: Vec<Vec<bool>> = rules
        .iter()
        .map(|(_, f)| {
            let mut rm = RegexManager::default();
            sub.iter().map(|u| f.matches(&u.req, &mut rm)).collect()
        })
        .collect();
    for a in 0..rules.len() {
        for b in 0..rules.len() {
            if a == b {
                continue;
            }
            l.states += 1;
            let mut rm = RegexManager::default();
            for (k, u) in sub.iter().enumerate() {
                l.evaluations += 2;
                l.transitions += 2;
                l.compared += 2;
                let ra = rules[a].1.matches(&u.req, &mut rm);
                let rb = rules[b].1.matches(&u.req, &mut rm);
                if ra || rb {
                    l.nontrivial += 1;
                }
                if ra != own[a][k] || rb != own[b][k] {
                    let (which, got, exp) = if ra != own[a][k] { (a, ra, own[a][k]) } else { (b, rb, own[b][k]) };
                    l.mismatch(Mismatch {
                        sig: "c02.shared-manager.answer-depends-on-the-other-rule".into(),
                        what: format!("rules {:?} and {:?} through one regex manager: {:?} on {:?} gives {}, with a manager of its own {}", rules[a].0, rules[b].0, rules[which].0, u.req.url, got, exp),
                        case: json!({"kind":"shared","body":body}),
                        size: body.len() as u64,
                    });
                    return;
                }
            }
        }
    }
}

fn find_url<'a>(urls: &'a [U], url: &str) -> Option<&'a U> {
    urls.iter().find(|u| u.req.url == url)
}

fn replay(case: &Value, l: &mut Local) {
    let urls = build_urls();
    let rule = case["rule"].as_str().unwrap_or("");
    let sel: Vec<U>;
    let us: &[U] = match case.get("url").and_then(|u| u.as_str()) {
        Some(url) => match find_url(&urls, url) {
            Some(_) => {
                sel = urls.into_iter().filter(|u| u.req.url == url).collect();
                &sel
            }
            None => {
                // a URL outside the universe: rebuild it from the stored offsets
                let req = match Request::new(url, "", "script") {
                    Ok(r) => r,
                    Err(_) => return,
                };
                let hs = case["host_start"].as_u64().unwrap_or(0) as usize;
                let he = case["host_end"].as_u64().unwrap_or(0) as usize;
                sel = vec![U { req, host_start: hs, host_end: he }];
                &sel
            }
        },
        None => &urls,
    };
    match case["kind"].as_str().unwrap_or("pattern") {
        "shared" => check_shared_manager(case["body"].as_str().unwrap_or("a^"), &build_urls(), l),
        "regex" => check_full_regex(rule, us, l),
        "star" => check_star_relations(rule, us, l),
        _ => check_pattern_sfx(rule, case["suffix"].as_str().unwrap_or(""), us, l, true),
    }
    let _ = real_match;
}

fn check(ctx: &Ctx) -> i32 {
    let urls = build_urls();
    let n_len: u32 = ctx.tier.pick(6, 7);
    let rel_len: u32 = ctx.tier.pick(5, 6);
    ctx.bound("pattern_body_max_len", n_len);
    ctx.bound("relation_body_max_len", rel_len);
    ctx.bound("alphabet", json!(SIGMA));
    ctx.bound("anchor_modes", json!(MODES));
    ctx.bound("urls", urls.len());
    ctx.bound("curated_full_regexes", REGEXES.len());
    let bodies = count_strings_upto(SIGMA.len() as u64, n_len) - 1; // skip the empty body
    let total = bodies * MODES.len() as u64;
    ctx.par_range("patterns", total, 64, |i, l| {
        let mode = (i % MODES.len() as u64) as usize;
        let body = nth_string(i / MODES.len() as u64 + 1, &SIGMA);
        let rule = format!("{}{}{}", MODES[mode].0, body, MODES[mode].1);
        if l.samples.len() < 3 && (i + ctx.seed) % 9973 == 0 {
            l.samples.push(json!({"rule": rule, "urls": urls.len(), "first_url": urls[0].req.url}));
        }
        check_pattern(&rule, &urls, l, true);
    });
    let shared_len: u32 = ctx.tier.pick(3, 4);
    ctx.bound("shared_manager_body_max_len", shared_len);
    let shared_bodies = count_strings_upto(SIGMA.len() as u64, shared_len) - 1;
    ctx.par_range("anchor twins through one regex manager", shared_bodies, 4, |i, l| {
        let body = nth_string(i + 1, &SIGMA);
        check_shared_manager(&body, &urls, l);
    });
    let rel_bodies = count_strings_upto(SIGMA.len() as u64, rel_len) - 1;
    ctx.par_range("star-relations", rel_bodies * MODES.len() as u64, 64, |i, l| {
        let mode = (i % MODES.len() as u64) as usize;
        let body = nth_string(i / MODES.len() as u64 + 1, &SIGMA);
        let rule = format!("{}{}{}", MODES[mode].0, body, MODES[mode].1);
        check_star_relations(&rule, &urls, l);
    });
    let meta_len: u32 = ctx.tier.pick(5, 6);
    ctx.bound("metachar_sweep_body_max_len", meta_len);
    ctx.bound("metachar_sweep_characters", json!(METAS));
    let meta_urls: Vec<Vec<U>> = METAS.iter().map(|m| build_meta_urls(m)).collect();
    ctx.bound("metachar_sweep_urls_per_character", json!(meta_urls.iter().map(|v| v.len()).collect::<Vec<_>>()));
    let meta_bodies = count_strings_upto(5, meta_len) - 1;
    let per_meta = meta_bodies * MODES_META.len() as u64;
    ctx.par_range("metacharacters as literals", per_meta * METAS.len() as u64, 64, |i, l| {
        let mi = (i / per_meta) as usize;
        let j = i % per_meta;
        let m = METAS[mi];
        let mode = MODES_META[(j % MODES_META.len() as u64) as usize];
        let body = nth_string(j / MODES_META.len() as u64 + 1, &["a", "/", "*", "^", m]);
        // the anchors are the modes' business: a body that starts or ends with `|` would be one
        if !body.contains(m) || body.starts_with('|') || body.ends_with('|') {
            return;
        }
        let rule = format!("{}{}{}", mode.0, body, mode.1);
        check_pattern_sfx(&rule, if m == "$" { "$script" } else { "" }, &meta_urls[mi], l, false);
    });
    let case_len: u32 = ctx.tier.pick(5, 6);
    ctx.bound("case_sweep_body_max_len", case_len);
    ctx.bound("case_sweep_alphabet", json!(SIGMA_CASE));
    let case_bodies = count_strings_upto(SIGMA_CASE.len() as u64, case_len) - 1;
    ctx.par_range("upper-case patterns", case_bodies * MODES.len() as u64, 64, |i, l| {
        let mode = (i % MODES.len() as u64) as usize;
        let body = nth_string(i / MODES.len() as u64 + 1, &SIGMA_CASE);
        if !body.contains('A') && !body.contains('B') {
            return;
        }
        let rule = format!("{}{}{}", MODES[mode].0, body, MODES[mode].1);
        check_pattern(&rule, &urls, l, false);
    });
    ctx.par_range("full-regex", REGEXES.len() as u64, 1, |i, l| {
        if l.samples.len() < 1 {
            l.samples.push(json!({"full_regex_rule": REGEXES[i as usize]}));
        }
        check_full_regex(REGEXES[i as usize], &urls, l);
    });
    ctx.finish(
        "model_checking",
        "every pattern body of length 1..=n over {a,b,.,/,*,^} x 8 anchor modes (none, |p, p|, |p|, ||p, ||p|, |https://a.b+p, |http://b.a/+p|), each against every URL of the universe (2 schemes x 7 hosts with repeated/prefix/suffix labels x optional userinfo x all paths of length <=3 over {a,b,/,.} + separators + upper-case paths, plus 3 hosts with an explicit port x paths of length <= 2); the same modes over {a,A,B,/,*,^} up to a shorter length (case-insensitivity of the rule text); every body over {a,/,*,^,M} containing M for each M of 11 regex / rule-syntax metacharacters in 4 modes against URLs whose path ranges over {a,/,M} (M is a literal, also on the compiled-regex path); a case is non-trivial when the real matcher reports a match; states = rules parsed, transitions = (rule,url) evaluations, traces_validated = evaluations compared with the reference or a relation",
        &[
            "regex crate is the oracle for full-regex rules",
            "URLs are ASCII, lower-case host, non-empty path (the property's domain)",
            "||host whose host text ends inside a label, ||host| with empty remainder, empty host text: Unspecified (executed, not compared)",
        ],
    )
}

fn main() {
    run_main("C02", check, replay)
}
