//! C13 — redirect result is the best permitted matching redirect resource.
//! BX: all ordered lists of <= k rules of a redirect alphabet (redirect / redirect-rule with every
//! resource kind and priority-suffix spelling, redirect exceptions, important, plain block, plain
//! exception) x two resource stores (standard, empty) x requests, on real engines; oracle = the
//! selection rule written from the property text (`netspec::spec_redirect`, set-valued on ties).
//! DESIGN §4 C13.

use serde_json::Value;
use vh::alpha::Req;
use vh::util::{count_arrangements_upto, nth_arrangement};
use vh::{run_main, Ctx, Local};

fn pool() -> Vec<String> {
    let mut v = vec![];
    let spec: [(&str, &[&str]); 19] = [
        ("a", &["", ":5", ":10", ":-1", ":x", ":", ":0", ":100", ":-2147483648", ":2147483647"]),
        ("b", &["", ":5", ":10", ":-5", ":9", ":-2147483647", ":2147483648"]),
        ("a-alias", &["", ":10"]),
        ("missing", &["", ":10"]),
        ("perm", &["", ":10"]),
        ("fn", &["", ":10"]),
        ("tpl", &["", ":10"]),
        ("bin", &[":6"]),
        ("corrupt", &[":12"]),
        ("corrupt-alias", &[":13"]),
        ("vid", &[":11"]),
        // names that contain the priority separator: loaded (`ns:a`) and not loaded (`zzz:1`)
        ("ns:a", &["", ":7"]),
        ("zzz:1", &[":9"]),
        // identifiers around two resources that were rejected for an alias collision
        ("s1x", &[":3"]),
        ("leak", &[":3"]),
        ("bad2", &[":4"]),
        ("bad", &[":4"]),
        // identifiers of two resources rejected because their name / alias is a loaded identifier
        ("shadow", &[":3"]),
        ("bad3", &[":4"]),
    ];
    for opt in ["redirect", "redirect-rule"] {
        for (res, sufs) in spec.iter() {
            for s in sufs.iter() {
                v.push(format!("||x.com^${}={}{}", opt, res, s));
            }
        }
    }
    for e in ["redirect=a", "redirect=a:5", "redirect=b", "redirect=a-alias", "redirect-rule=a", "redirect-rule=b:5"] {
        v.push(format!("@@||x.com^${}", e));
    }
    v.push("||x.com^$important".into());
    v.push("||x.com^".into());
    v.push("@@||x.com^".into());
    v.push("/ad.js$redirect=b:7,script".into());
    v
}

fn requests() -> Vec<Req> {
    let mut out = vec![];
    for (url, src, ty) in [
        ("https://x.com/ad.js", "https://x.com/", "script"),
        ("https://x.com/pic.gif", "https://y.com/", "image"),
        ("https://sub.x.com/ad.js", "https://y.com/", "script"),
        ("https://other.com/ad.js", "https://y.com/", "script"),
        ("https://other.com/ad.js", "https://y.com/", "image"),
        // initiators that share no token with the rules: the index then returns each matching rule
        // exactly once (an initiator under .com probes the `com` bucket twice)
        ("https://x.com/ad.js", "https://site.org/", "script"),
        ("https://sub.x.com/pic.gif", "", "image"),
    ] {
        if let Ok(req) = adblock::request::Request::new(url, src, ty) {
            out.push(Req { req, url: url.into(), source: src.into(), ty });
        }
    }
    out
}

/// Independent applicability of the pool's rules (option semantics, not the real matcher): every
/// `||x.com^` rule applies to requests to x.com and its sub-domains, of any type and party; the
/// one path rule applies to script requests whose URL contains `/ad.js`.
fn applies(rule: &str, rq: &Req) -> bool {
    let host = rq.url.split("://").nth(1).unwrap_or("").split('/').next().unwrap_or("");
    if rule.starts_with("/ad.js$") {
        return rq.url.contains("/ad.js") && rq.ty == "script";
    }
    host == "x.com" || host.ends_with(".x.com")
}

fn check_independent(items: &[&str], reqs: &[Req], l: &mut Local) {
    use vh::oracle::netspec as ns;
    let e = vh::netsweep::build_engine(items, &[], false, true);
    let store = ns::std_res_spec();
    // second subject: an empty blocker that receives the rules one by one (`Blocker::add_filter`)
    let incremental = vh::util::catch(|| {
        use adblock::blocker::{Blocker, BlockerOptions};
        let mut b = Blocker::new(vec![], &BlockerOptions { enable_optimizations: false });
        for r in items {
            if let Ok(f) = adblock::filters::network::NetworkFilter::parse(r, true, Default::default()) {
                let _ = b.add_filter(f);
            }
        }
        b
    })
    .ok();
    let res_storage = adblock::resources::ResourceStorage::from_resources(vh::net::std_resources());
    for rq in reqs {
        let option_of = |r: &str| r.rsplit_once('$').and_then(|(_, o)| o.split(',').find_map(|x| x.strip_prefix("redirect=").or_else(|| x.strip_prefix("redirect-rule=")))).map(|s| s.to_string());
        let cands: Vec<String> = items.iter().filter(|r| !r.starts_with("@@") && applies(r, rq)).filter_map(|r| option_of(r)).collect();
        let excs: Vec<String> = items.iter().filter(|r| r.starts_with("@@") && applies(r, rq)).filter_map(|r| option_of(r)).collect();
        let exp = ns::spec_redirect(&cands, &excs, &store);
        let got = vh::util::catch(|| e.check_network_request(&rq.req).redirect);
        l.compared += 1;
        l.transitions += 1;
        if let Some(b) = &incremental {
            let got_b = vh::util::catch(|| b.check(&rq.req, &res_storage).redirect);
            l.compared += 1;
            l.transitions += 1;
            match got_b {
                Ok(g) if exp.accepts(&g) => {}
                other => l.mismatch(vh::Mismatch {
                    sig: "c13.redirect.rule-applicability.rules-added-one-by-one".into(),
                    what: format!("rules {:?} added with Blocker::add_filter, request ({}, {}, {}): option semantics give {:?}, blocker {:?}", items, rq.url, rq.source, rq.ty, exp, other),
                    case: serde_json::json!({"rules": items, "hosts": [], "tags": [], "url": rq.url, "source": rq.source, "type": rq.ty, "resources": true, "independent": true}),
                    size: (items.len() * 10000 + rq.url.len()) as u64,
                }),
            }
        }
        match got {
            Ok(g) if exp.accepts(&g) => {}
            other => l.mismatch(vh::Mismatch {
                sig: "c13.redirect.rule-applicability".into(),
                what: format!("list {:?} request ({}, {}, {}): option semantics give {:?}, engine {:?}", items, rq.url, rq.source, rq.ty, exp, other),
                case: serde_json::json!({"rules": items, "hosts": [], "tags": [], "url": rq.url, "source": rq.source, "type": rq.ty, "resources": true, "independent": true}),
                size: (items.len() * 10000 + rq.url.len()) as u64,
            }),
        }
    }
}

/// Request-type options next to `redirect=` / `redirect-rule=`: a redirect rule is an ordinary
/// network rule as far as request types go - a list of positive types is exhaustive, negated types
/// (or none) mean every network type (not `document`) but the negated ones. Lists that mix the two
/// polarities are left out (their meaning is not pinned). Expectation written from the option
/// semantics; the real matcher is not consulted.
fn check_type_options(idx: u64, l: &mut Local) {
    use vh::alpha::{type_option_lists, TYPE_REQS};
    let lists: Vec<_> = type_option_lists().into_iter().filter(|(_, p, n)| p.is_empty() || n.is_empty()).collect();
    let (opts, pos, neg) = &lists[(idx / 4) as usize % lists.len()];
    let option = if idx & 1 == 0 { "redirect=a" } else { "redirect-rule=a:5" };
    let rule = match (opts.is_empty(), idx & 2 == 0) {
        (true, _) => format!("/ad.js${}", option),
        (false, true) => format!("/ad.js${},{}", option, opts),
        (false, false) => format!("/ad.js${},{}", opts, option),
    };
    let e = vh::netsweep::build_engine(&[rule.as_str()], &[], false, true);
    l.states += 1;
    let data_url = vh::net::data_url("image/gif", "GIF89a");
    for (ty, c) in TYPE_REQS {
        let req = match adblock::request::Request::new("https://x.com/ad.js", "https://y.com/", ty) {
            Ok(r) => r,
            Err(_) => continue,
        };
        l.evaluations += 1;
        l.transitions += 1;
        l.compared += 1;
        let applies = if pos.is_empty() { c != "document" && !neg.contains(&c) } else { pos.contains(&c) };
        let exp = if applies { Some(data_url.clone()) } else { None };
        let got = vh::util::catch(|| {
            let r = e.check_network_request(&req);
            (r.redirect, r.matched)
        });
        if applies {
            l.nontrivial += 1;
        }
        l.hist(if applies { "type-options:applies" } else { "type-options:does-not-apply" });
        let exp_matched = applies && idx & 1 == 0;
        if got.as_ref().ok() != Some(&(exp.clone(), exp_matched)) {
            l.mismatch(vh::Mismatch {
                sig: format!("c13.type-options.{}", if applies { "missing-redirect" } else { "redirect-outside-the-listed-types" }),
                what: format!("rule {:?} request type {}: expected redirect {:?} matched {}, engine gave {:?}", rule, ty, exp, exp_matched, got),
                case: serde_json::json!({"type_options_index": idx}),
                size: rule.len() as u64,
            });
        }
    }
}

fn replay(case: &Value, l: &mut Local) {
    if let Some(i) = case["type_options_index"].as_u64() {
        return check_type_options(i, l);
    }
    if case["independent"].as_bool() == Some(true) {
        let rules: Vec<String> = case["rules"].as_array().map(|a| a.iter().filter_map(|v| v.as_str().map(|s| s.to_string())).collect()).unwrap_or_default();
        let items: Vec<&str> = rules.iter().map(|s| s.as_str()).collect();
        check_independent(&items, &requests(), l);
        return;
    }
    let res = case["resources"].as_bool().unwrap_or(true);
    vh::netsweep::replay_case("c13", case, l, res);
}

fn check(ctx: &Ctx) -> i32 {
    let pool = pool();
    let k: u32 = ctx.tier.pick(3, 4);
    let reqs = requests();
    ctx.bound("list_max_len", k);
    ctx.bound("rule_pool", pool.len());
    ctx.bound("requests", reqs.len());
    ctx.bound("resource_stores", 2);
    let ntl = vh::alpha::type_option_lists().into_iter().filter(|(_, p, n)| p.is_empty() || n.is_empty()).count() as u64;
    ctx.bound("type_option_lists", ntl);
    ctx.par_range("type options", ntl * 4, 8, |i, l| check_type_options(i, l));
    let n = count_arrangements_upto(pool.len() as u64, 3);
    ctx.par_range("lists<=3", n, 16, |i, l| {
        let mut idx = vec![];
        nth_arrangement(i, pool.len() as u64, &mut idx);
        if !idx.iter().any(|&j| pool[j].contains("redirect")) {
            return;
        }
        let items: Vec<(&str, bool)> = idx.iter().map(|&j| (pool[j].as_str(), false)).collect();
        let sample = l.samples.len() < 2 && (i + ctx.seed) % 7919 == 11;
        vh::netsweep::check_list("c13", &items, &reqs, l, sample, true);
        vh::netsweep::check_list("c13.empty-store", &items, &reqs, l, false, false);
        if idx.len() <= 2 {
            let plain: Vec<&str> = idx.iter().map(|&j| pool[j].as_str()).collect();
            check_independent(&plain, &reqs, l);
        }
    });
    if k >= 4 {
        // thorough: every ordered list of exactly 4 rules
        let p = pool.len() as u64;
        let n3 = count_arrangements_upto(p, 3);
        let n4 = count_arrangements_upto(p, 4);
        ctx.par_range("lists=4", n4 - n3, 64, |i, l| {
            let mut idx = vec![];
            nth_arrangement(n3 + i, p, &mut idx);
            if !idx.iter().any(|&j| pool[j].contains("redirect")) {
                return;
            }
            let items: Vec<(&str, bool)> = idx.iter().map(|&j| (pool[j].as_str(), false)).collect();
            vh::netsweep::check_list("c13", &items, &reqs, l, false, true);
        });
    }
    ctx.finish(
        "model_checking",
        "all ordered lists without repetition of <= 3 rules (containing at least one redirect rule) of the 56-rule redirect alphabet, each built into a real engine, once with the standard resource store (a + alias, b, permissioned, fn/javascript, template, a name with the priority separator, four deliberately rejected colliding resources; 'missing' absent) and once with an empty store, against 7 requests; thorough adds every ordered list of 4 rules (standard store); plus every pure-positive / pure-negated list of request-type options (of the menu shared with C14) next to redirect= and redirect-rule= x 16 request type strings, expectation written from the option semantics; non-trivial = at least one rule matches; every verdict (redirect, matched, important, exception) compared with the reference; ties are set-valued",
        &["an exception naming the same resource with a different priority suffix is Unspecified", "whether a redirect exception also unblocks the request is Unspecified"],
    )
}

fn main() {
    run_main("C13", check, replay)
}
