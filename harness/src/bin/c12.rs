//! C12 — requests are normalised consistently: host, party and scheme classification.
//!
//! BX, two universes (DESIGN §4 C12):
//!  (a) totality: every string of length <= n over an 18-symbol alphabet (URL punctuation, tab, LF,
//!      1/2/3/4-byte characters), behind each of 6 prefixes, handed to `parse_url` and to
//!      `Request::new` as url, as source_url and as both. Nothing may panic; the results must be
//!      internally consistent (hostname = text at `hostname_pos`, domain is a suffix of the
//!      hostname, a URL is first-party to itself, an unparseable source is third-party, scheme
//!      flags follow the scheme of the input, `preparsed` reproduces the request).
//!  (b) semantics: scheme x slashes x userinfo x host x port x path  x  initiator x type.
//!      Oracle, tri-state:
//!        host      = `url::Url::parse(..).host_str()` where the host text is already canonical
//!                    (the url crate leaves it alone); IDN hosts = `idna::domain_to_ascii`;
//!        party     = eTLD+1 computed here from `addr::psl::List` through the lenient DNS-name
//!                    entry point plus own label arithmetic (the crate uses the strict
//!                    domain-name entry point): third-party <=> sites differ, or the initiator
//!                    is absent / has no host;
//!        scheme    = is_supported <=> scheme in {http,https,ws,wss}; ws/wss force Websocket;
//!        preparsed = `Request::preparsed` from the parts of the `Request::new` result equals it
//!                    on every public field and on the verdict of a fixed 10-rule engine;
//!        idempotent= `Request::new` of the normalised URL is the same request.
//!      Classifier: a spurious third-party verdict that is reproduced by the model "a host with a
//!      label outside registry syntax (underscore, leading/trailing hyphen) is its own site" gets
//!      the signature `c12.party.spurious-third.label-syntax-fallback`; every other party
//!      mismatch is named after the shapes of the two hosts.
//!      Upper-case ASCII hosts, hosts the url crate would canonicalise (percent escapes, IPv4
//!      shorthands, expanded IPv6), control characters inside the authority, hosts that differ
//!      only by a trailing dot: executed, `Unspecified`.

use adblock::request::{Request, RequestType};
use adblock::url_parser::parse_url;
use adblock::utils::fast_hash;
use adblock::Engine;
use addr::parser::DnsName;
use addr::psl::List;
use serde_json::{json, Value};
use std::collections::BTreeSet;
use vh::util::{catch, count_strings_upto, nth_string};
use vh::{run_main, Ctx, Local, Mismatch, Tri};

// ------------------------------------------------------------------------------------------------
// shared helpers
// ------------------------------------------------------------------------------------------------

const SUPPORTED: [&str; 4] = ["http", "https", "ws", "wss"];

/// Scheme of an input string by the text of the URL standard: leading/trailing C0-or-space
/// trimmed, ALPHA *(ALPHA / DIGIT / + / - / .) up to the first ':', lower-cased.
fn input_scheme(s: &str) -> Option<String> {
    let t = s.trim_matches(|c: char| c <= ' ');
    let i = t.find(':')?;
    let sc = &t[..i];
    let mut it = sc.chars();
    if !it.next()?.is_ascii_alphabetic() {
        return None;
    }
    if !it.all(|c| c.is_ascii_alphanumeric() || c == '+' || c == '-' || c == '.') {
        return None;
    }
    Some(sc.to_ascii_lowercase())
}

/// Documented names of request types used in the universes. Anything else: not pinned.
fn type_map(ty: &str) -> Option<RequestType> {
    Some(match ty {
        "script" => RequestType::Script,
        "image" => RequestType::Image,
        "websocket" => RequestType::Websocket,
        "document" => RequestType::Document,
        "sub_frame" => RequestType::Subdocument,
        "xhr" => RequestType::Xmlhttprequest,
        "other" => RequestType::Other,
        _ => return None,
    })
}

fn has_ctl(s: &str) -> bool {
    s.chars().any(|c| c <= ' ' || c == '\u{7f}')
}

/// First public field on which two requests differ.
fn field_diff(a: &Request, b: &Request) -> Option<&'static str> {
    if a.request_type != b.request_type {
        return Some("request_type");
    }
    if a.is_http != b.is_http {
        return Some("is_http");
    }
    if a.is_https != b.is_https {
        return Some("is_https");
    }
    if a.is_supported != b.is_supported {
        return Some("is_supported");
    }
    if a.is_third_party != b.is_third_party {
        return Some("is_third_party");
    }
    if a.url != b.url {
        return Some("url");
    }
    if a.hostname != b.hostname {
        return Some("hostname");
    }
    if a.source_hostname_hashes != b.source_hostname_hashes {
        return Some("source_hostname_hashes");
    }
    if a.get_tokens() != b.get_tokens() {
        return Some("tokens");
    }
    None
}

const ENGINE_RULES: [&str; 10] = [
    "||example.com^$third-party",
    "||tracker.co.uk^$first-party,script",
    "/path/a.js$image",
    "@@||www.example.com^$domain=example.org",
    "$websocket,domain=example.com|github.io",
    "*$removeparam=utm",
    "|http://$document",
    "||xn--bcher-kva.de^",
    "||1.2.3.4^$important",
    "||other.com^$script,redirect=a",
];

fn make_engine() -> Engine {
    let mut e = vh::net::engine(&ENGINE_RULES, true, false);
    e.use_resources(vh::net::std_resources());
    e
}

thread_local! {
    static ENG: Engine = make_engine();
}

#[derive(Clone, Debug, PartialEq, Eq)]
struct V {
    matched: bool,
    important: bool,
    redirect: Option<String>,
    rewritten: Option<String>,
    exception: Option<String>,
    filter: Option<String>,
}

impl V {
    fn short(&self) -> String {
        format!(
            "{}{}{}{}{}",
            if self.matched { "B" } else { "-" },
            if self.important { "I" } else { "-" },
            if self.exception.is_some() { "E" } else { "-" },
            if self.redirect.is_some() { "R" } else { "-" },
            if self.rewritten.is_some() { "W" } else { "-" }
        )
    }
}

fn verdict(r: &Request) -> Result<V, String> {
    ENG.with(|e| catch(|| e.check_network_request(r))).map(|b| V {
        matched: b.matched,
        important: b.important,
        redirect: b.redirect,
        rewritten: b.rewritten_url,
        exception: b.exception,
        filter: b.filter,
    })
}

/// The normalised form of a rewritten URL (used only when the two constructions were given
/// different spellings of the same URL: `new` rewrites the URL as given, `preparsed` the
/// normalised one).
fn norm(u: &Option<String>) -> Option<String> {
    u.as_ref().map(|s| catch(|| parse_url(s).map(|p| p.url)).ok().flatten().unwrap_or_else(|| s.clone()))
}

/// Reference for the source-hostname hashes: the hashes of every non-empty label-aligned suffix
/// of the source hostname (as a set; the order is not documented).
fn ref_source_hashes(host: &str) -> BTreeSet<u64> {
    let mut out = BTreeSet::new();
    out.insert(fast_hash(host));
    let b = host.as_bytes();
    for i in 0..b.len() {
        if b[i] == b'.' && i + 1 < b.len() {
            out.insert(fast_hash(&host[i + 1..]));
        }
    }
    out
}

// ------------------------------------------------------------------------------------------------
// (a) totality universe
// ------------------------------------------------------------------------------------------------

const SIGMA: [&str; 18] = [
    ":", "/", "\\", "@", "[", "]", "?", "#", ".", "%", "\t", "\n", "a", "A", "1", "é", "文", "😀",
];
const PREFIXES: [&str; 6] = ["", "http:", "https://", "ws://", "x:", "file:"];
const FIXED_URL: &str = "https://example.com/x";
const FIXED_SRC: &str = "https://example.com/";

fn total_mismatch(l: &mut Local, clause: &str, what: String, s: &str) {
    l.mismatch(Mismatch {
        sig: format!("c12.total.{}", clause),
        what,
        case: json!({"kind": "total", "s": s}),
        size: s.len() as u64,
    });
}

fn total_case(s: &str, l: &mut Local) {
    l.evaluations += 1;
    // 1. the scanner on its own
    l.transitions += 1;
    let parsed = match catch(|| parse_url(s)) {
        Ok(p) => p,
        Err(loc) => {
            l.hist("total:PANIC");
            total_mismatch(l, &format!("panic.parse_url@{}", loc), format!("parse_url({:?}) panicked at {}", s, loc), s);
            return;
        }
    };
    let mut parts: Option<(String, String, String, String)> = None; // url, hostname, domain, schema
    if let Some(p) = &parsed {
        match catch(|| (p.hostname().to_string(), p.domain().to_string(), p.schema().to_string())) {
            Ok((h, d, sc)) => {
                l.compared += 1;
                let (a, b) = p.hostname_pos;
                if h.is_empty() || p.url.get(a..b) != Some(h.as_str()) {
                    total_mismatch(l, "hostname-pos", format!("parse_url({:?}): hostname {:?} is empty or not the text at hostname_pos {:?} of {:?}", s, h, p.hostname_pos, p.url), s);
                }
                if !h.ends_with(&d) || d.is_empty() {
                    total_mismatch(l, "domain-not-suffix", format!("parse_url({:?}): domain {:?} is not a non-empty suffix of hostname {:?}", s, d, h), s);
                }
                if !p.url.starts_with(&format!("{}:", sc)) {
                    total_mismatch(l, "schema-not-prefix", format!("parse_url({:?}): schema {:?} is not the prefix of {:?}", s, sc, p.url), s);
                }
                parts = Some((p.url.clone(), h, d, sc));
            }
            Err(loc) => {
                l.hist("total:PANIC");
                total_mismatch(l, &format!("panic.accessor@{}", loc), format!("hostname()/domain()/schema() of parse_url({:?}) panicked at {}", s, loc), s);
                return;
            }
        }
    }
    // 2. as request URL
    l.transitions += 1;
    match catch(|| Request::new(s, FIXED_SRC, "script")) {
        Err(loc) => {
            l.hist("total:PANIC");
            total_mismatch(l, &format!("panic.url@{}", loc), format!("Request::new({:?}, ..) panicked at {}", s, loc), s);
        }
        Ok(Err(_)) => {
            l.hist("total:url-rejected");
            l.compared += 1;
            if parts.is_some() {
                total_mismatch(l, "new-vs-parse_url", format!("parse_url accepts {:?} but Request::new rejects it", s), s);
            }
        }
        Ok(Ok(r)) => {
            l.states += 1;
            l.compared += 1;
            match &parts {
                None => total_mismatch(l, "new-vs-parse_url", format!("Request::new accepts {:?} but parse_url rejects it", s), s),
                Some((url, h, _, sc)) => {
                    if &r.url != url || &r.hostname != h {
                        total_mismatch(l, "new-vs-parse_url", format!("Request::new({:?}) reports url {:?} host {:?}, parse_url {:?} / {:?}", s, r.url, r.hostname, url, h), s);
                    }
                    // scheme flags follow the scheme of the input
                    match input_scheme(s) {
                        Some(isc) => {
                            l.compared += 1;
                            let sup = SUPPORTED.contains(&isc.as_str());
                            let ws = isc == "ws" || isc == "wss";
                            if &isc != sc || r.is_supported != sup || r.is_http != (isc == "http") || r.is_https != (isc == "https") {
                                total_mismatch(l, "scheme-flags", format!("{:?}: scheme {:?}, reported schema {:?} supported={} http={} https={}", s, isc, sc, r.is_supported, r.is_http, r.is_https), s);
                            }
                            let exp_ty = if ws { RequestType::Websocket } else { RequestType::Script };
                            if r.request_type != exp_ty {
                                total_mismatch(l, "websocket-type", format!("{:?}: type {:?}, expected {:?}", s, r.request_type, exp_ty), s);
                            }
                            l.hist(if ws {
                                "total:url-ok-websocket"
                            } else if sup {
                                "total:url-ok-http(s)"
                            } else {
                                "total:url-ok-unsupported-scheme"
                            });
                        }
                        None => {
                            l.unspecified += 1;
                            l.hist("total:url-ok-scheme-not-plain");
                        }
                    }
                    // preparsed reproduces the request
                    let src_host = "example.com";
                    l.transitions += 1;
                    match catch(|| Request::preparsed(&r.url, &r.hostname, src_host, "script", r.is_third_party)) {
                        Err(loc) => total_mismatch(l, &format!("panic.preparsed@{}", loc), format!("Request::preparsed from the parts of Request::new({:?}) panicked at {}", s, loc), s),
                        Ok(p) => {
                            l.compared += 1;
                            if let Some(f) = field_diff(&r, &p) {
                                total_mismatch(l, &format!("preparsed.{}", f), format!("{:?}: preparsed differs from new on {}", s, f), s);
                            }
                        }
                    }
                }
            }
        }
    }
    // 3. as source URL
    l.transitions += 1;
    match catch(|| Request::new(FIXED_URL, s, "script")) {
        Err(loc) => {
            l.hist("total:PANIC");
            total_mismatch(l, &format!("panic.source@{}", loc), format!("Request::new(.., {:?}) panicked at {}", s, loc), s);
        }
        Ok(Err(_)) => {
            total_mismatch(l, "source-rejects-request", format!("a valid request URL is rejected because of source {:?}", s), s);
        }
        Ok(Ok(r)) => {
            l.states += 1;
            l.compared += 1;
            match &parts {
                None => {
                    l.hist("total:source-unparseable");
                    if !r.is_third_party || r.source_hostname_hashes.is_some() {
                        total_mismatch(l, "unparseable-source", format!("source {:?} has no host but third_party={} hashes={:?}", s, r.is_third_party, r.source_hostname_hashes), s);
                    }
                }
                Some((_, h, _, _)) => {
                    l.hist("total:source-ok");
                    let got: Option<BTreeSet<u64>> = r.source_hostname_hashes.as_ref().map(|v| v.iter().copied().collect());
                    if got != Some(ref_source_hashes(h)) {
                        total_mismatch(l, "source-hashes", format!("source {:?} host {:?}: hashes are not those of the label-aligned suffixes", s, h), s);
                    }
                }
            }
        }
    }
    // 4. a URL is first-party to itself
    if parts.is_some() {
        l.transitions += 1;
        match catch(|| Request::new(s, s, "script")) {
            Err(loc) => total_mismatch(l, &format!("panic.both@{}", loc), format!("Request::new({:?}, same) panicked at {}", s, loc), s),
            Ok(Err(_)) => total_mismatch(l, "new-vs-parse_url", format!("Request::new({:?}, same) rejected", s), s),
            Ok(Ok(r)) => {
                l.compared += 1;
                l.nontrivial += 1;
                if r.is_third_party {
                    total_mismatch(l, "self-third-party", format!("{:?} is reported third-party to itself", s), s);
                }
            }
        }
    }
}

// ------------------------------------------------------------------------------------------------
// (b) structured universe
// ------------------------------------------------------------------------------------------------

#[derive(Clone, Copy, PartialEq, Eq, Debug)]
enum HClass {
    /// ASCII and left alone by the url crate
    Canon,
    /// non-ASCII, accepted by idna
    Idn,
    /// the url crate would rewrite or reject it, or it contains control characters
    NonCanon,
}

#[derive(Clone, Debug)]
struct HostInfo {
    text: String,
    class: HClass,
    /// expected reported hostname (Canon: the text; Idn: punycode)
    ascii: Option<String>,
    /// reference site (eTLD+1, or the host itself when it has none)
    site: Option<String>,
    trailing_dot: bool,
}

/// eTLD+1 from the public-suffix data, independent of the crate's code path: IP literals are
/// their own site; otherwise the suffix comes from `parse_dns_name` (lenient syntax), and the
/// registrable domain is the suffix plus one label; a bare suffix is its own site.
fn ref_site(h: &str) -> Option<String> {
    if h.is_empty() {
        return None;
    }
    if h.starts_with('[') || h.parse::<std::net::Ipv4Addr>().is_ok() {
        return Some(h.to_string());
    }
    let (core, dot) = match h.strip_suffix('.') {
        Some(c) => (c, "."),
        None => (h, ""),
    };
    let name = List.parse_dns_name(core).ok()?;
    let suffix = name.suffix()?;
    let ns = suffix.split('.').count();
    let labels: Vec<&str> = core.split('.').collect();
    if labels.iter().any(|x| x.is_empty()) {
        return None;
    }
    if labels.len() <= ns {
        Some(h.to_string())
    } else {
        Some(format!("{}{}", labels[labels.len() - ns - 1..].join("."), dot))
    }
}

fn host_info(text: &str) -> HostInfo {
    let ctl = has_ctl(text);
    let (class, ascii) = if ctl {
        (HClass::NonCanon, None)
    } else if text.is_ascii() {
        let u = url::Url::parse(&format!("http://{}/", text)).ok();
        if u.as_ref().and_then(|u| u.host_str()) == Some(text) {
            (HClass::Canon, Some(text.to_string()))
        } else {
            (HClass::NonCanon, None)
        }
    } else {
        match idna::domain_to_ascii(text) {
            Ok(a) if !a.is_empty() => (HClass::Idn, Some(a)),
            _ => (HClass::NonCanon, None),
        }
    };
    let mut site = ascii.as_deref().and_then(ref_site);
    if class == HClass::Idn {
        // the list is authored in Unicode: the site computed on the Unicode form must be the same
        // name; if the data disagrees with itself the party verdict is not decided here
        let (uni, r) = idna::domain_to_unicode(ascii.as_deref().unwrap_or(""));
        let via_unicode = if r.is_ok() { ref_site(&uni).and_then(|s| idna::domain_to_ascii(&s).ok()) } else { None };
        if via_unicode != site {
            site = None;
        }
    }
    HostInfo { text: text.to_string(), class, ascii, site, trailing_dot: text.ends_with('.') }
}

const SCHEMES_Q: [&str; 8] = ["http", "https", "ws", "wss", "ftp", "data", "HTTP", "chrome-extension"];
const SCHEMES_T: [&str; 11] = ["http", "https", "ws", "wss", "ftp", "data", "HTTP", "Wss", "x", "chrome-extension", "h2+a.b"];
const SLASHES_Q: [&str; 4] = ["://", ":", ":/", ":/\\"];
const SLASHES_T: [&str; 7] = ["://", ":", ":/", ":///", ":////", ":/\\", ":\\\\"];
const USERINFO_Q: [&str; 5] = ["", "u@", "u:p@", "a.b@", "u@v@"];
const USERINFO_T: [&str; 10] = ["", "u@", "u:p@", "a.b@", "@", "u:@", ":p@", "é@", "u@v@", "u\t@"];
const PORTS_Q: [&str; 2] = ["", ":8080"];
const PORTS_T: [&str; 4] = ["", ":8080", ":", ":80"];
const PATHS_Q: [&str; 8] = ["", "/", "/path/a.js?x=1#frag", "?utm=1&b=2", "#f", "/a@b/c:d?u=http://c.com/@x", "\\@evil.org/x", "\\p@q.r"];
const PATHS_T: [&str; 11] = [
    "\\@evil.org/x",
    "\\p@q.r",
    "",
    "/",
    "/path/a.js?x=1#frag",
    "?utm=1&b=2",
    "#f",
    "/a@b/c:d?u=http://c.com/@x",
    "/p?utm=1&é=2#x?utm=3",
    "/%41/..//b?a=%42",
    "/A/B.JS?UTM=1",
];
const TYPES_Q: [&str; 4] = ["script", "image", "websocket", "document"];
const TYPES_T: [&str; 8] = ["script", "image", "websocket", "document", "sub_frame", "xhr", "", "bogus"];

const HOSTS: [&str; 51] = [
    // a private multi-label suffix under a generic TLD, and two customers below it
    "blogspot.com", "diary.blogspot.com", "tracker.blogspot.com",
    // single label, eTLD+1 under com / org, deep sub-domains
    "example.com",
    "www.example.com",
    "a.b.example.com",
    "other.com",
    "example.org",
    "localhost",
    "com",
    // multi-label public suffix
    "tracker.co.uk",
    "b.tracker.co.uk",
    "other.co.uk",
    "co.uk",
    // private suffix
    "user.github.io",
    "a.user.github.io",
    "other.github.io",
    "github.io",
    // wildcard and exception rules of the list (*.ck, !www.ck)
    "a.foo.ck",
    "b.foo.ck",
    "foo.ck",
    "www.ck",
    "a.www.ck",
    // unknown TLD (default rule)
    "example.unknowntld",
    "a.example.unknowntld",
    // label syntax that DNS allows and registries do not
    "a_b.example.com",
    "a-b.example.com",
    "_x.other.com",
    // trailing dot
    "example.com.",
    "www.example.com.",
    "other.com.",
    // IP literals
    "1.2.3.4",
    "9.9.3.4",
    "[::1]",
    "[2001:db8::1]",
    // punycode and IDN
    "xn--bcher-kva.de",
    "www.xn--bcher-kva.de",
    "bücher.de",
    "www.bücher.de",
    "BÜCHER.de",
    "食狮.公司.cn",
    "www.食狮.公司.cn",
    "other.公司.cn",
    "bücher.co.uk",
    // not canonical: executed, Unspecified
    "EXAMPLE.com",
    "Www.Example.Com",
    "exa\tmple.com",
    "exa%6dple.com",
    "0x7f.1",
    "1.2.3",
    "[0:0:0:0:0:0:0:1]",
];

#[derive(Clone, Debug)]
enum InitKind {
    Absent,
    /// no host by the url crate either
    Hostless,
    Host(HostInfo),
}

#[derive(Clone, Debug)]
struct Init {
    url: String,
    kind: InitKind,
    /// what the subject's own scanner reports for the source (input of `preparsed`)
    src_hostname: String,
}

const HOSTLESS_INITS: [&str; 7] = [
    "about:blank",
    "example.com",
    "//example.com/",
    "data:text/html,<p>x",
    "https://",
    "blob:https://example.com/0-1",
    "file:///home/u/x.html",
];

fn subject_hostname(url: &str) -> String {
    catch(|| parse_url(url).map(|p| p.hostname().to_string())).ok().flatten().unwrap_or_default()
}

fn make_init(url: String, host: Option<&str>) -> Init {
    let kind = if url.is_empty() {
        InitKind::Absent
    } else if let Some(h) = host {
        InitKind::Host(host_info(h))
    } else {
        InitKind::Hostless
    };
    let src_hostname = subject_hostname(&url);
    Init { url, kind, src_hostname }
}

fn build_inits(thorough: bool) -> Vec<Init> {
    let mut v = vec![make_init(String::new(), None)];
    for h in HOSTS {
        v.push(make_init(format!("https://{}/page.html", h), Some(h)));
    }
    for u in HOSTLESS_INITS {
        // machinery check: the reference agrees that there is no host
        let uc = url::Url::parse(u).ok();
        let hostless = uc.as_ref().and_then(|x| x.host_str()).map_or(true, |h| h.is_empty());
        assert!(hostless, "initiator {:?} is supposed to have no host", u);
        v.push(make_init(u.to_string(), None));
    }
    if thorough {
        for h in HOSTS {
            if host_info(h).class != HClass::NonCanon {
                v.push(make_init(format!("http://u:p@{}:8080/?x=http://other.com/", h), Some(h)));
            }
        }
    }
    v
}

struct Parts<'a> {
    scheme: &'a str,
    slashes: &'a str,
    userinfo: &'a str,
    host: &'a str,
    port: &'a str,
    path: &'a str,
}

impl<'a> Parts<'a> {
    fn url(&self) -> String {
        format!("{}{}{}{}{}{}", self.scheme, self.slashes, self.userinfo, self.host, self.port, self.path)
    }
    fn json(&self, init: &Init, ty: &str) -> Value {
        let (ik, ih) = match &init.kind {
            InitKind::Absent => ("absent", None),
            InitKind::Hostless => ("hostless", None),
            InitKind::Host(h) => ("host", Some(h.text.clone())),
        };
        json!({"kind": "struct", "scheme": self.scheme, "slashes": self.slashes, "userinfo": self.userinfo,
               "host": self.host, "port": self.port, "path": self.path, "url": self.url(),
               "init": init.url, "init_kind": ik, "init_host": ih, "type": ty})
    }
}

/// A label that DNS (and the URL standard) allows but domain registries do not: it starts or
/// ends with a non-alphanumeric ASCII character or contains one other than '-'.
fn has_unregistrable_label(ascii_host: &str) -> bool {
    ascii_host.trim_end_matches('.').split('.').any(|lab| {
        let b = lab.as_bytes();
        !b.is_empty()
            && (!(b[0].is_ascii_alphanumeric() || b[0] >= 0x80)
                || !(b[b.len() - 1].is_ascii_alphanumeric() || b[b.len() - 1] >= 0x80)
                || b.iter().any(|c| *c < 0x80 && !c.is_ascii_alphanumeric() && *c != b'-'))
    })
}

/// Classifier only: the party verdict under the model "a host with such a label has no
/// registrable domain and is its own site" (the structural cause of the known finding).
fn label_syntax_model_third(req: &HostInfo, src: &HostInfo) -> bool {
    let model = |h: &HostInfo| -> Option<String> {
        let a = h.ascii.as_deref()?;
        if a.starts_with('[') || a.parse::<std::net::Ipv4Addr>().is_ok() {
            return h.site.clone();
        }
        if has_unregistrable_label(a) {
            Some(a.to_string())
        } else {
            h.site.clone()
        }
    };
    let any = [req, src].iter().any(|h| h.ascii.as_deref().map_or(false, |a| !a.starts_with('[') && has_unregistrable_label(a)));
    any && model(req) != model(src)
}

fn host_feature(h: &HostInfo) -> &'static str {
    let t = &h.text;
    if t.starts_with('[') {
        "ipv6"
    } else if t.parse::<std::net::Ipv4Addr>().is_ok() {
        "ipv4"
    } else if !t.is_ascii() {
        "idn"
    } else if t.contains('_') {
        "underscore-label"
    } else if t.ends_with('.') {
        "trailing-dot"
    } else if t.contains("xn--") {
        "punycode"
    } else if !t.contains('.') {
        "single-label"
    } else {
        "plain"
    }
}

fn url_feature(p: &Parts) -> String {
    let mut f = vec![];
    if p.slashes != "://" {
        f.push("slashes");
    }
    if !p.userinfo.is_empty() {
        f.push("userinfo");
    }
    if !p.port.is_empty() {
        f.push("port");
    }
    if !p.path.starts_with('/') {
        f.push("no-path-slash");
    }
    if f.is_empty() {
        "plain".to_string()
    } else {
        f.join("+")
    }
}

fn smis(l: &mut Local, sig: String, what: String, p: &Parts, init: &Init, ty: &str) {
    let url = p.url();
    l.mismatch(Mismatch {
        sig,
        what,
        case: p.json(init, ty),
        size: (url.len() * 100 + init.url.len() + ty.len() + if p.slashes != "://" { 100_000 } else { 0 } + if !p.scheme.starts_with("http") { 10_000 } else { 0 }) as u64,
    });
}

/// Everything that depends on the request URL alone; evaluated once per URL.
struct UrlOracle {
    url: String,
    scheme: Option<String>,
    /// Must(Some(h)): must parse with hostname h; Must(None): must be rejected; Unspec
    host: Option<Option<String>>,
    authority_ctl: bool,
}

fn url_oracle(p: &Parts, hi: &HostInfo) -> UrlOracle {
    let url = p.url();
    let scheme = input_scheme(&url);
    let authority_ctl = has_ctl(p.userinfo) || has_ctl(p.host) || has_ctl(p.port);
    let uc = url::Url::parse(&url);
    let host = if authority_ctl || scheme.as_deref() == Some("file") || scheme.is_none() {
        None
    } else {
        match (&uc, hi.class) {
            (Err(_), _) => None,
            (_, HClass::NonCanon) => None,
            (Ok(u), HClass::Canon) => match u.host_str() {
                Some(h) if !h.is_empty() => Some(Some(h.to_string())),
                _ => Some(None),
            },
            (Ok(u), HClass::Idn) => match u.host_str() {
                // special schemes: the url crate applies IDNA itself; it must agree with idna.
                // other schemes: it keeps an opaque percent-encoded host; the property asks for
                // punycode
                Some(h) if !h.is_empty() => {
                    if h.is_ascii() && !h.contains('%') && Some(h) != hi.ascii.as_deref() {
                        None
                    } else {
                        Some(hi.ascii.clone())
                    }
                }
                _ => Some(None),
            },
        }
    };
    UrlOracle { url, scheme, host, authority_ctl }
}

fn party_oracle(req: &HostInfo, uo: &UrlOracle, init: &Init) -> Tri {
    match &init.kind {
        InitKind::Absent | InitKind::Hostless => Tri::Must(true),
        InitKind::Host(src) => {
            if uo.authority_ctl || req.class == HClass::NonCanon || src.class == HClass::NonCanon {
                return Tri::Unspec;
            }
            match (&req.site, &src.site) {
                (Some(a), Some(b)) => {
                    if a != b && req.trailing_dot != src.trailing_dot && a.trim_end_matches('.') == b.trim_end_matches('.') {
                        // same name, spelled with and without the root dot: not pinned
                        Tri::Unspec
                    } else {
                        Tri::Must(a != b)
                    }
                }
                _ => Tri::Unspec,
            }
        }
    }
}

fn struct_url(p: &Parts, hi: &HostInfo, inits: &[Init], types: &[&str], l: &mut Local) {
    let uo = url_oracle(p, hi);
    let mut first: Option<(String, String)> = None;
    let mut host_checked = false;
    for init in inits {
        for ty in types {
            struct_eval(p, hi, &uo, init, ty, &mut first, &mut host_checked, l);
        }
    }
}

#[allow(clippy::too_many_arguments)]
fn struct_eval(
    p: &Parts,
    hi: &HostInfo,
    uo: &UrlOracle,
    init: &Init,
    ty: &str,
    first: &mut Option<(String, String)>,
    host_checked: &mut bool,
    l: &mut Local,
) {
    let url = &uo.url;
    l.evaluations += 1;
    l.transitions += 1;
    let res = match catch(|| Request::new(url, &init.url, ty)) {
        Ok(r) => r,
        Err(loc) => {
            l.hist("struct:PANIC");
            smis(l, format!("c12.struct.panic.new@{}", loc), format!("Request::new({:?}, {:?}, {:?}) panicked at {}", url, init.url, ty, loc), p, init, ty);
            return;
        }
    };
    // ---- parse / host clause (depends on the URL only: compared once, then only stability)
    let r = match (res, &uo.host) {
        (Err(_), Some(Some(h))) => {
            if !*host_checked {
                *host_checked = true;
                l.compared += 1;
                l.hist("host:LOST");
                smis(l, format!("c12.host.rejected.{}.{}", host_feature(hi), url_feature(p)), format!("{:?}: rejected, the URL has host {:?}", url, h), p, init, ty);
            }
            return;
        }
        (Err(_), Some(None)) => {
            if !*host_checked {
                *host_checked = true;
                l.compared += 1;
                l.hist("host:none-rejected");
            }
            return;
        }
        (Err(_), None) => {
            if !*host_checked {
                *host_checked = true;
                l.unspecified += 1;
                l.hist("host:unspecified-rejected");
            }
            return;
        }
        (Ok(r), exp) => {
            if !*host_checked {
                *host_checked = true;
                match exp {
                    None => {
                        l.unspecified += 1;
                        l.hist(if uo.authority_ctl { "host:unspecified-control-char" } else { "host:unspecified-not-canonical" });
                    }
                    Some(None) => {
                        l.compared += 1;
                        l.hist("host:SPURIOUS");
                        smis(l, format!("c12.host.spurious.{}.{}", host_feature(hi), url_feature(p)), format!("{:?}: reported host {:?}, the URL has no host", url, r.hostname), p, init, ty);
                    }
                    Some(Some(h)) => {
                        l.compared += 1;
                        if &r.hostname != h {
                            l.hist("host:DIFFERS");
                            smis(l, format!("c12.host.differs.{}.{}", host_feature(hi), url_feature(p)), format!("{:?}: reported host {:?}, expected {:?}", url, r.hostname, h), p, init, ty);
                        } else {
                            l.hist(if hi.class == HClass::Idn { "host:equal-idn" } else { "host:equal" });
                            // ... and it is the host component of the normalised URL
                            l.compared += 1;
                            let back = url::Url::parse(&r.url).ok();
                            let back_host = back.as_ref().and_then(|u| u.host_str());
                            let opaque_idn = back_host.map_or(false, |b| b.contains('%'));
                            if back_host != Some(h.as_str()) && !opaque_idn {
                                smis(l, format!("c12.host.not-in-normalised-url.{}.{}", host_feature(hi), url_feature(p)), format!("{:?}: normalised URL {:?} has host {:?}, reported {:?}", url, r.url, back_host, r.hostname), p, init, ty);
                            }
                        }
                    }
                }
            }
            r
        }
    };
    l.states += 1;
    match first {
        None => *first = Some((r.url.clone(), r.hostname.clone())),
        Some((u0, h0)) => {
            l.compared += 1;
            if u0 != &r.url || h0 != &r.hostname {
                smis(l, "c12.host.depends-on-source-or-type".into(), format!("{:?}: url/hostname {:?}/{:?} with this source and type, {:?}/{:?} with another", url, r.url, r.hostname, u0, h0), p, init, ty);
            }
        }
    }

    // ---- scheme and type clauses
    if let Some(sc) = &uo.scheme {
        l.compared += 1;
        let sup = SUPPORTED.contains(&sc.as_str());
        let ws = sc == "ws" || sc == "wss";
        if r.is_supported != sup || r.is_http != (sc == "http") || r.is_https != (sc == "https") {
            smis(l, format!("c12.scheme.flags.{}", sc), format!("{:?}: supported={} http={} https={}", url, r.is_supported, r.is_http, r.is_https), p, init, ty);
        }
        let exp_ty = if ws { Some(RequestType::Websocket) } else { type_map(ty) };
        match exp_ty {
            Some(t) => {
                l.compared += 1;
                if r.request_type != t {
                    smis(l, format!("c12.type.{}", if ws { "websocket-not-forced" } else { "name-map" }), format!("{:?} type {:?}: reported {:?}, expected {:?}", url, ty, r.request_type, t), p, init, ty);
                }
            }
            None => l.unspecified += 1,
        }
    }

    // ---- party clause
    match party_oracle(hi, uo, init) {
        Tri::Unspec => {
            l.unspecified += 1;
            l.hist("party:unspecified");
        }
        Tri::Must(exp) => {
            l.compared += 1;
            let with_host = matches!(init.kind, InitKind::Host(_));
            if with_host {
                l.nontrivial += 1;
            }
            l.hist(match (exp, r.is_third_party, with_host) {
                (true, true, false) => "party:third(no-initiator-host)",
                (true, true, true) => "party:third",
                (false, false, _) => "party:first",
                (true, false, _) => "party:MISSED-third",
                (false, true, _) => "party:SPURIOUS-third",
            });
            if exp != r.is_third_party {
                let cause = match &init.kind {
                    InitKind::Host(src) if !exp && label_syntax_model_third(hi, src) => "label-syntax-fallback".to_string(),
                    InitKind::Host(src) => {
                        let (a, b) = (host_feature(hi), host_feature(src));
                        if a == "plain" {
                            b.to_string()
                        } else if b == "plain" || a == b {
                            a.to_string()
                        } else {
                            format!("{}+{}", a, b)
                        }
                    }
                    _ => "no-initiator-host".to_string(),
                };
                let src_site = match &init.kind {
                    InitKind::Host(s) => s.site.clone(),
                    _ => None,
                };
                smis(
                    l,
                    format!("c12.party.{}.{}", if exp { "missed-third" } else { "spurious-third" }, cause),
                    format!("{:?} from {:?}: third_party={}, sites {:?} vs {:?}", url, init.url, r.is_third_party, hi.site, src_site),
                    p,
                    init,
                    ty,
                );
            }
        }
    }

    // ---- source hashes
    {
        let got: Option<BTreeSet<u64>> = r.source_hostname_hashes.as_ref().map(|v| v.iter().copied().collect());
        match &init.kind {
            InitKind::Absent | InitKind::Hostless => {
                l.compared += 1;
                if got.is_some() {
                    smis(l, "c12.srchashes.present-without-host".into(), format!("source {:?}: hashes {:?}", init.url, got), p, init, ty);
                }
            }
            InitKind::Host(src) => match (&src.ascii, src.class) {
                (Some(a), HClass::Canon) | (Some(a), HClass::Idn) => {
                    l.compared += 1;
                    if got != Some(ref_source_hashes(a)) {
                        smis(l, format!("c12.srchashes.not-label-suffixes.{}", host_feature(src)), format!("source {:?}: hashes are not those of the label-aligned suffixes of {:?}", init.url, a), p, init, ty);
                    }
                }
                _ => l.unspecified += 1,
            },
        }
    }

    // ---- preparsed == new
    l.transitions += 1;
    let pre = match catch(|| Request::preparsed(&r.url, &r.hostname, &init.src_hostname, ty, r.is_third_party)) {
        Ok(x) => x,
        Err(loc) => {
            smis(l, format!("c12.struct.panic.preparsed@{}", loc), format!("Request::preparsed from the parts of Request::new({:?}, {:?}) panicked at {}", url, init.url, loc), p, init, ty);
            return;
        }
    };
    l.compared += 1;
    if let Some(f) = field_diff(&r, &pre) {
        smis(l, format!("c12.preparsed.field.{}", f), format!("{:?} from {:?} type {:?}: preparsed differs from new on {}", url, init.url, ty, f), p, init, ty);
    }
    l.transitions += 2;
    match (verdict(&r), verdict(&pre)) {
        (Ok(a), Ok(b)) => {
            l.compared += 1;
            l.hist(&format!("verdict:{}", a.short()));
            let same_spelling = &r.url == url;
            let mut a2 = a.clone();
            let mut b2 = b.clone();
            if uo.authority_ctl {
                // normalisation of such authorities is not pinned (and not idempotent): only
                // whether a rewrite happened is compared
                a2.rewritten = a.rewritten.as_ref().map(|_| String::new());
                b2.rewritten = b.rewritten.as_ref().map(|_| String::new());
            } else if !same_spelling {
                a2.rewritten = norm(&a.rewritten);
                b2.rewritten = norm(&b.rewritten);
            }
            if a2 != b2 {
                let field = if a.matched != b.matched || a.important != b.important || a.filter != b.filter || a.exception != b.exception {
                    "decision"
                } else if a.redirect != b.redirect {
                    "redirect"
                } else {
                    "rewritten-url"
                };
                smis(l, format!("c12.preparsed.verdict.{}", field), format!("{:?} from {:?} type {:?}: new -> {:?}, preparsed -> {:?}", url, init.url, ty, a, b), p, init, ty);
            }
        }
        (a, b) => {
            let loc = a.err().or(b.err()).unwrap_or_default();
            smis(l, format!("c12.struct.panic.check@{}", loc), format!("check_network_request panicked at {} for {:?}", loc, url), p, init, ty);
        }
    }

    // ---- normalisation is idempotent (where the authority is plain text)
    if !uo.authority_ctl && hi.class != HClass::NonCanon {
        l.transitions += 1;
        match catch(|| Request::new(&r.url, &init.url, ty)) {
            Ok(Ok(r2)) => {
                l.compared += 1;
                if let Some(f) = field_diff(&r, &r2) {
                    smis(l, format!("c12.idempotent.{}", f), format!("{:?}: Request::new of the normalised URL {:?} differs on {}", url, r.url, f), p, init, ty);
                }
            }
            Ok(Err(_)) => smis(l, "c12.idempotent.rejected".into(), format!("{:?}: the normalised URL {:?} is rejected", url, r.url), p, init, ty),
            Err(loc) => smis(l, format!("c12.struct.panic.renew@{}", loc), format!("Request::new({:?}) panicked at {}", r.url, loc), p, init, ty),
        }
    }
}

// ------------------------------------------------------------------------------------------------
// replay / check
// ------------------------------------------------------------------------------------------------

// ------------------------------------------------------------------------------------------------
// (c) characters around the URL: the URL standard strips C0 controls and space from both ends
// before parsing ("the normalised URL"), and nothing else
// ------------------------------------------------------------------------------------------------

const WRAP_STRIP: [&str; 13] = ["", "\0", "\u{1}", "\u{8}", "\t", "\n", "\u{b}", "\u{c}", "\r", "\u{e}", "\u{1b}", "\u{1f}", " "];
/// not stripped although some library notions of "whitespace" or "control" include them
const WRAP_KEEP: [&str; 5] = ["\u{7f}", "\u{85}", "\u{a0}", "\u{2028}", "\u{3000}"];
const WRAP_URLS: [&str; 6] = [
    "https://example.com/x",
    "wss://sub.example.co.uk",
    "http://a.b.example.com:8080/p?q=1#f",
    "https://b\u{fc}cher.de/",
    "ftp://example.com/",
    "https://u:p@example.org/a b",
];

fn wrap_mismatch(l: &mut Local, clause: &str, what: String, i: u64) {
    l.mismatch(Mismatch { sig: format!("c12.wrap.{}", clause), what, case: json!({"kind": "wrap", "i": i}), size: i });
}

fn wrap_case(i: u64, l: &mut Local) {
    let n = WRAP_STRIP.len() as u64;
    let (a, b, c, u) = ((i % n) as usize, (i / n % n) as usize, (i / n / n % n) as usize, (i / n / n / n) as usize % WRAP_URLS.len());
    let plain = WRAP_URLS[u];
    // two leading characters, one trailing
    let wrapped = format!("{}{}{}{}", WRAP_STRIP[a], WRAP_STRIP[b], plain, WRAP_STRIP[c]);
    l.evaluations += 1;
    for ty in ["script", "document"] {
        // as request URL
        l.transitions += 1;
        match (catch(|| Request::new(plain, FIXED_SRC, ty)), catch(|| Request::new(&wrapped, FIXED_SRC, ty))) {
            (Ok(Ok(r0)), Ok(Ok(r1))) => {
                l.compared += 1;
                l.nontrivial += 1;
                l.hist("wrap:url-ok");
                if let Some(f) = field_diff(&r0, &r1) {
                    wrap_mismatch(l, &format!("url.{}", f), format!("{:?} and {:?} differ only by stripped characters but the requests differ on {}", plain, wrapped, f), i);
                }
            }
            (Ok(Ok(_)), Ok(Err(_))) => wrap_mismatch(l, "url.rejected", format!("{:?} parses but {:?} is rejected", plain, wrapped), i),
            (Ok(Ok(_)), Err(loc)) => wrap_mismatch(l, &format!("panic@{}", loc), format!("Request::new({:?}) panicked", wrapped), i),
            _ => {
                eprintln!("machinery: wrap URL {:?} is not accepted", plain);
                l.hist("wrap:MACHINERY");
            }
        }
        // as source URL
        l.transitions += 1;
        match (catch(|| Request::new(FIXED_URL, plain, ty)), catch(|| Request::new(FIXED_URL, &wrapped, ty))) {
            (Ok(Ok(r0)), Ok(Ok(r1))) => {
                l.compared += 1;
                l.hist("wrap:source-ok");
                if let Some(f) = field_diff(&r0, &r1) {
                    wrap_mismatch(l, &format!("source.{}", f), format!("sources {:?} and {:?} differ only by stripped characters but the requests differ on {}", plain, wrapped, f), i);
                }
            }
            (_, Err(loc)) => wrap_mismatch(l, &format!("panic@{}", loc), format!("Request::new(.., {:?}) panicked", wrapped), i),
            _ => wrap_mismatch(l, "source.rejected", format!("source {:?}: request rejected", wrapped), i),
        }
    }
    // a leading character outside C0-or-space is not stripped: the string has no scheme
    if b == 0 && c == 0 && a < WRAP_KEEP.len() {
        let kept = format!("{}{}", WRAP_KEEP[a], plain);
        l.transitions += 2;
        l.compared += 2;
        match catch(|| Request::new(&kept, FIXED_SRC, "script")) {
            Ok(Err(_)) => l.hist("wrap:kept-char-rejected"),
            Ok(Ok(r)) => wrap_mismatch(l, "kept-char-stripped", format!("{:?} does not start with a scheme but is accepted as {:?}", kept, r.url), i),
            Err(loc) => wrap_mismatch(l, &format!("panic@{}", loc), format!("Request::new({:?}) panicked", kept), i),
        }
        match catch(|| Request::new(FIXED_URL, &kept, "script")) {
            Ok(Ok(r)) if r.is_third_party && r.source_hostname_hashes.is_none() => l.hist("wrap:kept-char-source-unparseable"),
            Ok(Ok(r)) => wrap_mismatch(l, "kept-char-stripped", format!("source {:?} has no scheme but third_party={} hashes={:?}", kept, r.is_third_party, r.source_hostname_hashes.is_some()), i),
            Ok(Err(_)) => wrap_mismatch(l, "source.rejected", format!("source {:?}: request rejected", kept), i),
            Err(loc) => wrap_mismatch(l, &format!("panic@{}", loc), format!("Request::new(.., {:?}) panicked", kept), i),
        }
    }
}

// ------------------------------------------------------------------------------------------------
// (d) no history: what a request reports does not depend on the requests built before it
// ------------------------------------------------------------------------------------------------

/// URLs that are prefixes / extensions / near misses of each other (host boundary, port, userinfo,
/// trailing dot, public-suffix edge, IDN), used both as request URL and as source URL.
const SEQ_URLS: [&str; 22] = [
    "https://example.com/",
    "https://example.com",
    "https://example.com/page?x=1",
    "https://example.com.evil.org/",
    "https://example.com./",
    "https://example.com:8080/",
    "https://example.com@other.net/",
    "https://example.co/",
    "https://example.co.uk/",
    "https://sub.example.com/",
    "https://sub.example.com.evil.org/x",
    "http://example.com/",
    "wss://example.com/",
    "https://b\u{fc}cher.de/",
    "https://b\u{fc}cher.de.evil.org/",
    "https://xn--bcher-kva.de/",
    "https://1.2.3.4/",
    "https://1.2.3.40/",
    "https://[::1]/",
    "https://[::1]:8080/",
    "",
    "about:blank",
];

fn seq_fields(r: &Request) -> String {
    format!("{:?}|{}|{}|{}|{}|{}|{}|{:?}|{:?}", r.request_type, r.is_http, r.is_https, r.is_supported, r.is_third_party, r.url, r.hostname, r.source_hostname_hashes, r.get_tokens())
}

/// expected[i][j]: the request (SEQ_URLS[i] as URL, SEQ_URLS[j] as source) built as the very first
/// request of a fresh thread.
fn seq_expected() -> Vec<Vec<Option<String>>> {
    let n = SEQ_URLS.len();
    (0..n)
        .map(|i| {
            (0..n)
                .map(|j| std::thread::spawn(move || catch(|| Request::new(SEQ_URLS[i], SEQ_URLS[j], "script").ok().map(|r| seq_fields(&r))).ok().flatten()).join().ok().flatten())
                .collect()
        })
        .collect()
}

/// Two requests one after the other on one (fresh) thread: the second must equal the request built
/// first on a fresh thread.
fn seq_case(idx: u64, exp: &[Vec<Option<String>>], l: &mut Local) {
    let n = SEQ_URLS.len() as u64;
    let (u1, s1, u2, s2) = ((idx % n) as usize, (idx / n % n) as usize, (idx / n / n % n) as usize, (idx / n / n / n) as usize);
    l.evaluations += 1;
    l.transitions += 2;
    let got = std::thread::spawn(move || {
        catch(|| {
            let _ = Request::new(SEQ_URLS[u1], SEQ_URLS[s1], "script");
            Request::new(SEQ_URLS[u2], SEQ_URLS[s2], "script").ok().map(|r| seq_fields(&r))
        })
    })
    .join()
    .unwrap_or(Err("thread".into()));
    l.compared += 1;
    match got {
        Ok(g) => {
            if g.is_some() {
                l.nontrivial += 1;
            }
            l.hist(if g.is_some() { "seq:second-ok" } else { "seq:second-rejected" });
            if g != exp[u2][s2] {
                l.mismatch(Mismatch {
                    sig: "c12.history.second-request-differs-from-a-first-request".into(),
                    what: format!("after Request::new({:?}, {:?}), Request::new({:?}, {:?}) reports {:?}; as the first request of a thread it reports {:?}", SEQ_URLS[u1], SEQ_URLS[s1], SEQ_URLS[u2], SEQ_URLS[s2], g, exp[u2][s2]),
                    case: json!({"kind": "seq", "i": idx}),
                    size: idx,
                });
            }
        }
        Err(loc) => l.mismatch(Mismatch { sig: format!("c12.history.panic@{}", loc), what: "panic".into(), case: json!({"kind": "seq", "i": idx}), size: idx }),
    }
}

fn replay(case: &Value, l: &mut Local) {
    let g = |k: &str| case.get(k).and_then(|v| v.as_str()).unwrap_or("").to_string();
    match case["kind"].as_str().unwrap_or("") {
        "total" => total_case(&g("s"), l),
        "wrap" => wrap_case(case["i"].as_u64().unwrap_or(0), l),
        "seq" => seq_case(case["i"].as_u64().unwrap_or(0), &seq_expected(), l),
        _ => {
            let (scheme, slashes, userinfo, host, port, path) = (g("scheme"), g("slashes"), g("userinfo"), g("host"), g("port"), g("path"));
            let p = Parts { scheme: &scheme, slashes: &slashes, userinfo: &userinfo, host: &host, port: &port, path: &path };
            let hi = host_info(&host);
            let init_url = g("init");
            let init = match case["init_kind"].as_str().unwrap_or("absent") {
                "host" => make_init(init_url, Some(&g("init_host"))),
                _ => make_init(init_url, None),
            };
            let ty = g("type");
            struct_url(&p, &hi, &[init], &[ty.as_str()], l);
        }
    }
}

fn check(ctx: &Ctx) -> i32 {
    let thorough = ctx.tier.pick(false, true);

    // machinery: the 10 rules of the fixed engine are all accepted
    for r in ENGINE_RULES {
        if adblock::lists::parse_filter(r, true, Default::default()).is_err() {
            eprintln!("machinery: engine rule {:?} is rejected", r);
            return 3;
        }
    }

    // observations on inputs whose normalisation the property does not pin (DESIGN §4 C12)
    for (u, src) in [("HTTP://EXAMPLE.COM/", "http://example.com/"), ("http://exa\tmple.com/", ""), ("http://exa%6dple.com/", "http://example.com/")] {
        if let Ok(Ok(r)) = catch(|| Request::new(u, src, "script")) {
            ctx.note(format!("observation (Unspecified, not compared): Request::new({:?}, {:?}) reports hostname {:?}, third_party={}", u, src, r.hostname, r.is_third_party));
        }
    }

    // ---- (a) totality
    let n_len: u32 = ctx.tier.pick(5, 6);
    ctx.bound("total_max_len", n_len);
    ctx.bound("total_alphabet", json!(SIGMA));
    ctx.bound("total_prefixes", json!(PREFIXES));
    let strings = count_strings_upto(SIGMA.len() as u64, n_len);
    let np = PREFIXES.len() as u64;
    ctx.par_range("totality", strings * np, 4096, |i, l| {
        let s = format!("{}{}", PREFIXES[(i % np) as usize], nth_string(i / np, &SIGMA));
        if i == (ctx.seed.wrapping_mul(7919) + 1_234_567) % (strings * np) {
            l.samples.push(json!({"kind": "total", "s": s}));
        }
        total_case(&s, l);
    });

    // ---- (b) structured universe
    let schemes: &[&str] = if thorough { &SCHEMES_T } else { &SCHEMES_Q };
    let slashes: &[&str] = if thorough { &SLASHES_T } else { &SLASHES_Q };
    let userinfos: &[&str] = if thorough { &USERINFO_T } else { &USERINFO_Q };
    let ports: &[&str] = if thorough { &PORTS_T } else { &PORTS_Q };
    let paths: &[&str] = if thorough { &PATHS_T } else { &PATHS_Q };
    let types: &[&str] = if thorough { &TYPES_T } else { &TYPES_Q };
    let hosts: Vec<HostInfo> = HOSTS.iter().map(|h| host_info(h)).collect();
    let inits = build_inits(thorough);
    ctx.bound("schemes", json!(schemes));
    ctx.bound("slashes", json!(slashes));
    ctx.bound("userinfo", json!(userinfos));
    ctx.bound("hosts", json!(&HOSTS[..]));
    ctx.bound("ports", json!(ports));
    ctx.bound("paths", json!(paths));
    ctx.bound("types", json!(types));
    ctx.bound("initiators", inits.len());
    ctx.bound("engine_rules", json!(ENGINE_RULES));
    ctx.bound(
        "host_classes",
        json!(hosts.iter().map(|h| json!({"host": h.text, "class": format!("{:?}", h.class), "expected_hostname": h.ascii, "reference_site": h.site})).collect::<Vec<_>>()),
    );
    // seahash collisions among the source-host suffixes would blur the set comparison
    {
        let mut all: Vec<String> = vec![];
        for h in &hosts {
            if let Some(a) = &h.ascii {
                let b = a.as_bytes();
                all.push(a.clone());
                for i in 0..b.len() {
                    if b[i] == b'.' && i + 1 < b.len() {
                        all.push(a[i + 1..].to_string());
                    }
                }
            }
        }
        vh::util::assert_no_hash_collisions(all.iter().map(|s| s.as_str()));
    }
    // vacuity of the reference itself: the host list must exercise every site shape
    for (h, site) in [("b.tracker.co.uk", "tracker.co.uk"), ("a.user.github.io", "user.github.io"), ("a.b.example.com", "example.com"), ("co.uk", "co.uk"), ("1.2.3.4", "1.2.3.4")] {
        let got = hosts.iter().find(|x| x.text == h).and_then(|x| x.site.clone());
        if got.as_deref() != Some(site) {
            eprintln!("machinery: reference site of {:?} is {:?}, expected {:?}", h, got, site);
            return 3;
        }
    }

    let dims = [paths.len(), ports.len(), userinfos.len(), slashes.len(), schemes.len(), hosts.len()];
    let n_urls: u64 = dims.iter().map(|d| *d as u64).product();
    ctx.bound("structured_urls", n_urls);
    ctx.bound("structured_cases", n_urls * inits.len() as u64 * types.len() as u64);
    ctx.par_range("structured", n_urls, 8, |i, l| {
        let mut k = i as usize;
        let mut d = [0usize; 6];
        for (j, n) in dims.iter().enumerate() {
            d[j] = k % n;
            k /= n;
        }
        let hi = &hosts[d[5]];
        let p = Parts { scheme: schemes[d[4]], slashes: slashes[d[3]], userinfo: userinfos[d[2]], host: &hi.text, port: ports[d[1]], path: paths[d[0]] };
        // A backslash ends the authority only for the special schemes; after any other scheme the
        // text up to the '@' would be userinfo and the host a different one: such URLs are not
        // described by `Parts` and are left to the totality sweep.
        if p.path.starts_with('\\') && !["http", "https", "ws", "wss", "ftp"].contains(&p.scheme.to_ascii_lowercase().as_str()) {
            return;
        }
        if i == (ctx.seed + 3) % n_urls || i == (ctx.seed.wrapping_mul(31) + n_urls / 2) % n_urls {
            l.samples.push(p.json(&inits[(i as usize + 1) % inits.len()], types[i as usize % types.len()]));
        }
        struct_url(&p, hi, &inits, types, l);
    });

    let nw = (WRAP_STRIP.len() as u64).pow(3) * WRAP_URLS.len() as u64;
    ctx.bound("wrap_characters_stripped", json!(WRAP_STRIP));
    ctx.bound("wrap_characters_kept", json!(WRAP_KEEP));
    ctx.bound("wrap_urls", json!(WRAP_URLS));
    ctx.par_range("wrapped", nw, 64, |i, l| wrap_case(i, l));

    // thorough: every (url1, source1, url2, source2); quick: url1 fixed to the first entry
    let exp = seq_expected();
    let ns = SEQ_URLS.len() as u64;
    ctx.bound("sequence_urls", json!(SEQ_URLS));
    let total_seq = if thorough { ns * ns * ns * ns } else { ns * ns * ns };
    ctx.par_range("sequences", total_seq, 64, |i, l| {
        // quick: index digits are (source1, url2, source2) with url1 = 0
        let idx = if thorough { i } else { (i % ns) * ns + (i / ns % ns) * ns * ns + (i / ns / ns) * ns * ns * ns };
        seq_case(idx, &exp, l)
    });

    ctx.finish(
        "model_checking",
        "(a) every string of length <= n over 18 symbols behind 6 prefixes through parse_url and Request::new as url / source / both: no panic, internal consistency; (b) scheme x slashes x userinfo x 48 hosts x port x path, each against every initiator (every host of the list, absent, 7 host-less spellings) and every type: hostname vs url crate / idna, party vs eTLD+1 from the public-suffix data, scheme flags, websocket type, source hashes, preparsed == new on fields and on a 10-rule engine, idempotence; (c) 6 URLs wrapped in every (two leading, one trailing) combination of 12 C0-control-or-space characters, as request URL and as source URL x 2 types: every public field equals that of the unwrapped URL, and 5 leading characters outside that class (DEL, NEL, NBSP, LS, ideographic space) are not stripped; (d) every pair of consecutive requests over 22 URLs that are prefixes / extensions / near misses of each other (as URL and as source): the second request equals the one a fresh thread builds first. Non-trivial = party verdict compared with an initiator that has a host (structured), or a parseable string checked first-party to itself (totality). states = requests built, transitions = constructor calls + engine queries, traces_validated = oracle comparisons",
        &[
            "the url crate (WHATWG) is the oracle for host extraction where it leaves the host text alone; idna::domain_to_ascii for non-ASCII hosts",
            "public-suffix data of the psl crate is shared with the subject; the eTLD+1 computation on top of it is independent (parse_dns_name + label arithmetic)",
            "a host without registrable domain (IP literal, bare public suffix) is its own site",
            "Unspecified: upper-case ASCII hosts, hosts the url crate rewrites or rejects, control characters in the authority, file: URLs, a pair of hosts that differ only by the root dot, type names outside the documented list",
            "rewritten URLs of the two constructions are compared after normalisation when the input spelling differs from the normalised URL (new rewrites the URL as given, preparsed the one it was given)",
        ],
    )
}

fn main() {
    run_main("C12", check, replay)
}
