//! C20 — content-blocking export is total and emits only well-formed, ordered rules.
//!
//! Subject: `FilterSet::new(true)` + `add_filters` + `into_content_blocking()` (feature
//! `content-blocking`). BX, three sweeps (DESIGN §4 C20):
//!   patterns       every pattern body of length <= n over {a,b,.,/,*,^} x 6 anchor modes x 4 option
//!                  frames, converted as a singleton list;
//!   neighbourhood  every single-character deletion, and every insertion / substitution of a
//!                  structural symbol at every character position, of every rule of the rule
//!                  alphabet, converted as a singleton list (thorough: also every pair of such
//!                  edits over a reduced symbol set);
//!   lists          every ordered list without repetition of <= k alphabet rules.
//!
//! Oracle (written from the property text, nothing copied from /repo):
//!   totality    no panic;
//!   ascii       every string of every emitted rule is ASCII;
//!   urlfilter   `url-filter` is accepted by `safari_subset` below (Safari's documented regex subset);
//!   domains     never both `if-domain` and `unless-domain`;
//!   order       every `ignore-previous-rules` entry comes after every other entry;
//!   used        the reported `filters_used`, as a multiset, is exactly the input rules whose
//!               singleton conversion yields >= 1 rule (differential list vs. singletons);
//!   inclusion   for plain patterns (no `*`, no `^` except one trailing, not a full regex): every
//!               URL of the URL universe that the real matcher accepts for the rule, options aside,
//!               is accepted by the emitted `url-filter` compiled with the `regex` crate.

use adblock::content_blocking::{CbRule, CbType};
use adblock::filters::network::{NetworkFilter, NetworkFilterMask, NetworkMatchable};
use adblock::lists::{FilterSet, ParseOptions};
use adblock::regex_manager::RegexManager;
use adblock::request::Request;
use serde_json::{json, Value};
use std::cell::RefCell;
use std::collections::HashMap;
use std::rc::Rc;
use vh::util::{catch, count_arrangements_upto, count_strings_upto, nth_arrangement, nth_string};
use vh::{run_main, Ctx, Local, Mismatch};

// ------------------------------------------------------------------------------------------------
// Reference 1: recogniser for the regex subset Safari documents for `url-filter`
//   . | [..] classes and ranges incl. negation | ? + * | ( ) groups | ^ only first | $ only last |
//   backslash escapes of non-alphanumeric characters; no `|`, no `{}`, no `\d`-style classes, no
//   quantifier without an atom, no stacked quantifiers; the empty string is not a pattern.
// ------------------------------------------------------------------------------------------------

struct P<'a> {
    b: &'a [u8],
    i: usize,
}

impl<'a> P<'a> {
    fn peek(&self) -> Option<u8> {
        self.b.get(self.i).copied()
    }
    fn quant(&mut self) -> Result<(), &'static str> {
        if matches!(self.peek(), Some(b'?') | Some(b'+') | Some(b'*')) {
            self.i += 1;
            if matches!(self.peek(), Some(b'?') | Some(b'+') | Some(b'*')) {
                return Err("stacked-quantifier");
            }
        }
        Ok(())
    }
    fn escape(&mut self) -> Result<(), &'static str> {
        // at '\'
        self.i += 1;
        match self.peek() {
            None => Err("dangling-backslash"),
            Some(c) if c.is_ascii_alphanumeric() => Err("alphanumeric-escape"),
            Some(_) => {
                self.i += 1;
                Ok(())
            }
        }
    }
    fn class(&mut self) -> Result<(), &'static str> {
        // at '['
        self.i += 1;
        if self.peek() == Some(b'^') {
            self.i += 1;
        }
        let mut items = 0;
        loop {
            match self.peek() {
                None => return Err("unclosed-class"),
                Some(b']') => {
                    self.i += 1;
                    return if items == 0 { Err("empty-class") } else { Ok(()) };
                }
                Some(b'\\') => self.escape()?,
                Some(_) => self.i += 1,
            }
            items += 1;
        }
    }
    fn seq(&mut self, depth: usize) -> Result<(), &'static str> {
        loop {
            match self.peek() {
                None => return if depth > 0 { Err("unclosed-group") } else { Ok(()) },
                Some(b')') => return if depth > 0 { Ok(()) } else { Err("unbalanced-paren") },
                Some(b'$') => {
                    if depth == 0 && self.i + 1 == self.b.len() {
                        self.i += 1;
                        return Ok(());
                    }
                    return Err("dollar-not-last");
                }
                Some(b'^') => return Err("caret-not-first"),
                Some(b'|') => return Err("alternation"),
                Some(b'{') | Some(b'}') => return Err("brace"),
                Some(b'?') | Some(b'+') | Some(b'*') => return Err("quantifier-without-atom"),
                Some(b']') => return Err("unbalanced-bracket"),
                Some(b'(') => {
                    self.i += 1;
                    self.seq(depth + 1)?;
                    // seq returned at ')'
                    self.i += 1;
                    self.quant()?;
                }
                Some(b'[') => {
                    self.class()?;
                    self.quant()?;
                }
                Some(b'\\') => {
                    self.escape()?;
                    self.quant()?;
                }
                Some(_) => {
                    self.i += 1;
                    self.quant()?;
                }
            }
        }
    }
}

fn safari_subset(s: &str) -> Result<(), &'static str> {
    if s.is_empty() {
        return Err("empty");
    }
    if !s.is_ascii() {
        return Err("non-ascii");
    }
    let mut p = P { b: s.as_bytes(), i: 0 };
    if p.peek() == Some(b'^') {
        p.i += 1;
    }
    p.seq(0)?;
    if p.i != p.b.len() {
        return Err("trailing-garbage");
    }
    Ok(())
}

fn recogniser_self_test() {
    let good = [
        ".*", "^https?://", "^[^:]+:(//)?([^/]+\\.)?ads\\.net", "a\\$b", "ads$", "^wss?://.*x", "[a-z0-9]+x?", "a\\|b", "^$", "(a(b)?)*c",
    ];
    let bad = [
        "", "a|b", "a{2}", "\\d+", "a^b", "a$b", "(a", "a)", "[a", "a**", "?a", "a\\", "\\w", "(?:a)", "a+?", "caf\u{e9}", "[]", "a]",
    ];
    for g in good {
        if let Err(e) = safari_subset(g) {
            eprintln!("machinery: recogniser rejects {:?}: {}", g, e);
            std::process::exit(3);
        }
    }
    for b in bad {
        if safari_subset(b).is_ok() {
            eprintln!("machinery: recogniser accepts {:?}", b);
            std::process::exit(3);
        }
    }
}

// ------------------------------------------------------------------------------------------------
// Rule text helpers (reference side; plain ABP syntax: options follow the last '$')
// ------------------------------------------------------------------------------------------------

#[derive(Clone, Copy, PartialEq, Eq, Debug)]
enum LeftMode {
    None,
    Pipe,
    Host,
}

struct Shape<'a> {
    left: LeftMode,
    right: bool,
    body: &'a str,
    options: Option<&'a str>,
}

fn looks_cosmetic(rule: &str) -> bool {
    // `##`, `#@#`, `#?#`, `#@?#` ... : a second '#' within four characters of the first
    if let Some(i) = rule.find('#') {
        let rest = &rule.as_bytes()[i + 1..];
        return rest.iter().take(4).any(|&c| c == b'#');
    }
    false
}

fn shape(rule: &str) -> Shape<'_> {
    let mut s = rule;
    if let Some(r) = s.strip_prefix("@@") {
        s = r;
    }
    let mut options = None;
    if let Some(i) = s.rfind('$') {
        options = Some(&s[i + 1..]);
        s = &s[..i];
    }
    let left = if let Some(r) = s.strip_prefix("||") {
        s = r;
        LeftMode::Host
    } else if let Some(r) = s.strip_prefix('|') {
        s = r;
        LeftMode::Pipe
    } else {
        LeftMode::None
    };
    let right = if !s.is_empty() && s.ends_with('|') {
        s = &s[..s.len() - 1];
        true
    } else {
        false
    };
    Shape { left, right, body: s, options }
}

/// "Plain pattern" of the property: a network rule whose pattern has no `*`, no `^` other than one
/// trailing `^`, no backslash (the matcher hands backslashes to its regex compiler unescaped, so
/// such patterns are not literal text), is ASCII and is not a full regex.
fn is_plain(rule: &str) -> bool {
    if looks_cosmetic(rule) || rule.starts_with('!') || rule.starts_with('[') {
        return false;
    }
    let sh = shape(rule);
    let b = sh.body;
    if b.is_empty() || !b.is_ascii() || b.contains('*') || b.contains('\\') {
        return false;
    }
    if b.len() > 1 && b.starts_with('/') && b.ends_with('/') {
        return false;
    }
    let inner = b.strip_suffix('^').unwrap_or(b);
    !inner.contains('^')
}

/// `||` rules whose host text is empty or starts with '.', also after the leading `www.` labels
/// that hostname rules ignore: which hosts such a rule covers is not pinned (DESIGN C02), so the
/// inclusion clause is Unspecified for them.
fn unpinned_host_text(rule: &str) -> bool {
    let sh = shape(rule);
    if sh.left != LeftMode::Host {
        return false;
    }
    let h = sh.body.split('/').next().unwrap_or("");
    let h = h.strip_suffix('^').unwrap_or(h);
    let mut t = h;
    loop {
        if t.is_empty() || t.starts_with('.') {
            return true;
        }
        match t.strip_prefix("www.") {
            Some(r) => t = r,
            None => return false,
        }
    }
}

fn pure_scheme_pattern(rule: &str) -> bool {
    let sh = shape(rule);
    sh.left == LeftMode::Pipe && matches!(sh.body, "http://" | "https://" | "ws://" | "wss://")
}

// ------------------------------------------------------------------------------------------------
// URL universe
// ------------------------------------------------------------------------------------------------

struct Env {
    urls: Vec<String>,
    reqs: Vec<Request>,
    /// index of the same URL without its userinfo part, if it has one
    no_userinfo: Vec<Option<usize>>,
    ws: Vec<bool>,
    words: usize,
    inv_idn: String,
}

const HOSTS: [&str; 9] = ["a.b", "x.a.b", "b.a", "ab.a", "ads.net", "a.ads.net", "x.com", "xn--caf-dma.fr", "1.2.3.4"];
const PATHS: [&str; 24] = [
    "", "ads", "ads/", "ads.js", "a", "b", "ab", "a/b", "a.b", "a$b", "ads?x=1", "x/ads", "loads", "ADS/Foo", "a+b", "a(b)", "a[b]",
    "a{b}", "a|b", "a\\b", "ads^", "b/a.b/", ".a", "a$domain=b",
];

fn build_env() -> Env {
    let mut urls: Vec<String> = vec![];
    let mut base_of: Vec<Option<String>> = vec![];
    for scheme in ["http", "https", "ws", "wss"] {
        for host in HOSTS {
            for p in PATHS {
                urls.push(format!("{}://{}/{}", scheme, host, p));
                base_of.push(None);
            }
        }
    }
    for scheme in ["http", "https"] {
        for host in ["a.b", "ads.net", "x.a.b"] {
            for p in ["", "ads", "a/b"] {
                for ui in ["u@", "a.b@", "u:p@"] {
                    urls.push(format!("{}://{}{}/{}", scheme, ui, host, p));
                    base_of.push(Some(format!("{}://{}/{}", scheme, host, p)));
                }
                urls.push(format!("{}://{}:8080/{}", scheme, host, p));
                base_of.push(None);
            }
        }
    }
    let mut keep_urls = vec![];
    let mut keep_base = vec![];
    let mut reqs = vec![];
    for (u, b) in urls.into_iter().zip(base_of) {
        let r = match Request::new(&u, "", "script") {
            Ok(r) => r,
            Err(_) => continue,
        };
        // machinery condition, not a property check: the URL text is what the matcher sees
        if r.url != u {
            continue;
        }
        keep_urls.push(u);
        keep_base.push(b);
        reqs.push(r);
    }
    let idx: HashMap<&str, usize> = keep_urls.iter().enumerate().map(|(i, u)| (u.as_str(), i)).collect();
    let no_userinfo: Vec<Option<usize>> = keep_base.iter().map(|b| b.as_ref().and_then(|b| idx.get(b.as_str()).copied())).collect();
    let ws = keep_urls.iter().map(|u| u.starts_with("ws")).collect();
    let words = (keep_urls.len() + 63) / 64;

    // a non-ASCII domain text that cannot be IDNA-encoded (chosen by asking the idna crate)
    let candidates = ["\u{644}a.com", "a\u{200d}.com", "xn--\u{e9}.com", "\u{301}a.com", "\u{e9}..\u{fffd}.com"];
    let inv_idn = match candidates.iter().find(|c| idna::domain_to_ascii(c).is_err()) {
        Some(c) => c.to_string(),
        None => {
            eprintln!("machinery: no invalid-IDN candidate is rejected by the idna crate");
            std::process::exit(3);
        }
    };
    Env { urls: keep_urls, reqs, no_userinfo, ws, words, inv_idn }
}

fn bit(v: &[u64], i: usize) -> bool {
    v[i / 64] >> (i % 64) & 1 == 1
}

/// URLs the real matcher accepts for the rule, options aside: the rule is parsed by the real
/// parser; type / party / domain / badfilter constraints are neutralised through the public fields
/// of `NetworkFilter`; pattern, anchors, hostname and scheme bits are left as parsed.
fn real_accepts(rule: &str, env: &Env) -> Option<Vec<u64>> {
    let mut f = match catch(|| NetworkFilter::parse(rule, true, Default::default())) {
        Ok(Ok(f)) => Box::new(f),
        _ => return None,
    };
    f.mask |= NetworkFilterMask::FROM_ALL_TYPES | NetworkFilterMask::FIRST_PARTY | NetworkFilterMask::THIRD_PARTY;
    f.mask.remove(NetworkFilterMask::BAD_FILTER);
    f.opt_domains = None;
    f.opt_not_domains = None;
    f.opt_domains_union = None;
    f.opt_not_domains_union = None;
    let mut rm = RegexManager::default();
    let mut bits = vec![0u64; env.words];
    for (i, r) in env.reqs.iter().enumerate() {
        if catch(|| f.matches(r, &mut rm)).unwrap_or(false) {
            bits[i / 64] |= 1 << (i % 64);
        }
    }
    Some(bits)
}

struct Compiled {
    /// None: the regex crate rejects the text
    bits: Option<Vec<u64>>,
}

thread_local! {
    static RX: RefCell<HashMap<(String, bool), Rc<Compiled>>> = RefCell::new(HashMap::new());
}

fn compiled(url_filter: &str, case_sensitive: bool, env: &Env) -> Rc<Compiled> {
    RX.with(|c| {
        let mut c = c.borrow_mut();
        if let Some(x) = c.get(&(url_filter.to_string(), case_sensitive)) {
            return x.clone();
        }
        if c.len() > 200_000 {
            c.clear();
        }
        let bits = regex::RegexBuilder::new(url_filter).case_insensitive(!case_sensitive).build().ok().map(|re| {
            let mut bits = vec![0u64; env.words];
            for (i, u) in env.urls.iter().enumerate() {
                if re.is_match(u) {
                    bits[i / 64] |= 1 << (i % 64);
                }
            }
            bits
        });
        let x = Rc::new(Compiled { bits });
        c.insert((url_filter.to_string(), case_sensitive), x.clone());
        x
    })
}

// ------------------------------------------------------------------------------------------------
// Subject
// ------------------------------------------------------------------------------------------------

enum Conv {
    ParsePanic(String),
    Panic(String),
    Refused,
    Done(Vec<CbRule>, Vec<String>),
}

fn convert(rules: &[&str]) -> Conv {
    let fs = match catch(|| {
        let mut fs = FilterSet::new(true);
        fs.add_filters(rules, ParseOptions::default());
        fs
    }) {
        Ok(fs) => fs,
        Err(loc) => return Conv::ParsePanic(loc),
    };
    match catch(move || fs.into_content_blocking()) {
        Err(loc) => Conv::Panic(loc),
        Ok(Err(())) => Conv::Refused,
        Ok(Ok((r, u))) => Conv::Done(r, u),
    }
}

/// What is known about one rule from converting it alone.
struct Single {
    /// None: the singleton conversion panicked
    yields: Option<bool>,
    panic_sig: Option<String>,
    /// Some for plain patterns the real parser accepts: URLs accepted by the real matcher, minus
    /// the URLs on which the clause is Unspecified
    accepted: Option<Vec<u64>>,
    /// number of (rule, URL) pairs left Unspecified
    unspec: u64,
    /// signature of the inclusion failure of the singleton conversion, if any
    incl_sig: Option<String>,
}

fn option_values<'a>(opts: &'a str, names: &[&str]) -> Vec<&'a str> {
    let mut out = vec![];
    for o in opts.split(',') {
        let o = o.trim_start_matches('~');
        if let Some((k, v)) = o.split_once('=') {
            if names.contains(&k) {
                out.extend(v.split('|').map(|d| d.strip_prefix('~').unwrap_or(d)));
            }
        }
    }
    out
}

fn not_encodable(d: &str) -> bool {
    !d.is_ascii() && idna::domain_to_ascii(&d.to_lowercase()).is_err()
}

/// Classifier for a panic of the export on a single rule: names the structural cause where it can
/// be computed from public data, otherwise falls back to the panic location.
fn classify_panic(rule: &str, loc: &str) -> String {
    let rule = rule.trim();
    if !looks_cosmetic(rule) {
        if let Ok(Ok(f)) = catch(|| NetworkFilter::parse(rule, true, Default::default())) {
            if !f.mask.intersects(NetworkFilterMask::FROM_HTTP | NetworkFilterMask::FROM_HTTPS | NetworkFilterMask::FROM_WEBSOCKET) {
                return "c20.panic.no-scheme-bit-left".into();
            }
            if f.opt_domains.is_some() || f.opt_not_domains.is_some() {
                let sh = shape(rule);
                if let Some(o) = sh.options {
                    if option_values(o, &["domain", "from"]).iter().any(|d| not_encodable(d)) {
                        return "c20.panic.domain-option-value-not-idna-encodable".into();
                    }
                }
                // the text after the FIRST '$' (which is part of the pattern) holds a `domain=`
                if rule.matches('$').count() >= 2 {
                    let after_first = &rule[rule.find('$').unwrap() + 1..];
                    if let Some(k) = after_first.find("domain=") {
                        let v = &after_first[k + 7..];
                        let v = v.split(',').next().unwrap_or("");
                        if v.split('|').any(|d| not_encodable(d.strip_prefix('~').unwrap_or(d))) {
                            return "c20.panic.domain-reparsed-from-first-dollar".into();
                        }
                    }
                }
            }
        }
    }
    format!("c20.panic.other@{}", loc)
}

fn single_info(rule: &str, env: &Env) -> Single {
    let mut out = vec![];
    let (yields, panic_sig) = match convert(&[rule]) {
        Conv::ParsePanic(loc) => (None, Some(format!("c20.parse-panic@{}", loc))),
        Conv::Panic(loc) => (None, Some(classify_panic(rule, &loc))),
        Conv::Refused => (Some(false), None),
        Conv::Done(r, _) => {
            out = r;
            (Some(!out.is_empty()), None)
        }
    };
    let t = rule.trim();
    let mut unspec = 0;
    let mut accepted = if is_plain(t) { real_accepts(t, env) } else { None };
    if let Some(acc) = accepted.as_mut() {
        let all = unpinned_host_text(t);
        let ws_only = pure_scheme_pattern(t);
        // Unspecified: the hosts covered by `||` rules with an empty / dot-leading host text, and
        // the websocket URLs covered by a pure `|http://`-style scheme rule
        for i in 0..env.urls.len() {
            if bit(acc, i) && (all || (ws_only && env.ws[i])) {
                acc[i / 64] &= !(1 << (i % 64));
                unspec += 1;
            }
        }
    }
    let incl_sig = match (&accepted, yields) {
        (Some(acc), Some(true)) => inclusion(t, acc, &out, true, env, &mut 0).map(|f| f.sig),
        _ => None,
    };
    Single { yields, panic_sig, accepted, unspec, incl_sig }
}

// ------------------------------------------------------------------------------------------------
// The oracle on one conversion
// ------------------------------------------------------------------------------------------------

fn type_name(t: &CbType) -> &'static str {
    match t {
        CbType::Block => "block",
        CbType::BlockCookies => "block-cookies",
        CbType::CssDisplayNone => "css-display-none",
        CbType::IgnorePreviousRules => "ignore-previous-rules",
        CbType::MakeHttps => "make-https",
    }
}

/// The trailing first-party-document exception that the export appends (recognised by shape).
fn is_fp_document_exception(r: &CbRule) -> bool {
    r.action.typ == CbType::IgnorePreviousRules
        && r.trigger.url_filter == ".*"
        && r.trigger.if_domain.is_none()
        && r.trigger.unless_domain.is_none()
        && r.trigger.load_type.len() == 1
        && r.trigger.resource_type.as_ref().map(|s| s.len() == 1).unwrap_or(false)
}

fn inclusion_sig(rule: &str, url_idx: usize, filter_bits: &[u64], env: &Env) -> String {
    if let Some(b) = env.no_userinfo[url_idx] {
        if bit(filter_bits, b) {
            return "c20.inclusion.userinfo-before-host".into();
        }
    }
    let sh = shape(rule.trim());
    let mode = match (sh.left, sh.right) {
        (LeftMode::None, false) => "unanchored",
        (LeftMode::None, true) => "right",
        (LeftMode::Pipe, false) => "left",
        (LeftMode::Pipe, true) => "left-right",
        (LeftMode::Host, false) => "host",
        (LeftMode::Host, true) => "host-right",
    };
    let b = sh.body;
    if b.ends_with('^') && sh.right {
        return "c20.inclusion.trailing-caret-before-right-anchor".into();
    }
    let feature = if sh.left == LeftMode::Host && b.starts_with('.') {
        "host-text-leading-dot"
    } else if sh.left == LeftMode::Host && b.starts_with('/') {
        "empty-host-text"
    } else if sh.left == LeftMode::Host && b.starts_with("www.") {
        "www-prefix"
    } else if b.ends_with('^') {
        "trailing-caret"
    } else if b.bytes().any(|c| b".+?${}()|[]\\".contains(&c)) {
        "metachar"
    } else {
        "other"
    };
    format!("c20.inclusion.{}.{}", mode, feature)
}

fn case_of(rules: &[&str]) -> Value {
    json!({ "rules": rules })
}

/// Simplest witness first: fewer rules, then shorter text; ties broken by a hash of the text so that
/// the witness kept per signature does not depend on the thread schedule.
fn size_of(rules: &[&str]) -> u64 {
    let base = rules.len() as u64 * 10_000 + rules.iter().map(|r| r.len() as u64).sum::<u64>();
    (base << 16) | (vh::util::hash_str(&rules.join("\n")) & 0xffff)
}

struct InclFail {
    sig: String,
    what: String,
    url: Option<usize>,
}

/// Inclusion clause for one plain rule: the URLs in `acc` must be accepted by the url-filter of
/// every (singleton conversion) / at least one (list) network entry of `out`, the appended
/// first-party-document exception aside.
fn inclusion(rule: &str, acc: &[u64], out: &[CbRule], require_all: bool, env: &Env, evals: &mut u64) -> Option<InclFail> {
    let n = out.len();
    let cands: Vec<&CbRule> = out
        .iter()
        .enumerate()
        .filter(|(i, r)| r.action.typ != CbType::CssDisplayNone && !(*i + 1 == n && is_fp_document_exception(r)))
        .map(|(_, r)| r)
        .collect();
    if cands.is_empty() {
        return Some(InclFail {
            sig: "c20.inclusion.no-network-entry-for-converted-rule".into(),
            what: format!("rule {:?} converts on its own but no network entry was emitted", rule),
            url: None,
        });
    }
    let mut best: Option<(usize, usize, String, Rc<Compiled>)> = None; // (missed, first missed, filter, bits)
    let mut rejected: Option<String> = None;
    let mut all_ok = true;
    let mut any_ok = false;
    for c in &cands {
        let cs = c.trigger.url_filter_is_case_sensitive == Some(true);
        let comp = compiled(&c.trigger.url_filter, cs, env);
        *evals += env.urls.len() as u64;
        match &comp.bits {
            None => {
                all_ok = false;
                rejected = Some(c.trigger.url_filter.clone());
            }
            Some(fb) => {
                let mut missed = 0;
                let mut first = usize::MAX;
                for w in 0..env.words {
                    let m = acc[w] & !fb[w];
                    if m != 0 {
                        if first == usize::MAX {
                            first = w * 64 + m.trailing_zeros() as usize;
                        }
                        missed += m.count_ones() as usize;
                    }
                }
                if missed == 0 {
                    any_ok = true;
                } else {
                    all_ok = false;
                    if best.as_ref().map(|b| missed < b.0).unwrap_or(true) {
                        best = Some((missed, first, c.trigger.url_filter.clone(), comp.clone()));
                    }
                }
            }
        }
    }
    if if require_all { all_ok } else { any_ok } {
        return None;
    }
    match best {
        Some((missed, first, filter, comp)) => Some(InclFail {
            sig: inclusion_sig(rule, first, comp.bits.as_ref().unwrap(), env),
            what: format!("rule {:?} matches {:?} (and {} more URLs of the universe) but the emitted url-filter {:?} does not", rule, env.urls[first], missed - 1, filter),
            url: Some(first),
        }),
        None => {
            let f = rejected.unwrap_or_default();
            if safari_subset(&f).is_ok() {
                Some(InclFail { sig: "c20.urlfilter.regex-crate-rejects".into(), what: format!("url-filter {:?} is in the subset but the regex crate rejects it", f), url: None })
            } else {
                None // already reported by the urlfilter clause
            }
        }
    }
}

/// Converts `rules` as one list and checks every clause. `singles[i]` belongs to `rules[i]`.
fn check_conversion(rules: &[&str], singles: &[&Single], env: &Env, l: &mut Local) {
    l.states += 1;
    l.transitions += 1;
    l.compared += 1;
    let fail = |l: &mut Local, sig: String, what: String| {
        l.mismatch(Mismatch { sig, what, case: case_of(rules), size: size_of(rules) });
    };
    let (out, used) = match convert(rules) {
        Conv::ParsePanic(loc) => {
            l.hist("panic");
            fail(l, format!("c20.parse-panic@{}", loc), format!("add_filters panicked at {} on {:?}", loc, rules));
            return;
        }
        Conv::Panic(loc) => {
            l.hist("panic");
            let sig = singles
                .iter()
                .find_map(|s| s.panic_sig.clone())
                .unwrap_or_else(|| format!("c20.panic.list-only@{}", loc));
            fail(l, sig, format!("into_content_blocking panicked at {} on {:?}", loc, rules));
            return;
        }
        Conv::Refused => {
            l.hist("refused");
            fail(l, "c20.refused-in-debug-mode".into(), format!("into_content_blocking returned Err for a debug-mode set {:?}", rules));
            return;
        }
        Conv::Done(r, u) => (r, u),
    };
    if !out.is_empty() {
        l.nontrivial += 1;
    }
    // outcome: number of entries per action type
    let (mut nb, mut ni, mut nc) = (0, 0, 0);
    for r in &out {
        match r.action.typ {
            CbType::Block => nb += 1,
            CbType::IgnorePreviousRules => ni += 1,
            CbType::CssDisplayNone => nc += 1,
            _ => {}
        }
    }
    l.hist(&format!("block={} ignore-previous={} css={}", nb, ni, nc));

    // witnesses for the clauses (evidence that the universe can violate each of them)
    if ni > 1 && nb + nc > 0 {
        l.count("conversions_with_exception_and_other_entries", 1);
    }
    // per emitted rule: ascii, url-filter subset, if/unless
    for r in &out {
        l.evaluations += 1;
        let t = &r.trigger;
        if t.url_filter.contains("\\|") {
            l.count("entries_with_escaped_pipe", 1);
        }
        if t.url_filter.contains("\\{") {
            l.count("entries_with_escaped_brace", 1);
        }
        if t.url_filter.contains("\\$") || t.url_filter.contains("\\^") {
            l.count("entries_with_escaped_caret_or_dollar", 1);
        }
        if t.if_domain.is_some() {
            l.count("entries_with_if_domain", 1);
        }
        if t.unless_domain.is_some() {
            l.count("entries_with_unless_domain", 1);
        }
        if t.if_domain.iter().chain(t.unless_domain.iter()).flatten().any(|d| d.contains("xn--")) {
            l.count("entries_with_punycoded_domain", 1);
        }
        let mut strings: Vec<(&'static str, &str)> = vec![("url-filter", t.url_filter.as_str())];
        if let Some(s) = &r.action.selector {
            strings.push(("selector", s));
        }
        for (name, v) in [("if-domain", &t.if_domain), ("unless-domain", &t.unless_domain), ("if-top-url", &t.if_top_url), ("unless-top-url", &t.unless_top_url)] {
            for s in v.iter().flatten() {
                strings.push((name, s));
            }
        }
        for (name, s) in &strings {
            if !s.is_ascii() {
                fail(l, format!("c20.ascii.{}", name), format!("{} {:?} of an emitted {} rule is not ASCII; input {:?}", name, s, type_name(&r.action.typ), rules));
            }
        }
        if let Err(why) = safari_subset(&t.url_filter) {
            fail(
                l,
                format!("c20.urlfilter.{}", why),
                format!("url-filter {:?} of an emitted {} rule is outside Safari's regex subset ({}); input {:?}", t.url_filter, type_name(&r.action.typ), why, rules),
            );
        }
        if t.if_domain.is_some() && t.unless_domain.is_some() {
            fail(l, "c20.domains.if-and-unless".into(), format!("emitted rule carries if-domain {:?} and unless-domain {:?}; input {:?}", t.if_domain, t.unless_domain, rules));
        }
        if t.if_top_url.is_some() && t.unless_top_url.is_some() {
            fail(l, "c20.domains.if-and-unless-top-url".into(), format!("emitted rule carries if-top-url and unless-top-url; input {:?}", rules));
        }
    }

    // order: every ignore-previous-rules entry after every other entry
    if let Some(first_ipr) = out.iter().position(|r| r.action.typ == CbType::IgnorePreviousRules) {
        if let Some(late) = out.iter().enumerate().skip(first_ipr).find(|(_, r)| r.action.typ != CbType::IgnorePreviousRules) {
            fail(
                l,
                format!("c20.order.{}-after-ignore-previous-rules", type_name(&late.1.action.typ)),
                format!("entry #{} ({}) follows ignore-previous-rules entry #{}; input {:?}", late.0, type_name(&late.1.action.typ), first_ipr, rules),
            );
        }
    }

    // filters_used == the inputs that produce output on their own (multiset)
    if singles.iter().all(|s| s.yields.is_some()) {
        let mut exp: Vec<&str> = rules.iter().zip(singles).filter(|(_, s)| s.yields == Some(true)).map(|(r, _)| r.trim()).collect();
        let exp_in_order = exp.clone();
        let mut got: Vec<&str> = used.iter().map(|s| s.as_str()).collect();
        // order: not pinned by the property ("exactly the set"); counted only
        if got == exp_in_order {
            l.count("filters_used_in_input_order", 1);
        } else {
            l.count("filters_used_not_in_input_order", 1);
            let mut part: Vec<&str> = exp_in_order.iter().copied().filter(|r| !looks_cosmetic(r)).collect();
            part.extend(exp_in_order.iter().copied().filter(|r| looks_cosmetic(r)));
            if part == got {
                l.count("filters_used_order_is_network_rules_then_cosmetic_rules", 1);
            }
        }
        exp.sort_unstable();
        got.sort_unstable();
        if exp != got {
            let missing: Vec<&&str> = exp.iter().filter(|e| !got.contains(e)).collect();
            let extra: Vec<&&str> = got.iter().filter(|g| !exp.contains(g)).collect();
            let inputs: Vec<&str> = rules.iter().map(|r| r.trim()).collect();
            let sig = if !missing.is_empty() {
                "c20.used.converted-rule-not-reported"
            } else if extra.iter().any(|e| !inputs.contains(e)) {
                "c20.used.reported-text-is-not-an-input"
            } else if !extra.is_empty() {
                "c20.used.reported-rule-yields-nothing-alone"
            } else {
                "c20.used.multiplicity"
            };
            fail(l, sig.into(), format!("filters_used {:?} but the inputs that convert on their own are {:?}; input {:?}", used, exp_in_order, rules));
        }
        if out.is_empty() != used.is_empty() {
            fail(l, "c20.used.output-and-report-disagree".into(), format!("{} rules emitted but filters_used = {:?}; input {:?}", out.len(), used, rules));
        }
    }

    // inclusion for plain patterns
    let singleton = rules.len() == 1;
    for (rule, s) in rules.iter().zip(singles) {
        if singleton {
            l.unspecified += s.unspec;
        }
        let acc = match (&s.accepted, s.yields) {
            (Some(a), Some(true)) => a,
            _ => continue,
        };
        if let Some(f) = inclusion(rule, acc, &out, singleton, env, &mut l.evaluations) {
            // in a list the entries cannot be attributed to their inputs; a rule that already fails
            // on its own keeps the signature of that failure
            let sig = if singleton { f.sig } else { s.incl_sig.clone().unwrap_or_else(|| "c20.inclusion.only-inside-a-list".into()) };
            let url = f.url.map(|u| env.urls[u].clone());
            l.mismatch(Mismatch {
                sig,
                what: format!("{}; input {:?}", f.what, rules),
                case: json!({ "rules": rules, "url": url }),
                size: size_of(rules),
            });
        }
    }
}

// ------------------------------------------------------------------------------------------------
// Universes
// ------------------------------------------------------------------------------------------------

fn alphabet(env: &Env) -> Vec<String> {
    let inv = env.inv_idn.as_str();
    let mut v: Vec<String> = vec![];
    let mut add = |s: &str| v.push(s.to_string());
    // patterns and anchors
    for s in [
        "ads", "|ads", "ads|", "||ads.net", "||ads.net|", "||ads.net^", "||ads.net/ads", "||ads.net/ads|", "||ads.net^ads", "||ads.net*ads", "||a*.net^", "||*ads",
        // a wildcard inside the host part followed by literal text only
        "||a*.net/ads", "||ad*.net", "||a*s.net/ads|", "||a*.net", "||a*.ads.net/ads",
        "||www.ads.net^", "/ads.", "a.b/ads?x=1", "ads^", "^ads^", "ads*js", "a+b", "a(b)", "a[b]", "a{b}", "a\\b", "a|b", "^$image", "|http://", "|https://", "|ws://",
        "|http*://", "|http://a.b/", "|https://ads.net/ads|", "/a+\\/b/", "/ad[sx]/$match-case", "ads$match-case", "ad\u{e9}", "||caf\u{e9}.fr^", "||caf\u{e9}.fr/ads",
    ] {
        add(s);
    }
    add(&format!("||{}^", inv));
    // '$' inside the pattern
    for s in ["a$b", "a$b$image", "a$b$domain=x.com", "a$domain=b$from=x.com"] {
        add(s);
    }
    // domain options
    for o in [
        "domain=x.com", "from=x.com", "domain=~x.com", "domain=x.com|~y.com", "domain=x.com|y.com", "domain=~x.com|~y.com", "domain=caf\u{e9}.fr", "domain=~caf\u{e9}.fr",
        // the option given twice
        "domain=x.com,domain=~y.com", "domain=~y.com,domain=x.com", "domain=x.com,domain=y.com",
        // regex-valued entries (dropped from the parsed rule, still present in the rule text)
        "domain=x.com|~/y[0-9]+\\.com/", "domain=/^x[0-9]/|~y.com", "domain=/^x[0-9]/",
        "domain=xn--caf-dma.fr", "domain=X.COM", "from=x.com,domain=y.com", "domain=x.com,image", "image,domain=x.com", "domain=x.com|",
    ] {
        add(&format!("||ads.net^${}", o));
    }
    add(&format!("||ads.net^$domain={}", inv));
    add(&format!("||ads.net^$domain=~{}", inv));
    add(&format!("ads$from=x.com|{}", inv));
    // party, types, other options
    for o in [
        "3p", "1p", "third-party", "~third-party", "first-party", "image", "media", "object", "other", "ping", "script", "stylesheet", "subdocument", "xmlhttprequest", "websocket",
        "font", "document", "~image", "~websocket", "image,script", "script,subdocument", "subdocument,document", "subdocument,script,3p", "object,ping", "image,ping", "important",
        "redirect=a", "redirect-rule=a", "csp=script-src x", "removeparam=a", "badfilter", "tag=t", "unknownopt",
        // two party options on one rule (same restriction twice, and contradictory pairs)
        "3p,1p", "third-party,first-party", "3p,~3p", "~first-party,first-party", "3p,~1p", "1p,~3p,image",
    ] {
        add(&format!("ads${}", o));
    }
    for s in ["|ws://$websocket", "|ws://$~script", "@@ads$generichide", "@@ads", "@@||ads.net^", "@@||ads.net^$domain=x.com", "@@||ads.net^$document", "@@ads$image,~third-party", "@@|ws://"] {
        add(s);
    }
    // not rules
    for s in ["! comment", "[Adblock Plus 2.0]"] {
        add(s);
    }
    // cosmetic
    for s in [
        "##.ad", "a.b##.ad", "a.b,b.a##.ad", "~a.b##.ad", "a.b,~b.a##.ad", "a.*##.ad", "~a.*##.ad", "a.*,a.b##.ad", "caf\u{e9}.fr##.ad", "~caf\u{e9}.fr##.ad", "xn--caf-dma.fr##.ad",
        "xn--a.b##.ad", "A.B##.ad", "a.b##.ad\u{e9}", "a.b##.ad:style(color:red)", "a.b##+js(x)", "a.b##+js(x, \u{e9})", "a.b##.ad:has-text(x)", "a.b#?#.ad:-abp-has(x)", "a.b#@#.ad",
        "#@#.ad", "a.b#@#+js(x)", "a.b##.ad:remove()", "a.b##^script:has-text(x)", "/re/##.ad", "/re/,a.b##.ad", "a.b##.ad,.ad2", "a.b###id", "##a[href=\"x\"]", "a.b#@#.ad\u{e9}",
    ] {
        add(s);
    }
    add(&format!("{}##.ad", inv));
    add(&format!("a.b,{}##.ad", inv));
    let mut seen = std::collections::HashSet::new();
    for r in &v {
        if !seen.insert(r.trim().to_string()) {
            eprintln!("machinery: duplicate alphabet rule {:?}", r);
            std::process::exit(3);
        }
    }
    v
}

/// Structural symbols inserted / substituted by the single-edit neighbourhood.
const SYMBOLS: [&str; 27] = [
    "|", "*", "^", "$", ",", "~", "=", "#", "@", ".", "/", ":", "(", ")", "[", "]", "{", "}", "\\", "+", "?", "!", "-", " ", "%", "\u{e9}", "\u{644}",
];

/// All single edits of `rule` at character position `p` (0..=nchars): deletion and substitution of
/// the character at `p` (if any), insertion before `p`.
fn edits_at(rule: &str, p: usize, symbols: &[&str], out: &mut Vec<String>) {
    out.clear();
    let chars: Vec<(usize, char)> = rule.char_indices().collect();
    let at = if p < chars.len() { chars[p].0 } else { rule.len() };
    if p < chars.len() {
        let end = at + chars[p].1.len_utf8();
        out.push(format!("{}{}", &rule[..at], &rule[end..]));
        for s in symbols {
            out.push(format!("{}{}{}", &rule[..at], s, &rule[end..]));
        }
    }
    for s in symbols {
        out.push(format!("{}{}{}", &rule[..at], s, &rule[at..]));
    }
}

/// Reduced symbol set of the two-edit neighbourhood (thorough tier).
const SYMBOLS2: [&str; 8] = ["|", "*", "^", "$", ",", "~", "=", "\u{644}"];

const SIGMA: [&str; 6] = ["a", "b", ".", "/", "*", "^"];
const MODES: [(&str, &str); 6] = [("", ""), ("|", ""), ("", "|"), ("|", "|"), ("||", ""), ("||", "|")];
const FRAMES: [(&str, &str); 4] = [("", ""), ("@@", ""), ("", "$image"), ("", "$~third-party,domain=x.com")];

/// Exactly two indices per sweep are written out as samples; VERIF_SEED chooses which.
fn is_sample(i: u64, n: u64, seed: u64) -> bool {
    let a = (seed.wrapping_mul(2_654_435_761).wrapping_add(n / 3)) % n;
    let b = (a + n / 2) % n;
    i == a || i == b
}

fn check_single(rule: &str, env: &Env, l: &mut Local) {
    let s = single_info(rule, env);
    check_conversion(&[rule], &[&s], env, l);
}

fn replay(case: &Value, l: &mut Local) {
    let env = build_env();
    let rules: Vec<String> = case["rules"].as_array().map(|a| a.iter().filter_map(|x| x.as_str().map(|s| s.to_string())).collect()).unwrap_or_default();
    let refs: Vec<&str> = rules.iter().map(|s| s.as_str()).collect();
    let singles: Vec<Single> = refs.iter().map(|r| single_info(r, &env)).collect();
    let srefs: Vec<&Single> = singles.iter().collect();
    check_conversion(&refs, &srefs, &env, l);
}

fn check(ctx: &Ctx) -> i32 {
    recogniser_self_test();
    let env = build_env();
    let alpha = alphabet(&env);
    vh::util::assert_no_hash_collisions(["x.com", "y.com", "caf\u{e9}.fr", "xn--caf-dma.fr", "a.b", "b.a", "ads.net", "a", "b", "ads"]);

    let n_len: u32 = ctx.tier.pick(6, 7);
    let k_list: u32 = ctx.tier.pick(2, 3);
    ctx.bound("pattern_body_max_len", n_len);
    ctx.bound("pattern_alphabet", json!(SIGMA));
    ctx.bound("anchor_modes", MODES.len());
    ctx.bound("option_frames", json!(FRAMES.iter().map(|(a, b)| format!("{}<pattern>{}", a, b)).collect::<Vec<_>>()));
    ctx.bound("rule_alphabet_size", alpha.len());
    ctx.bound("list_max_len", k_list);
    ctx.bound("edit_symbols", json!(SYMBOLS));
    ctx.bound("urls", env.urls.len());
    ctx.bound("invalid_idn_text", json!(env.inv_idn));

    // singleton knowledge about the alphabet (also the differential reference for the list sweep)
    let singles: Vec<Single> = alpha.iter().map(|r| single_info(r, &env)).collect();
    if std::env::var("VERIF_C20_DUMP").is_ok() {
        for (r, s) in alpha.iter().zip(&singles) {
            let out = match convert(&[r.as_str()]) {
                Conv::Done(o, _) => o.iter().map(|c| serde_json::to_string(c).unwrap()).collect::<Vec<_>>().join(" ; "),
                Conv::Panic(l) => format!("PANIC {}", l),
                Conv::ParsePanic(l) => format!("PARSE-PANIC {}", l),
                Conv::Refused => "REFUSED".into(),
            };
            eprintln!("{:40} yields={:?} plain={} accepted={} -> {}", r, s.yields, s.accepted.is_some(), s.accepted.as_ref().map(|a| a.iter().map(|w| w.count_ones()).sum::<u32>()).unwrap_or(0), out);
        }
    }

    // sweep 1: short patterns, every anchor mode
    let bodies = count_strings_upto(SIGMA.len() as u64, n_len) - 1;
    let per_body = (MODES.len() * FRAMES.len()) as u64;
    let n_patterns = bodies * per_body;
    ctx.par_range("patterns", n_patterns, 32, |i, l| {
        let body = nth_string(i / per_body + 1, &SIGMA);
        let k = (i % per_body) as usize;
        let (m, f) = (MODES[k % MODES.len()], FRAMES[k / MODES.len()]);
        let rule = format!("{}{}{}{}{}", f.0, m.0, body, m.1, f.1);
        if is_sample(i, n_patterns, ctx.seed) {
            l.samples.push(json!({"sweep": "patterns", "rules": [rule]}));
        }
        check_single(&rule, &env, l);
    });

    // sweep 1b: short patterns over an alphabet with multi-byte characters (2, 3 and 4 bytes) next to
    // the pattern metacharacters: whatever is done with such a rule (refused or converted), no
    // character arithmetic may go wrong
    const SIGMA_U: [&str; 7] = ["a", "/", "^", "*", "\u{e9}", "\u{6587}", "\u{1f600}"];
    let n_u: u32 = ctx.tier.pick(5, 6);
    let bodies_u = count_strings_upto(SIGMA_U.len() as u64, n_u) - 1;
    ctx.bound("pattern_alphabet_multibyte", json!(SIGMA_U));
    ctx.bound("pattern_multibyte_max_len", n_u);
    ctx.par_range("patterns-multibyte", bodies_u * per_body, 32, |i, l| {
        let body = nth_string(i / per_body + 1, &SIGMA_U);
        let k = (i % per_body) as usize;
        let (m, f) = (MODES[k % MODES.len()], FRAMES[k / MODES.len()]);
        let rule = format!("{}{}{}{}{}", f.0, m.0, body, m.1, f.1);
        check_single(&rule, &env, l);
    });

    // sweep 2: single-edit neighbourhood of the alphabet
    let mut starts: Vec<u64> = vec![0];
    for r in &alpha {
        starts.push(starts.last().unwrap() + r.chars().count() as u64 + 1);
    }
    let positions = *starts.last().unwrap();
    ctx.bound("neighbourhood_positions", positions);
    ctx.par_range("neighbourhood", positions, 4, |i, l| {
        let r = starts.partition_point(|&s| s <= i) - 1;
        let p = (i - starts[r]) as usize;
        let mut eds = vec![];
        edits_at(&alpha[r], p, &SYMBOLS, &mut eds);
        for (n, e) in eds.iter().enumerate() {
            if is_sample(i, positions, ctx.seed) && n as u64 == (ctx.seed + i) % eds.len() as u64 {
                l.samples.push(json!({"sweep": "neighbourhood", "base": alpha[r], "rules": [e]}));
            }
            check_single(e, &env, l);
        }
        l.count("neighbour_rules", eds.len() as u64);
    });

    // sweep 2b (thorough): two edits over the reduced symbol set, second edit at or after the first
    if ctx.tier == vh::Tier::Thorough {
        ctx.bound("two_edit_symbols", json!(SYMBOLS2));
        ctx.par_range("neighbourhood-2", positions, 1, |i, l| {
            let r = starts.partition_point(|&s| s <= i) - 1;
            let p = (i - starts[r]) as usize;
            let (mut e1, mut e2) = (vec![], vec![]);
            edits_at(&alpha[r], p, &SYMBOLS2, &mut e1);
            let mut n = 0u64;
            for a in &e1 {
                let len = a.chars().count();
                for q in p..=len {
                    edits_at(a, q, &SYMBOLS2, &mut e2);
                    for b in &e2 {
                        check_single(b, &env, l);
                    }
                    n += e2.len() as u64;
                }
            }
            l.count("two_edit_rules", n);
        });
    }

    // sweep 3: all ordered lists of <= k alphabet rules
    let n_lists = count_arrangements_upto(alpha.len() as u64, k_list);
    ctx.par_range("lists", n_lists, 256, |i, l| {
        let mut idx = vec![];
        nth_arrangement(i, alpha.len() as u64, &mut idx);
        let rules: Vec<&str> = idx.iter().map(|&j| alpha[j].as_str()).collect();
        let ss: Vec<&Single> = idx.iter().map(|&j| &singles[j]).collect();
        if is_sample(i, n_lists, ctx.seed) {
            l.samples.push(json!({"sweep": "lists", "rules": rules}));
        }
        check_conversion(&rules, &ss, &env, l);
    });

    ctx.finish(
        "model_checking",
        "every conversion (FilterSet::new(true) + add_filters + into_content_blocking) of: every pattern body of length 1..=n over {a,b,.,/,*,^} x 6 anchor modes x 4 option frames as a singleton; every single-character edit (deletion; insertion / substitution of each structural symbol at each position) of each rule of the rule alphabet as a singleton; every ordered list without repetition of <= k alphabet rules. A case is non-trivial when the conversion emits at least one rule. states = filter sets built, transitions = conversions executed, evaluations = emitted rules checked + (url-filter, URL) inclusion tests, traces_validated = conversions compared with the oracle",
        &[
            "Safari's accepted url-filter syntax = the documented subset implemented by safari_subset (empty pattern rejected, quantifier needs an atom, no lazy/stacked quantifiers)",
            "the regex crate is trusted to evaluate url-filter texts of that subset",
            "'options aside' = type / party / domain / badfilter constraints of the parsed NetworkFilter neutralised through its public fields; pattern, anchors, hostname and scheme bits untouched",
            "filters_used is compared as a multiset (the property says 'set'); its order is only counted",
            "websocket URLs are Unspecified for pure scheme rules (|http://, |https://, |ws://)",
            "feature css-validation is off (baseline configuration): procedural cosmetic bodies are stored as plain selectors by the parser",
        ],
    )
}

fn main() {
    run_main("C20", check, replay)
}
