//! C09 — serialization is deterministic and a fixpoint under reload.
//! BX over the same lists as C08 (every ordered list of <= k rules of the all-shapes alphabet, debug
//! and optimise on / off) plus dedicated "wide" lists that put >= 4 entries into every internal
//! container. For each list the engine is built and serialized R times in the enumerating thread,
//! once in a freshly spawned thread and (for a stated subset) once in a child process; all byte
//! strings must be equal. Fixpoint: serialize(deserialize(b)) == b for b from an engine without
//! enabled tags, and for b from an engine with tags S when the loader has the same tags S.
//! The hash seeds of the std maps inside the crate are redrawn, not enumerated. DESIGN §4 C09.

use adblock::lists::{FilterFormat, FilterSet, ParseOptions};
use adblock::Engine;
use serde_json::{json, Value};
use vh::util::{catch, count_arrangements_upto, nth_arrangement, permutations, subsets_of};
use vh::{run_main, Ctx, Local, Mismatch};

// ------------------------------------------------------------------------------------------------
// Rule alphabet R_all (identical to the one in c08.rs; each check is one file, so it is duplicated)
// ------------------------------------------------------------------------------------------------

#[derive(Clone, Copy, PartialEq, Eq, Debug)]
enum Fm {
    Std,
    Hosts,
    /// standard format, loaded from a list that was granted permission bit 0
    StdPerm,
}

/// Ordered simplest-first inside each family. Every entry is verified at start-up to be accepted
/// by the real parser (a rejected entry is a machinery failure, not a verdict).
const R_ALL: &[(&str, Fm)] = &[
    // --- network: pattern shapes
    ("ads/foo/bar", Fm::Std),
    ("/foo/bar", Fm::Std),
    ("bar", Fm::Std),
    ("|https://ads.net/", Fm::Std),
    ("/bar|", Fm::Std),
    ("||ads.net^", Fm::Std),
    ("||ads.net/foo", Fm::Std),
    ("||ads.net*bar", Fm::Std),
    ("||ads.net^foo", Fm::Std),
    ("||ads*.net^", Fm::Std),
    ("foo*bar", Fm::Std),
    ("ad*/bar", Fm::Std),
    ("ads^foo", Fm::Std),
    ("bar^", Fm::Std),
    ("*/foo/*", Fm::Std),
    ("/fo+\\/bar/", Fm::Std),
    ("/Fo+\\/bar/$match-case", Fm::Std),
    ("http", Fm::Std),
    ("https://www.", Fm::Std),
    ("|http://", Fm::Std),
    ("|ws://", Fm::Std),
    ("||b\u{fc}cher.example^", Fm::Std),
    // --- network: options
    ("foo$domain=example.com", Fm::Std),
    // one domain in two spellings (the duplicate survives parsing: entries are de-duplicated as text)
    ("foo$script,domain=Example.com|example.com|tracker.co.uk", Fm::Std),
    ("bar$image,domain=~b\u{fc}cher.example|~xn--bcher-kva.example", Fm::Std),
    ("*$domain=example.com|tracker.co.uk", Fm::Std),
    ("bar$domain=~example.com", Fm::Std),
    // pattern-less rules: one bucket per listed domain (a shared Arc), next to a rule that the
    // bucket owns alone
    ("*$script,domain=a.com|b.com", Fm::Std),
    ("*$image,domain=a.com", Fm::Std),
    ("*$font,domain=b.com", Fm::Std),
    ("/foo$xmlhttprequest,domain=example.com|~sub.example.com", Fm::Std),
    ("foo$third-party", Fm::Std),
    ("bar$~third-party,script", Fm::Std),
    ("ads$image", Fm::Std),
    ("/bar$~image", Fm::Std),
    ("||ads.net^$document", Fm::Std),
    // --- exception / important / tag
    ("@@ads/foo/bar", Fm::Std),
    ("@@||ads.net^$script", Fm::Std),
    ("ads/foo/bar$important", Fm::Std),
    ("||ads.net^$important,image", Fm::Std),
    ("foo$tag=t1", Fm::Std),
    ("@@foo$tag=t2", Fm::Std),
    ("bar$tag=t1,important", Fm::Std),
    // --- redirect / redirect-rule
    ("||ads.net^$redirect=a", Fm::Std),
    ("foo$redirect-rule=b", Fm::Std),
    ("@@foo$redirect-rule=b", Fm::Std),
    ("bar$redirect=a-alias:5", Fm::Std),
    ("/foo$redirect=missing", Fm::Std),
    ("||ads.net^$tag=t2,redirect=a", Fm::Std),
    // --- csp
    ("||example.com^$csp=script-src 'none'", Fm::Std),
    ("||example.com^$csp=img-src 'self'", Fm::Std),
    ("@@||example.com^$csp", Fm::Std),
    ("@@||example.com^$csp=script-src 'none'", Fm::Std),
    ("||sub.example.com^$csp=default-src 'none',tag=t1", Fm::Std),
    // --- badfilter / generichide / removeparam
    ("ads/foo/bar$badfilter", Fm::Std),
    ("||ads.net^$badfilter", Fm::Std),
    ("@@||example.com^$generichide", Fm::Std),
    ("@@||b.tracker.co.uk^$generichide", Fm::Std),
    ("$removeparam=utm", Fm::Std),
    ("||example.com^$removeparam=x", Fm::Std),
    // --- hosts format
    ("0.0.0.0 hosts.ads.net", Fm::Hosts),
    ("tracker.co.uk", Fm::Hosts),
    // --- cosmetic: specific
    ("example.com##.ad-box", Fm::Std),
    ("example.com#@#.ad-box", Fm::Std),
    ("example.com#@#.gen-class", Fm::Std),
    ("example.com##.styled:style(color: red)", Fm::Std),
    ("example.com#@#.styled:style(color: red)", Fm::Std),
    ("example.com##.rm:remove()", Fm::Std),
    ("example.com##.rma:remove-attr(href)", Fm::Std),
    ("example.com##div:has-text(Sponsored)", Fm::Std),
    ("example.com##.up:upward(2)", Fm::Std),
    // a :style() action whose declaration is the one a plain hide rule stands for
    ("example.com##.styled:style(display: none !important)", Fm::Std),
    ("sub.example.com#@#.styled:style(display: none !important)", Fm::Std),
    ("example.com##+js(sl0)", Fm::Std),
    ("example.com##+js(sl1, alpha)", Fm::Std),
    ("example.com,ads.net##+js(sl2, alpha, \"be, ta\")", Fm::Std),
    ("example.com##+js(permlet)", Fm::Std),
    // the same two scriptlet rules once more from a list with another permission mask
    ("example.com##+js(sl1, alpha)", Fm::StdPerm),
    ("example.com##+js(permlet)", Fm::StdPerm),
    // permissioned scriptlet rules for other hosts (the side table of permissions gets several keys)
    ("ads.net##+js(sl0)", Fm::StdPerm),
    ("sub.example.com##+js(sl0)", Fm::StdPerm),
    ("tracker.co.uk,hosts.ads.net##+js(sl1, alpha)", Fm::StdPerm),
    ("example.com#@#+js()", Fm::Std),
    ("sub.example.com#@#+js(sl1, alpha)", Fm::Std),
    ("example.*##.entity-ad", Fm::Std),
    ("~example.com##.neg-ad", Fm::Std),
    ("tracker.co.uk,~b.tracker.co.uk##.mixed", Fm::Std),
    ("b\u{fc}cher.example##.idn-ad", Fm::Std),
    // --- cosmetic: generic
    ("##.gen-class", Fm::Std),
    ("###gen-id", Fm::Std),
    ("##.gen-class > .child", Fm::Std),
    ("###gen-id div", Fm::Std),
    ("##.a\\:b", Fm::Std),
    ("##a[href=\"https://bad.example/\"]", Fm::Std),
    ("##div.misc", Fm::Std),
    ("example.com#@#.gen-class > .child", Fm::Std),
];


const ALL_TAGS: [&str; 2] = ["t1", "t2"];

/// Rules the "used" loader holds before it loads the buffer.
const OTHER_RULES: [&str; 8] = [
    "/x$important",
    "@@||ads.net^",
    "||unrelated.org^",
    "bar$tag=zz",
    "||example.com^$csp=frame-src 'none'",
    "##.leak-generic",
    "example.com##.leak-specific",
    "example.com##+js(sl0, leak)",
];

// ------------------------------------------------------------------------------------------------
// "Wide" alphabet: groups of >= 4 rules that land in ONE internal container each, so that a
// container serialized in hash order would have >= 24 possible orders.
// ------------------------------------------------------------------------------------------------

const WIDE: [&[&str]; 27] = [
    // 4 fusable rules in one token bucket of `filters`
    &["wide/aa", "wide/bb", "wide/cc", "wide/dd"],
    // one bucket, two fusion groups (the optimizer groups them in a hash map)
    &["wide/ee$image", "wide/ff$image", "wide/gg$script", "wide/hh$script"],
    // one bucket each in `exceptions` and `importants`
    &["@@wide/ii", "@@wide/jj", "wide/kk$important", "wide/ll$important"],
    // 5 buckets in one filter map
    &["alpha1/x", "beta2/x", "gamma3/x", "delta4/x", "eps5/x"],
    // tagged rules: tagged_filters_all and filters_tagged
    &["wide/t1$tag=t1", "wide/t2$tag=t1", "wide/t3$tag=t2", "wide/t4$tag=t2"],
    // csp + redirect lists, and one rule dispatched into 4 buckets (shared between them)
    &["||w1.com^$csp=a", "||w2.com^$csp=b", "||w1.com^$redirect=a", "||w2.com^$redirect=b", "$csp=c,domain=w1.com|w2.com|w3.com|w4.com"],
    // 4 complex rules under one class key and under one id key
    &["##.wk > a", "##.wk > b", "##.wk > c", "##.wk > d"],
    &["###wi a", "###wi b", "###wi c", "###wi d"],
    // 4 entries in each generic set
    &["##.s1", "##.s2", "##.s3", "##.s4", "###i1", "###i2", "###i3", "###i4", "##a[x=\"1\"]", "##a[x=\"2\"]", "##a[x=\"3\"]", "##a[x=\"4\"]"],
    // 4 hosts per cosmetic rule, every specific bin
    &[
        "h1.com,h2.com,h3.com,h4.com##.x",
        "h1.com,h2.com,h3.com,h4.com#@#.y",
        "h1.com,h2.com,h3.com,h4.com##+js(sl0)",
        "h1.com,h2.com,h3.com,h4.com#@#+js(sl1)",
        "h1.com,h2.com,h3.com,h4.com##.z:style(color: red)",
        "h1.com,h2.com,h3.com,h4.com#@#.z:style(color: red)",
        "h1.com,h2.com,h3.com,h4.com##.p:remove()",
        "h1.com,h2.com,h3.com,h4.com##.q:has-text(x)",
    ],
    // 4 rules under one host key
    &["h1.com##.a", "h1.com##.b", "h1.com##.c", "h1.com##.d"],
    // 4 domain hashes per option list
    // repeated rules and rules that contribute the same generic selector twice: a bucket that holds
    // a repetition next to other entries
    // several plain tagged rules next to a $badfilter rule (the build takes another path when the
    // list holds a badfilter)
    &["wide/u1$tag=t1", "wide/u2$tag=t2", "wide/u3$tag=t1", "wide/u4$badfilter"],
    &["wide/v1$tag=t1", "wide/v2$tag=t1", "wide/v9$image,badfilter", "wide/v3$tag=t2"],
    &["##.cx > b", "##.cx > c", "##.cx > b", "##.cx > d"],
    &["###ix > b", "###ix > c", "###ix > b", "###ix d"],
    &["~a.com##.cx > e", "~b.com##.cx > e", "##.cx > f", "##.cx > g"],
    &["dup/one", "dup/two", "dup/one", "@@dup/one"],
    &["a.com##.s", "a.com##.t", "a.com##.s", "a.com#@#.t"],
    &["*$script,domain=s1.com|s2.com", "*$image,domain=s1.com", "*$stylesheet,domain=s1.com|s2.com|s3.com", "*$font,domain=s1.com"],
    &["*$xhr,domain=s1.com|s2.com", "*$media,domain=s2.com", "*$other,domain=s2.com|s3.com", "*$ping,domain=s2.com"],
    &["wide$domain=d1.com|d2.com|d3.com|d4.com", "wide$domain=~d1.com|~d2.com|~d3.com|~d4.com", "wide$domain=d4.com|d3.com|d2.com|d1.com|~x.d1.com", "*$domain=d1.com|d2.com|d3.com|d4.com"],
    // the same fusable patterns under two tags: two fused rules that differ in their tag only (any
    // ordering key derived from their content ties)
    &["adframe$tag=t1", "framead$tag=t1", "adframe$tag=t2", "framead$tag=t2"],
    &["wideaa$tag=t1", "widebb$tag=t1", "wideaa$tag=t2", "widebb$tag=t2"],
    &["@@adframe$tag=t1", "@@framead$tag=t1", "@@adframe$tag=t2", "@@framead$tag=t2"],
    // fusable rules of one bucket in which one pattern text occurs more than once (the same pattern
    // under another option order / another letter case is another line): whatever is done about the
    // repetition inside the fused rule, its pattern list is written out as it stands
    &["wide/pp$image,script", "wide/pp$script,image", "wide/qq$image,script", "wide/rr$image,script", "WIDE/qq$image,script", "wide/ss$script,image"],
    // a plain tagged rule that occurs twice, next to tagged rules that share its tokens (which token
    // a rule is filed under depends on how often each token occurs in the list)
    &["/aaa/bbb-$tag=t1", "/aaa/ddd-$tag=t1", "/aaa/ddd-$tag=t1", "/bbb/eee-$tag=t1"],
    // 4 generichide exceptions
    &["@@||g1.com^$generichide", "@@||g2.com^$generichide", "@@||g3.com^$generichide", "@@||g4.com^$generichide"],
];

/// The wide lists, index-addressable: (a) every group alone, in all 24 orders when it has 4 rules,
/// otherwise in all rotations and reversed; (b) every ordered pair of distinct groups; (c) all groups
/// together, in every rotation of the group order, forwards and reversed.
fn wide_lists() -> Vec<Vec<&'static str>> {
    let mut out: Vec<Vec<&'static str>> = vec![];
    for g in WIDE.iter() {
        if g.len() == 4 {
            for p in permutations(4) {
                out.push(p.iter().map(|&i| g[i]).collect());
            }
        } else {
            for r in 0..g.len() {
                let mut v: Vec<&'static str> = g.to_vec();
                v.rotate_left(r);
                out.push(v.clone());
                v.reverse();
                out.push(v);
            }
        }
    }
    for (i, a) in WIDE.iter().enumerate() {
        for (j, b) in WIDE.iter().enumerate() {
            if i != j {
                let mut v: Vec<&'static str> = a.to_vec();
                v.extend_from_slice(b);
                out.push(v);
            }
        }
    }
    for r in 0..WIDE.len() {
        let mut groups: Vec<&[&'static str]> = WIDE.to_vec();
        groups.rotate_left(r);
        let v: Vec<&'static str> = groups.iter().flat_map(|g| g.iter().copied()).collect();
        let mut w = v.clone();
        w.reverse();
        out.push(v);
        out.push(w);
    }
    out
}

type RuleRef = (String, Fm);

fn rule_tags(rules: &[RuleRef]) -> Vec<&'static str> {
    ALL_TAGS
        .iter()
        .copied()
        .filter(|t| rules.iter().any(|(r, _)| r.contains(&format!("tag={}", t))))
        .collect()
}

fn filter_set(rules: &[RuleRef], debug: bool) -> (FilterSet, usize) {
    let mut fs = FilterSet::new(debug);
    let mut accepted = 0;
    for (text, fm) in rules {
        let opts = ParseOptions {
            format: match fm {
                Fm::Std | Fm::StdPerm => FilterFormat::Standard,
                Fm::Hosts => FilterFormat::Hosts,
            },
            permissions: if *fm == Fm::StdPerm { adblock::resources::PermissionMask::from_bits(1) } else { Default::default() },
            ..ParseOptions::default()
        };
        if fs.add_filter(text, opts).is_ok() {
            accepted += 1;
        }
    }
    (fs, accepted)
}

#[derive(Clone, Copy, Debug, PartialEq, Eq)]
struct Cfg {
    debug: bool,
    optimize: bool,
}

const CFGS: [Cfg; 4] = [
    Cfg { debug: false, optimize: false },
    Cfg { debug: true, optimize: false },
    Cfg { debug: false, optimize: true },
    Cfg { debug: true, optimize: true },
];

/// Builds the engine from scratch and serializes it: first with no tag enabled, then once per
/// non-empty subset of the tags the list uses (in the fixed order of `subsets_of`).
fn build_and_serialize(rules: &[RuleRef], cfg: Cfg) -> Result<Vec<Vec<u8>>, String> {
    let r = catch(|| -> Result<Vec<Vec<u8>>, String> {
        let (fs, _) = filter_set(rules, cfg.debug);
        let mut e = Engine::from_filter_set(fs, cfg.optimize);
        let mut out = vec![e.serialize_raw().map_err(|e| format!("serialize error {:?}", e))?];
        for tags in subsets_of(&rule_tags(rules)) {
            if tags.is_empty() {
                continue;
            }
            e.use_tags(&tags);
            out.push(e.serialize_raw().map_err(|e| format!("serialize error {:?}", e))?);
        }
        Ok(out)
    });
    match r {
        Ok(x) => x,
        Err(loc) => Err(format!("panic at {}", loc)),
    }
}

/// The same buffers as `build_and_serialize`, with every tag set reached by another route:
/// route 1 enables the tags of the set one call at a time (starting from no tag), route 2 enables
/// every tag the list uses and disables the others one call at a time. One fresh engine per set.
fn build_and_serialize_by_route(rules: &[RuleRef], cfg: Cfg, route: u8) -> Result<Vec<Vec<u8>>, String> {
    let r = catch(|| -> Result<Vec<Vec<u8>>, String> {
        let all = rule_tags(rules);
        let mut out = vec![];
        for tags in subsets_of(&all) {
            let (fs, _) = filter_set(rules, cfg.debug);
            let mut e = Engine::from_filter_set(fs, cfg.optimize);
            if route == 1 {
                for t in &tags {
                    e.enable_tags(&[*t]);
                }
            } else {
                e.use_tags(&all);
                for t in all.iter().filter(|t| !tags.contains(t)) {
                    e.disable_tags(&[*t]);
                }
            }
            out.push(e.serialize_raw().map_err(|e| format!("serialize error {:?}", e))?);
        }
        Ok(out)
    });
    match r {
        Ok(x) => x,
        Err(loc) => Err(format!("panic at {}", loc)),
    }
}

fn fnv(b: &[u8]) -> u64 {
    let mut h: u64 = 0xcbf29ce484222325;
    for &x in b {
        h ^= x as u64;
        h = h.wrapping_mul(0x100000001b3);
    }
    h
}

/// What a child process prints: length and two independent 64-bit hashes per buffer.
fn fingerprint(bufs: &[Vec<u8>]) -> String {
    bufs.iter()
        .map(|b| format!("{}:{:016x}:{:016x}", b.len(), seahash::hash(b), fnv(b)))
        .collect::<Vec<_>>()
        .join(",")
}

// ------------------------------------------------------------------------------------------------
// Classifier: which top-level field of the serialized struct contains the first differing byte
// ------------------------------------------------------------------------------------------------

const FIELDS: [&str; 21] = [
    "csp",
    "exceptions",
    "importants",
    "redirects",
    "filters_tagged",
    "filters",
    "generic_hide",
    "tagged_filters_all",
    "enable_optimizations",
    "resources",
    "simple_class_rules",
    "simple_id_rules",
    "complex_class_rules",
    "complex_id_rules",
    "specific_rules",
    "misc_generic_selectors",
    "scriptlets",
    "procedural_action",
    "procedural_action_exception",
    "removeparam",
    "inject_script_permissions",
];

fn be(b: &[u8], p: usize, n: usize) -> Option<usize> {
    let s = b.get(p..p + n)?;
    let mut v = 0usize;
    for &x in s {
        v = (v << 8) | x as usize;
    }
    Some(v)
}

/// Position after the msgpack value that starts at `p`.
fn mp_skip(b: &[u8], p: usize) -> Option<usize> {
    let t = *b.get(p)?;
    let seq = |mut q: usize, n: usize| -> Option<usize> {
        for _ in 0..n {
            q = mp_skip(b, q)?;
        }
        Some(q)
    };
    match t {
        0x00..=0x7f | 0xe0..=0xff | 0xc0 | 0xc2 | 0xc3 => Some(p + 1),
        0x80..=0x8f => seq(p + 1, 2 * (t & 0x0f) as usize),
        0x90..=0x9f => seq(p + 1, (t & 0x0f) as usize),
        0xa0..=0xbf => Some(p + 1 + (t & 0x1f) as usize),
        0xc4 | 0xd9 => Some(p + 2 + be(b, p + 1, 1)?),
        0xc5 | 0xda => Some(p + 3 + be(b, p + 1, 2)?),
        0xc6 | 0xdb => Some(p + 5 + be(b, p + 1, 4)?),
        0xc7 => Some(p + 3 + be(b, p + 1, 1)?),
        0xc8 => Some(p + 4 + be(b, p + 1, 2)?),
        0xc9 => Some(p + 6 + be(b, p + 1, 4)?),
        0xca | 0xce | 0xd2 => Some(p + 5),
        0xcb | 0xcf | 0xd3 => Some(p + 9),
        0xcc | 0xd0 => Some(p + 2),
        0xcd | 0xd1 => Some(p + 3),
        0xd4 => Some(p + 3),
        0xd5 => Some(p + 4),
        0xd6 => Some(p + 6),
        0xd7 => Some(p + 10),
        0xd8 => Some(p + 18),
        0xdc => seq(p + 3, be(b, p + 1, 2)?),
        0xdd => seq(p + 5, be(b, p + 1, 4)?),
        0xde => seq(p + 3, 2 * be(b, p + 1, 2)?),
        0xdf => seq(p + 5, 2 * be(b, p + 1, 4)?),
        0xc1 => None,
    }
}

/// Name of the top-level field of `a` that contains byte offset `off` (5-byte header, then one
/// msgpack array with one element per field).
fn field_at(a: &[u8], off: usize) -> String {
    if off < 5 {
        return "header".into();
    }
    let (n, mut p) = match a.get(5) {
        Some(t @ 0x90..=0x9f) => ((t & 0x0f) as usize, 6),
        Some(0xdc) => (be(a, 6, 2).unwrap_or(0), 8),
        _ => return "unparsed".into(),
    };
    for i in 0..n {
        let q = match mp_skip(a, p) {
            Some(q) => q,
            None => return "unparsed".into(),
        };
        if off < q {
            return FIELDS.get(i).map(|s| s.to_string()).unwrap_or_else(|| format!("field{}", i));
        }
        p = q;
    }
    "past-the-end".into()
}

fn first_diff(a: &[u8], b: &[u8]) -> usize {
    a.iter().zip(b.iter()).position(|(x, y)| x != y).unwrap_or(a.len().min(b.len()))
}

// ------------------------------------------------------------------------------------------------
// One case = one (list, configuration)
// ------------------------------------------------------------------------------------------------

struct Env {
    r: u32,
    empty_len: usize,
    exe: std::path::PathBuf,
}

fn case_json(universe: &str, index: u64, rules: &[RuleRef], cfg: Cfg, cfg_index: usize) -> Value {
    json!({
        "universe": universe, "index": index, "config": cfg_index,
        "rules": rules.iter().map(|(r, f)| json!({"r": r, "f": match f { Fm::Hosts => "hosts", Fm::StdPerm => "standard+perm", Fm::Std => "standard" }})).collect::<Vec<_>>(),
        "debug": cfg.debug, "optimize": cfg.optimize,
    })
}

fn run_child(env: &Env, universe: &str, index: u64, cfg_index: usize) -> Result<String, String> {
    let mut last = String::new();
    for _attempt in 0..3 {
        match std::process::Command::new(&env.exe)
            .arg("child")
            .arg(universe)
            .arg(index.to_string())
            .arg(cfg_index.to_string())
            .stdin(std::process::Stdio::null())
            .stderr(std::process::Stdio::null())
            .output()
        {
            Ok(o) if o.status.success() => return Ok(String::from_utf8_lossy(&o.stdout).trim().to_string()),
            Ok(o) => last = format!("child exited with {:?}", o.status.code()),
            Err(e) => last = format!("cannot spawn child: {}", e),
        }
        std::thread::sleep(std::time::Duration::from_millis(50));
    }
    Err(last)
}

#[allow(clippy::too_many_arguments)]
fn check_case(universe: &str, index: u64, rules: &[RuleRef], cfg_index: usize, with_child: bool, env: &Env, l: &mut Local) {
    let cfg = CFGS[cfg_index];
    let size = rules.len() as u64 * 100_000
        + (cfg.debug as u64 + cfg.optimize as u64) * 10_000
        + rules.iter().map(|(r, _)| r.len() as u64).sum::<u64>();
    let fail = |l: &mut Local, sig: String, what: String, extra: Value| {
        let mut c = case_json(universe, index, rules, cfg, cfg_index);
        c["detail"] = extra;
        l.mismatch(Mismatch { sig, what, case: c, size });
    };
    let names = || rules.iter().map(|(r, _)| r.as_str()).collect::<Vec<_>>();
    let tag_sets: Vec<Vec<&str>> = subsets_of(&rule_tags(rules)); // [0] is the empty set

    // --- reference draw
    let first = match build_and_serialize(rules, cfg) {
        Ok(b) => b,
        Err(msg) => {
            fail(l, "c09.build-or-serialize-failed".into(), format!("list {:?}: {}", names(), msg), json!(null));
            return;
        }
    };
    l.states += 1;
    l.transitions += first.len() as u64;
    l.hist(match first[0].len() - env.empty_len.min(first[0].len()) {
        0 => "buffer:same-size-as-empty-engine",
        1..=63 => "buffer:+1..63-bytes",
        64..=255 => "buffer:+64..255-bytes",
        256..=1023 => "buffer:+256..1023-bytes",
        _ => "buffer:+1024-bytes-or-more",
    });
    let nontrivial = first[0].len() > env.empty_len;
    for b in &first {
        l.distinct.insert(seahash::hash(b));
    }

    let compare = |l: &mut Local, kind: &str, other: &Vec<Vec<u8>>| {
        for (k, (a, b)) in first.iter().zip(other.iter()).enumerate() {
            l.evaluations += 1;
            l.compared += 1;
            if nontrivial {
                l.nontrivial += 1;
            }
            if a != b {
                let off = first_diff(a, b);
                let field = field_at(a, off);
                fail(
                    l,
                    format!("c09.determinism.{}.field-{}", kind, field),
                    format!(
                        "list {:?} debug={} optimize={} tags={:?}: two independent builds serialize differently ({}): lengths {} / {}, first difference at byte {} inside field {}",
                        names(), cfg.debug, cfg.optimize, tag_sets[k], kind, a.len(), b.len(), off, field
                    ),
                    json!({"clause": "determinism", "draw": kind, "tags": tag_sets[k], "first_difference_at": off, "field": field}),
                );
            }
        }
        if first.len() != other.len() {
            fail(l, format!("c09.determinism.{}.buffer-count", kind), "different number of buffers".into(), json!(null));
        }
    };

    // --- R - 1 further draws in this thread (every HashMap::new() in a thread gets a new key)
    for _ in 1..env.r {
        match build_and_serialize(rules, cfg) {
            Ok(b) => {
                l.states += 1;
                l.transitions += b.len() as u64;
                compare(l, "same-thread", &b);
            }
            Err(msg) => fail(l, "c09.build-or-serialize-failed".into(), format!("list {:?}: {}", names(), msg), json!(null)),
        }
    }
    // --- the same tag sets reached by other routes (lists that use tags)
    if tag_sets.len() > 1 {
        for (route, name) in [(1u8, "tags-enabled-one-at-a-time"), (2u8, "all-tags-then-disabled-one-at-a-time")] {
            match build_and_serialize_by_route(rules, cfg, route) {
                Ok(b) => {
                    l.states += b.len() as u64;
                    l.transitions += b.len() as u64;
                    compare(l, name, &b);
                }
                Err(msg) => fail(l, "c09.build-or-serialize-failed".into(), format!("list {:?} ({}): {}", names(), name, msg), json!(null)),
            }
        }
    }
    // --- one draw in a freshly spawned thread (new random key pair)
    {
        let rules2: Vec<RuleRef> = rules.to_vec();
        let joined = std::thread::spawn(move || build_and_serialize(&rules2, cfg)).join();
        match joined {
            Ok(Ok(b)) => {
                l.states += 1;
                l.transitions += b.len() as u64;
                compare(l, "fresh-thread", &b);
            }
            Ok(Err(msg)) => fail(l, "c09.build-or-serialize-failed".into(), format!("list {:?} (fresh thread): {}", names(), msg), json!(null)),
            Err(_) => fail(l, "c09.build-or-serialize-failed".into(), format!("list {:?}: fresh thread died", names()), json!(null)),
        }
    }
    // --- one draw in a child process
    if with_child {
        match run_child(env, universe, index, cfg_index) {
            Ok(fp) => {
                l.states += 1;
                l.transitions += first.len() as u64;
                l.evaluations += 1;
                l.compared += 1;
                l.count("child_process_draws", 1);
                if nontrivial {
                    l.nontrivial += 1;
                }
                let mine = fingerprint(&first);
                if fp != mine {
                    fail(
                        l,
                        "c09.determinism.child-process".into(),
                        format!("list {:?} debug={} optimize={}: a fresh process serializes differently: here {} / child {}", names(), cfg.debug, cfg.optimize, mine, fp),
                        json!({"clause": "determinism", "draw": "child-process", "here": mine, "child": fp}),
                    );
                }
            }
            Err(msg) => {
                eprintln!("machinery: child process for {} {} {}: {}", universe, index, cfg_index, msg);
                std::process::exit(3);
            }
        }
    }

    // --- fixpoint under reload
    for (k, tags) in tag_sets.iter().enumerate() {
        let b = &first[k];
        // loader kinds: 0 Engine::new(true), 1 Engine::new(false), 2 a used engine holding other rules;
        // with tags: (i) the loader has the tags before the load, (ii) gets them after the load
        let variants: &[(usize, bool)] = if tags.is_empty() {
            &[(0, false), (1, false), (2, false)]
        } else {
            &[(0, true), (1, false), (2, false), (2, true)]
        };
        for &(kind, tags_before) in variants {
            let r = catch(|| -> Result<Vec<u8>, String> {
                let mut e = match kind {
                    0 => Engine::new(true),
                    1 => Engine::new(false),
                    _ => {
                        let other: Vec<RuleRef> = OTHER_RULES.iter().map(|r| (r.to_string(), Fm::Std)).collect();
                        let (fs, _) = filter_set(&other, !cfg.debug);
                        let mut e = Engine::from_filter_set(fs, !cfg.optimize);
                        if !tags_before {
                            e.use_tags(&["zz"]);
                        }
                        e
                    }
                };
                if tags_before {
                    e.use_tags(tags);
                }
                e.deserialize(b).map_err(|e| format!("deserialize error {:?}", e))?;
                if !tags_before {
                    e.use_tags(tags);
                }
                e.serialize_raw().map_err(|e| format!("serialize error {:?}", e))
            });
            l.states += 1;
            l.transitions += 2;
            l.evaluations += 1;
            l.compared += 1;
            if nontrivial {
                l.nontrivial += 1;
            }
            let loader = format!(
                "{}{}",
                ["new-true", "new-false", "holds-other-rules"][kind],
                if tags.is_empty() { "" } else if tags_before { ".tags-before-load" } else { ".tags-after-load" }
            );
            match r {
                Ok(Ok(b2)) => {
                    if &b2 != b {
                        let off = first_diff(b, &b2);
                        let field = field_at(b, off);
                        fail(
                            l,
                            format!("c09.fixpoint.{}.field-{}", if tags.is_empty() { "no-tags" } else { "same-tags" }, field),
                            format!(
                                "list {:?} debug={} optimize={} tags={:?} loader={}: serialize(deserialize(b)) != b: lengths {} / {}, first difference at byte {} inside field {}",
                                names(), cfg.debug, cfg.optimize, tags, loader, b.len(), b2.len(), off, field
                            ),
                            json!({"clause": "fixpoint", "tags": tags, "loader": loader, "first_difference_at": off, "field": field}),
                        );
                    }
                }
                Ok(Err(msg)) => fail(l, "c09.fixpoint.reload-failed".into(), format!("list {:?} loader={}: {}", names(), loader, msg), json!(null)),
                Err(loc) => fail(l, format!("c09.fixpoint.panic@{}", loc), format!("list {:?} loader={}: panic at {}", names(), loader, loc), json!(null)),
            }
        }
    }
}

fn rules_of(universe: &str, index: u64, wide: &[Vec<&'static str>]) -> Option<Vec<RuleRef>> {
    match universe {
        "L" => {
            let mut idx = vec![];
            nth_arrangement(index, R_ALL.len() as u64, &mut idx);
            Some(idx.iter().map(|&i| (R_ALL[i].0.to_string(), R_ALL[i].1)).collect())
        }
        "W" => wide.get(index as usize).map(|v| v.iter().map(|r| (r.to_string(), Fm::Std)).collect()),
        // the rule cube: cell (pattern, option set, exception?) plus the cells of the same pattern
        // under the next two option sets (one bucket, three ids)
        "Q" => {
            let (np, no) = (vh::alpha::CUBE_PATTERNS.len() as u64, vh::alpha::CUBE_OPTIONS.len() as u64);
            let (p, o, exc) = ((index % np) as usize, ((index / np) % no) as usize, index / np / no == 1);
            let first = vh::alpha::cube_rule(p, o, exc)?;
            let mut v = vec![(first, Fm::Std)];
            for d in 1..=2 {
                if let Some(r) = vh::alpha::cube_rule(p, (o + d) % no as usize, false) {
                    if v.iter().all(|x| x.0 != r) {
                        v.push((r, Fm::Std));
                    }
                }
            }
            Some(v)
        }
        _ => None,
    }
}

/// `c09 child <universe> <index> <config>`: build + serialize in this (fresh) process, print the
/// fingerprint of the buffers.
fn child_main(args: &[String]) -> ! {
    let universe = args.get(2).map(|s| s.as_str()).unwrap_or("");
    let index: u64 = args.get(3).and_then(|s| s.parse().ok()).unwrap_or(u64::MAX);
    let cfg_index: usize = args.get(4).and_then(|s| s.parse().ok()).unwrap_or(usize::MAX);
    let wide = if universe == "W" { wide_lists() } else { vec![] };
    if cfg_index >= CFGS.len() || (universe == "L" && index >= count_arrangements_upto(R_ALL.len() as u64, 4)) {
        eprintln!("usage: c09 child <L|W> <index> <config 0..3>");
        std::process::exit(2);
    }
    let rules = match rules_of(universe, index, &wide) {
        Some(r) => r,
        None => std::process::exit(2),
    };
    vh::util::install_quiet_panic_hook();
    match build_and_serialize(&rules, CFGS[cfg_index]) {
        Ok(b) => {
            println!("{}", fingerprint(&b));
            std::process::exit(0);
        }
        Err(msg) => {
            println!("ERROR {}", msg);
            std::process::exit(0);
        }
    }
}

fn env_for(r: u32) -> Env {
    let empty = build_and_serialize(&[], CFGS[0]).map(|b| b[0].len()).unwrap_or(0);
    Env { r, empty_len: empty, exe: std::env::current_exe().expect("current_exe") }
}

fn replay(case: &Value, l: &mut Local) {
    let rules: Vec<RuleRef> = case["rules"]
        .as_array()
        .map(|a| {
            a.iter()
                .map(|r| {
                    (
                        r["r"].as_str().unwrap_or("").to_string(),
                        match r["f"].as_str() { Some("hosts") => Fm::Hosts, Some("standard+perm") => Fm::StdPerm, _ => Fm::Std },
                    )
                })
                .collect()
        })
        .unwrap_or_default();
    let cfg_index = case["config"].as_u64().unwrap_or(0) as usize % CFGS.len();
    let universe = case["universe"].as_str().unwrap_or("L");
    let index = case["index"].as_u64().unwrap_or(0);
    // the child rebuilds the list from (universe, index): use it only if that is the stored list
    let wide = wide_lists();
    let same = rules_of(universe, index, &wide).map(|r| r == rules).unwrap_or(false);
    let env = env_for(12);
    check_case(universe, index, &rules, cfg_index, same, &env, l);
}

fn self_check(wide: &[Vec<&'static str>]) -> Result<(), String> {
    for (r, f) in R_ALL {
        let (_, n) = filter_set(&[(r.to_string(), *f)], true);
        if n != 1 {
            return Err(format!("alphabet rule {:?} is rejected by the parser", r));
        }
    }
    for g in WIDE.iter() {
        for r in g.iter() {
            let (_, n) = filter_set(&[(r.to_string(), Fm::Std)], true);
            if n != 1 {
                return Err(format!("wide rule {:?} is rejected by the parser", r));
            }
        }
    }
    // the msgpack walker must account for every byte of a real buffer, and every field name of the
    // classifier must be reachable
    let all: Vec<RuleRef> = wide.last().unwrap().iter().map(|r| (r.to_string(), Fm::Std)).collect();
    let b = build_and_serialize(&all, CFGS[1])?;
    let buf = &b[0];
    if field_at(buf, buf.len() - 1) != *FIELDS.last().unwrap() || field_at(buf, 6) != "csp" {
        return Err(format!("msgpack walker does not parse a real buffer: last byte is in {:?}", field_at(buf, buf.len() - 1)));
    }
    // the wide list must really be wide: its buffer differs when any single rule is left out
    for skip in 0..all.len() {
        // (a deliberately repeated rule may be de-duplicated by the engine)
        if all.iter().filter(|x| x.0 == all[skip].0).count() > 1 || all[skip].0.contains("badfilter") {
            continue; // (a $badfilter rule is consumed at build time: nothing of it is stored)
        }
        let mut fewer = all.clone();
        fewer.remove(skip);
        if build_and_serialize(&fewer, CFGS[1])?[0] == *buf {
            return Err(format!("wide rule {:?} leaves no trace in the buffer", all[skip].0));
        }
    }
    Ok(())
}

fn check(ctx: &Ctx) -> i32 {
    let wide = wide_lists();
    if let Err(e) = self_check(&wide) {
        eprintln!("machinery: {}", e);
        return 3;
    }
    let n = R_ALL.len() as u64;
    let k: u32 = ctx.tier.pick(2, 3);
    let r: u32 = ctx.tier.pick(6, 12);
    let env = env_for(r);
    let total_lists = count_arrangements_upto(n, k);
    let small_lists = count_arrangements_upto(n, 2);
    ctx.bound("alphabet_rules", n);
    ctx.bound("list_max_len", k);
    ctx.bound("lists", total_lists);
    ctx.bound("wide_lists", wide.len());
    ctx.bound("wide_groups", WIDE.len());
    ctx.bound("configs_debug_x_optimize", CFGS.len());
    ctx.bound("rebuilds_in_enumerating_thread_R", r);
    ctx.bound("fresh_thread_draws_per_case", 1);
    ctx.bound(
        "child_process_draws",
        ctx.tier.pick(
            "every 16th list and every wide list, each configuration",
            "every list of <= 2 rules, every 16th list of 3 rules and every wide list, each configuration",
        ),
    );
    ctx.bound("fixpoint_loaders", json!(["Engine::new(true)", "Engine::new(false)", "used engine holding other rules and tags"]));
    ctx.bound("tag_sets", "buffers taken with no tag enabled and with every non-empty subset of the tags the list uses; reload compared when the loader has the same tags (before or after the load)");
    ctx.nonexhaustive(format!("hash seeds of std HashMap: redrawn x{} per input (+1 fresh thread, +1 child process where stated), not enumerable", r));

    let thorough = k >= 3;
    ctx.par_range("lists-x-configs", total_lists * CFGS.len() as u64, 4, |i, l| {
        let li = i / CFGS.len() as u64;
        let ci = (i % CFGS.len() as u64) as usize;
        let rules = rules_of("L", li, &wide).unwrap();
        let with_child = if thorough { li < small_lists || li % 16 == 0 } else { li % 16 == 0 };
        if l.samples.len() < 2 && (i + ctx.seed) % 4099 == 17 {
            l.samples.push(json!({"case": case_json("L", li, &rules, CFGS[ci], ci), "child_process": with_child}));
        }
        check_case("L", li, &rules, ci, with_child, &env, l);
    });
    let cube_cells = (vh::alpha::CUBE_PATTERNS.len() * vh::alpha::CUBE_OPTIONS.len() * 2) as u64;
    ctx.bound("cube_cells", cube_cells);
    ctx.par_range("rule-cube-x-configs", cube_cells * CFGS.len() as u64, 4, |i, l| {
        let qi = i / CFGS.len() as u64;
        let ci = (i % CFGS.len() as u64) as usize;
        if let Some(rules) = rules_of("Q", qi, &wide) {
            check_case("Q", qi, &rules, ci, qi % 16 == 3, &env, l);
        }
    });
    ctx.par_range("wide-lists-x-configs", wide.len() as u64 * CFGS.len() as u64, 1, |i, l| {
        let wi = i / CFGS.len() as u64;
        let ci = (i % CFGS.len() as u64) as usize;
        let rules = rules_of("W", wi, &wide).unwrap();
        if l.samples.len() < 1 && (i + ctx.seed) % 97 == 5 {
            l.samples.push(json!({"case": case_json("W", wi, &rules, CFGS[ci], ci), "child_process": true}));
        }
        check_case("W", wi, &rules, ci, true, &env, l);
    });
    ctx.finish(
        "model_checking",
        "every ordered list without repetition of <= k rules of the 84-rule all-shapes alphabet, and every wide list (each group of >= 4 same-container rules alone in all orders, every ordered pair of groups, all groups in every rotation), x debug x optimise: the engine is built from scratch and serialized R times in the enumerating thread, once in a fresh thread, and for the stated subset once in a child process, with no tag and with every non-empty subset of the list's tags enabled; all buffers must be byte-equal; each buffer is reloaded into three kinds of engine holding the same tag set and re-serialized, which must reproduce it; a case is non-trivial when the buffer is larger than the empty engine's; states = engines built or loaded, transitions = serialize / deserialize calls, traces_validated = byte-string comparisons; distinct_nontrivial = distinct buffers observed",
        &[
            "hash seeds cannot be chosen from outside the crate: each input is redrawn (R in-thread, 1 fresh thread, 1 fresh process for the stated subset); a container with n entries serialized in hash order would differ between two draws with probability >= 1 - 1/n!",
            "fixpoint is demanded for buffers from an engine without enabled tags, and for buffers taken with tags S when the loader holds exactly S (enabled tags are not part of the format; the stored filters_tagged list is rebuilt from the loader's tags)",
            "resources are not part of the format and are not loaded",
        ],
    )
}

fn main() {
    let args: Vec<String> = std::env::args().collect();
    if args.get(1).map(|s| s.as_str()) == Some("child") {
        child_main(&args);
    }
    run_main("C09", check, replay)
}
