//! Free-running pass for C19 under Miri's data-race detector (thorough tier, sync configuration):
//! the same kind of thread bodies as the schedule explorer, but on uncontrolled threads, so that
//! unsynchronised accesses outside the regex-manager lock would be reported. Not exhaustive.
#[cfg(not(feature = "sync"))]
fn main() {
    eprintln!("c19_miri is only meaningful in the sync configuration");
}

#[cfg(feature = "sync")]
fn main() {
    use adblock::request::Request;
    use adblock::Engine;
    let rules = ["foo*bar", "@@baz^qux", "/ad[0-9]+/$script", "plain", "||x.com^$csp=d1", "x.com##.ad"];
    let mut e = Engine::from_rules_parametrised(rules, Default::default(), true, false);
    e.set_regex_discard_policy(adblock::regex_manager::RegexManagerDiscardPolicy {
        cleanup_interval: std::time::Duration::from_nanos(1),
        discard_unused_time: std::time::Duration::ZERO,
    });
    let e = &e;
    let urls = ["https://x.com/foo1bar", "https://x.com/ad12", "https://x.com/baz/qux", "https://x.com/plain"];
    let expect: Vec<bool> = urls.iter().map(|u| e.check_network_request(&Request::new(u, "https://y.com/", "script").unwrap()).matched).collect();
    std::thread::scope(|sc| {
        for t in 0..2 {
            let expect = expect.clone();
            sc.spawn(move || {
                for k in 0..4 {
                    let i = (k + t * 2) % 4;
                    let r = e.check_network_request(&Request::new(urls[i], "https://y.com/", "script").unwrap());
                    assert_eq!(r.matched, expect[i]);
                }
                let _ = e.get_csp_directives(&Request::new("https://x.com/", "https://x.com/", "document").unwrap());
                let _ = e.url_cosmetic_resources("https://x.com/");
            });
        }
    });
    println!("miri-pass-ok");
}
