//! C17 — generic class/id lookup returns exactly the unexcepted generic selectors, and every
//! generic selector is reachable through exactly one of the two routes (class/id lookup, per-site
//! resources). DESIGN §4 C17.
//!
//! BX: all subsets of size <= k of an alphabet of generic hide selectors (plain, compound, escaped
//! identifiers, hex escapes with terminating space, non-ASCII, near-collisions, selectors without a
//! leading class/id), one real `Engine` per subset, and for each engine
//!   * route 2: `url_cosmetic_resources(url).hide_selectors` for several page URLs,
//!   * the partition clause (saturating lookup vs. route 2, per selector),
//!   * sweep A: every class-name subset of size <= 2 of the name universe (ids, exceptions empty),
//!   * sweep B: the same for ids,
//!   * sweep C: every exception subset of size <= 2 of the exception universe, queried with the
//!     list's own keys as classes and as ids,
//!   * sweep D: the full cross (classes x ids x exceptions, each a subset of size <= 2) of the
//!     list-relative names / selectors / confusable spellings,
//!   * sweep E (smaller lists): exceptions that come from the engine itself (`ex.com#@#sel` rules,
//!     `url_cosmetic_resources("https://ex.com/").exceptions` handed to the lookup unchanged).
//! Oracle: an independent reading of the property text on strings (CSS identifier grammar of CSS
//! Syntax Level 3; nothing shared with /repo). Results of `hidden_class_id_selectors` are compared
//! as SETS (duplicates are counted as an observation, the property does not pin multiplicity).

use adblock::filters::cosmetic::CosmeticFilterMask;
use adblock::lists::{parse_filter, ParsedFilter};
use adblock::Engine;
use serde_json::{json, Value};
use std::collections::{BTreeSet, HashSet};
use vh::util::catch;
use vh::{run_main, Ctx, Local, Mismatch};

// ------------------------------------------------------------------------------------------------
// Reference model
// ------------------------------------------------------------------------------------------------

#[derive(Clone, Copy, PartialEq, Eq, Debug)]
enum Kind {
    Class,
    Id,
}

impl Kind {
    fn name(self) -> &'static str {
        match self {
            Kind::Class => "class",
            Kind::Id => "id",
        }
    }
    fn sigil(self) -> char {
        match self {
            Kind::Class => '.',
            Kind::Id => '#',
        }
    }
}

#[derive(Clone, Debug, PartialEq, Eq)]
enum LeadKey {
    /// The selector starts with a class / id selector whose CSS-unescaped name is `name`;
    /// `simple` = the selector consists of nothing else.
    Keyed { kind: Kind, name: String, simple: bool },
    /// No leading class / id selector: the selector belongs to the per-site route.
    NoKey,
    /// Outside the domain of the property (garbage in): executed, never compared.
    Unspec(&'static str),
}

/// Spelling features of the leading identifier; used only to *classify* mismatches.
#[derive(Clone, Copy, Default, Debug)]
struct Feat {
    simple_escape: bool,
    hex_escape: bool,
    nonascii_alnum: bool,
    nonascii_other: bool,
}

impl Feat {
    fn text(&self) -> String {
        let mut v = vec![];
        if self.simple_escape {
            v.push("char-escape");
        }
        if self.hex_escape {
            v.push("hex-escape");
        }
        if self.nonascii_alnum {
            v.push("nonascii-alnum");
        }
        if self.nonascii_other {
            v.push("nonascii-symbol");
        }
        if v.is_empty() {
            v.push("plain-ascii");
        }
        v.join("+")
    }
}

/// Non-ASCII code points that are identifier code points in *every* level of CSS Syntax: Level 3
/// (2021) admits every code point >= U+0080, the current draft only the ranges below. A code
/// point admitted by one and not the other is left unspecified.
fn nonascii_ident_everywhere(c: char) -> bool {
    let u = c as u32;
    u == 0xB7
        || (0xC0..=0xD6).contains(&u)
        || (0xD8..=0xF6).contains(&u)
        || (0xF8..=0x37D).contains(&u)
        || (0x37F..=0x1FFF).contains(&u)
        || u == 0x200C
        || u == 0x200D
        || u == 0x203F
        || u == 0x2040
        || (0x2070..=0x218F).contains(&u)
        || (0x2C00..=0x2FEF).contains(&u)
        || (0x3001..=0xD7FF).contains(&u)
        || (0xF900..=0xFDCF).contains(&u)
        || (0xFDF0..=0xFFFD).contains(&u)
        || u >= 0x10000
}

/// Leading key of a selector: CSS-unescape of the maximal leading `[#.]ident`.
fn leading_key(sel: &str) -> (LeadKey, Feat) {
    let cs: Vec<char> = sel.chars().collect();
    let mut feat = Feat::default();
    let kind = match cs.first() {
        Some('.') => Kind::Class,
        Some('#') => Kind::Id,
        _ => return (LeadKey::NoKey, feat),
    };
    // identifier start: a digit, or a hyphen followed by a digit, does not start an identifier
    match (cs.get(1), cs.get(2)) {
        (Some(d), _) if d.is_ascii_digit() => {
            return (LeadKey::Unspec("identifier-starts-with-digit"), feat)
        }
        (Some('-'), Some(d)) if d.is_ascii_digit() => {
            return (LeadKey::Unspec("identifier-starts-with-hyphen-digit"), feat)
        }
        _ => {}
    }
    let mut name = String::new();
    let mut i = 1usize;
    while i < cs.len() {
        let c = cs[i];
        if c == '\\' {
            match cs.get(i + 1) {
                None => return (LeadKey::Unspec("backslash-at-end"), feat),
                Some('\n') | Some('\r') | Some('\x0c') => {
                    return (LeadKey::Unspec("escaped-newline"), feat)
                }
                Some(h) if h.is_ascii_hexdigit() => {
                    let mut j = i + 1;
                    let mut v: u32 = 0;
                    let mut n = 0;
                    while j < cs.len() && cs[j].is_ascii_hexdigit() {
                        n += 1;
                        if n > 6 {
                            return (LeadKey::Unspec("hex-escape-longer-than-6-digits"), feat);
                        }
                        v = v * 16 + cs[j].to_digit(16).unwrap();
                        j += 1;
                    }
                    if cs.get(j) != Some(&' ') {
                        return (LeadKey::Unspec("hex-escape-without-terminating-space"), feat);
                    }
                    j += 1;
                    match char::from_u32(v) {
                        None => return (LeadKey::Unspec("hex-escape-not-a-scalar-value"), feat),
                        Some('\0') => return (LeadKey::Unspec("hex-escape-of-zero"), feat),
                        Some(ch) => name.push(ch),
                    }
                    feat.hex_escape = true;
                    i = j;
                }
                Some(&o) => {
                    name.push(o);
                    feat.simple_escape = true;
                    i += 2;
                }
            }
        } else if c.is_ascii_alphanumeric() || c == '_' || c == '-' {
            name.push(c);
            i += 1;
        } else if (c as u32) >= 0x80 {
            if !nonascii_ident_everywhere(c) {
                return (LeadKey::Unspec("non-ascii-code-point-not-an-identifier-code-point-in-every-css-level"), feat);
            }
            if c.is_alphanumeric() {
                feat.nonascii_alnum = true;
            } else {
                feat.nonascii_other = true;
            }
            name.push(c);
            i += 1;
        } else {
            break;
        }
    }
    if name.is_empty() {
        return (LeadKey::Unspec("empty-identifier"), feat);
    }
    if name == "-" && !feat.simple_escape && !feat.hex_escape {
        return (LeadKey::Unspec("lone-hyphen"), feat);
    }
    (LeadKey::Keyed { kind, name, simple: i == cs.len() }, feat)
}

#[derive(Clone, Debug)]
struct SelInfo {
    text: String,
    key: LeadKey,
    feat: Feat,
    shape: String,
}

impl SelInfo {
    fn new(text: &str) -> SelInfo {
        let (key, feat) = leading_key(text);
        let mut s = SelInfo { text: text.to_string(), key, feat, shape: String::new() };
        s.shape = s.compute_shape();
        s
    }
    fn shape(&self) -> &str {
        &self.shape
    }
    fn keyed(&self) -> Option<(Kind, &str, bool)> {
        match &self.key {
            LeadKey::Keyed { kind, name, simple } => Some((*kind, name.as_str(), *simple)),
            _ => None,
        }
    }
    /// Structural description used in signatures.
    fn compute_shape(&self) -> String {
        match &self.key {
            LeadKey::Keyed { kind, simple, .. } => format!(
                "{}.{}.{}",
                kind.name(),
                if *simple { "simple" } else { "complex" },
                self.feat.text()
            ),
            LeadKey::NoKey => "unkeyed".to_string(),
            LeadKey::Unspec(w) => format!("unspecified({})", w),
        }
    }
    /// `[#.]` + unescaped name: a *different* selector whenever the spelling uses escapes.
    fn unescaped_spelling(&self) -> Option<String> {
        self.keyed().map(|(k, n, _)| format!("{}{}", k.sigil(), n))
    }
}

// ------------------------------------------------------------------------------------------------
// Alphabets
// ------------------------------------------------------------------------------------------------

/// In-domain generic selectors. Every entry is there for one collision or one spelling.
const ALPHABET: &[&str] = &[
    // simple classes; prefixes / extensions / case / punctuation of each other
    ".c", ".cd", ".d", ".c-d", ".c_d", ".C", ".-c", ".c1",
    // complex selectors led by class c (descendant, compound, child, pseudo, attribute, list,
    // sibling, class+id) and by its extension / by another class that mentions .c later
    ".c d", ".c.d", ".c>d", ".c > .d", ".c:hover", ".c[x]", ".c,.d", ".c~d", ".c#i", ".cd e",
    ".d .c", ".c .c",
    // ids: simple, extension, same name as a class, complex
    "#i", "#ij", "#c", "#i .c", "#i.c", "#i>d", "#c d", "#i-j",
    // escaped identifiers (and the compound selector the unescaped text would mean)
    ".a\\.b", ".a\\:b", ".a\\.b c", "#a\\.b", ".a.b", ".a", ".a\\\\b", ".\\.a", ".a\\ b",
    ".w-1\\/2",
    // keys that begin or end with white space (an escaped space): a name is looked
    // up verbatim
    "#\\ i", ".d\\ >e",
    // hex escapes with the terminating space; several spellings of one key
    "#\\31 23", ".\\31 23", ".\\e9 x", ".\\E9 x", ".éx", ".\\63 d", ".\\63  d", ".\\000063 d",
    "#\\69  .c", ".\\6587 x", ".\\1F600 x",
    // non-ASCII literals: letters, ideographs, and identifier code points that are not letters
    ".é", ".文", ".文 d", "#é", ".😀", ".c😀",
    // an escape and a non-letter identifier code point in one leading name, in both orders
    ".a\\:😀b", "#😀\\:b", "#\\31 st😀",
    // the backslash itself, written as a hex escape in front of more name (same key as `.a\\b`)
    ".a\\5c b", "#i\\5C j", ".a\\5c \\5c b",
    // an escaped punctuation character, then characters that could be hex digits, then an escaped
    // space, all in one name
    ".a\\:bd\\ c", "#i\\.e1\\ j",
    // an escaped character that is not ASCII
    ".a\\éd", "#\\😀j", ".\\文 d",
    // no leading class / id: per-site route
    "div.c", "[c]", "*", "div", "c", "i", "[c=\".c\"]", "div#i", ":not(.c)", "*.c", "div > .c",
];

/// Outside the domain: executed (alone and next to every in-domain selector), never compared.
const OUTSIDE: &[&str] = &[
    ".a\\31b", ".\\e9.x", ".\\e9", ".\\110000 x", ".\\d800 x", ".\\0 x", ".\\FFFFFFFFF x",
    ".\\0000063 d", ".", "#", ".1a", ".-1", ".c\\", "..c", ".#c", "#.c", ".c\u{d7}", ".-",
    "#1", ". c",
];

/// Names that are keys of nothing (or only of an out-of-domain spelling).
const DECOY_NAMES: &[&str] = &["", "cx", "a.", "x", "c d", ".c", "#i", "e9", "c\\", "a\\.b"];

/// Exception texts that are selectors of nothing in the alphabet.
const DECOY_EXCEPTIONS: &[&str] = &["cd", ".c ", ".cx", "#d", ".a\\.", "##.c"];

const URLS: &[&str] = &[
    "https://example.com/",
    "https://sub.example.co.uk/p?q=1",
    "http://1.2.3.4/",
    "https://localhost/x",
];

const SITE_FIXED_EXCEPTIONS: &[&str] = &[".c", "div.c", "#i"];

#[derive(Clone, Copy)]
struct Combo {
    len: u8,
    idx: [u8; 4],
}

impl Combo {
    fn slice(&self) -> &[u8] {
        &self.idx[..self.len as usize]
    }
}

/// All subsets of {0..n} of size <= k, by size, then lexicographic.
fn combos_upto(n: usize, k: usize) -> Vec<Combo> {
    fn rec(n: usize, size: usize, start: usize, cur: &mut Vec<u8>, out: &mut Vec<Combo>) {
        if cur.len() == size {
            let mut idx = [0u8; 4];
            idx[..cur.len()].copy_from_slice(cur);
            out.push(Combo { len: cur.len() as u8, idx });
            return;
        }
        for i in start..n {
            cur.push(i as u8);
            rec(n, size, i + 1, cur, out);
            cur.pop();
        }
    }
    assert!(n < 256 && k <= 4);
    let mut out = vec![];
    for size in 0..=k.min(n) {
        rec(n, size, 0, &mut vec![], &mut out);
    }
    out
}

fn subsets_upto2<T: Clone>(items: &[T]) -> Vec<Vec<T>> {
    let mut out = vec![vec![]];
    for a in items {
        out.push(vec![a.clone()]);
    }
    for i in 0..items.len() {
        for j in i + 1..items.len() {
            out.push(vec![items[i].clone(), items[j].clone()]);
        }
    }
    out
}

struct Universe {
    sels: Vec<SelInfo>,
    outside: Vec<SelInfo>,
    names: Vec<String>,
    name_subsets: Vec<Vec<usize>>,
    exc_texts: Vec<String>,
    exc_sets: Vec<(Vec<usize>, HashSet<String>)>,
    empty_exc: HashSet<String>,
    rejected: Vec<String>,
    machinery_errors: Vec<String>,
}

/// Precondition of C17 (rule parsing itself is C11 / C16): `##sel` is accepted as a generic hide
/// rule whose plain selector is `sel`, and `ex.com#@#sel` as its site exception.
fn accepted_as_generic_hide(sel: &str) -> bool {
    let rule = format!("##{}", sel);
    match catch(|| parse_filter(&rule, false, Default::default())) {
        Ok(Ok(ParsedFilter::Cosmetic(f))) => {
            !f.has_hostname_constraint()
                && f.action.is_none()
                && f.mask.bits() == 0
                && f.plain_css_selector() == Some(sel)
        }
        _ => false,
    }
}

fn accepted_as_site_exception(sel: &str) -> bool {
    let rule = format!("ex.com#@#{}", sel);
    match catch(|| parse_filter(&rule, false, Default::default())) {
        Ok(Ok(ParsedFilter::Cosmetic(f))) => {
            f.hostnames.as_ref().map(|h| h.len()) == Some(1)
                && f.entities.is_none()
                && f.not_hostnames.is_none()
                && f.not_entities.is_none()
                && f.action.is_none()
                && f.mask.bits() == CosmeticFilterMask::UNHIDE.bits()
                && f.plain_css_selector() == Some(sel)
        }
        _ => false,
    }
}

fn build_universe() -> Universe {
    let mut sels = vec![];
    let mut rejected = vec![];
    let mut machinery_errors = vec![];
    let mut seen = BTreeSet::new();
    for s in ALPHABET {
        if !seen.insert(s.to_string()) {
            machinery_errors.push(format!("alphabet lists {:?} twice", s));
            continue;
        }
        let info = SelInfo::new(s);
        if let LeadKey::Unspec(w) = &info.key {
            machinery_errors.push(format!("alphabet selector {:?} is outside the domain of the reference ({})", s, w));
            continue;
        }
        if s.trim() != *s {
            machinery_errors.push(format!("alphabet selector {:?} is not trimmed", s));
            continue;
        }
        if !accepted_as_generic_hide(s) {
            rejected.push(s.to_string());
            continue;
        }
        sels.push(info);
    }
    let mut outside = vec![];
    for s in OUTSIDE {
        let info = SelInfo::new(s);
        match &info.key {
            LeadKey::Unspec(_) => outside.push(info),
            other => machinery_errors.push(format!("out-of-domain selector {:?} is decided by the reference: {:?}", s, other)),
        }
    }
    // name universe: every key of the alphabet (used both as class and as id), then decoys
    let mut names: Vec<String> = vec![];
    for s in &sels {
        if let Some((_, n, _)) = s.keyed() {
            if !names.iter().any(|x| x == n) {
                names.push(n.to_string());
            }
        }
    }
    for d in DECOY_NAMES {
        if names.iter().any(|x| x == d) {
            machinery_errors.push(format!("decoy name {:?} is a key of the alphabet", d));
        } else {
            names.push(d.to_string());
        }
    }
    let name_subsets = subsets_upto2(&(0..names.len()).collect::<Vec<_>>());
    // exception universe: every selector text, every unescaped spelling, decoys
    let mut exc_texts: Vec<String> = sels.iter().map(|s| s.text.clone()).collect();
    for s in &sels {
        if let Some(u) = s.unescaped_spelling() {
            if !exc_texts.contains(&u) {
                exc_texts.push(u);
            }
        }
    }
    for d in DECOY_EXCEPTIONS {
        if !exc_texts.iter().any(|x| x == d) {
            exc_texts.push(d.to_string());
        }
    }
    let exc_sets = subsets_upto2(&(0..exc_texts.len()).collect::<Vec<_>>())
        .into_iter()
        .map(|v| {
            let set = v.iter().map(|&i| exc_texts[i].clone()).collect::<HashSet<String>>();
            (v, set)
        })
        .collect();
    Universe {
        sels,
        outside,
        names,
        name_subsets,
        exc_texts,
        exc_sets,
        empty_exc: HashSet::new(),
        rejected,
        machinery_errors,
    }
}

// ------------------------------------------------------------------------------------------------
// Subject calls and comparison
// ------------------------------------------------------------------------------------------------

fn build_engine(list: &[&SelInfo], site_exceptions: &[&str]) -> Result<Engine, String> {
    let mut rules: Vec<String> = list.iter().map(|s| format!("##{}", s.text)).collect();
    for x in site_exceptions {
        rules.push(format!("ex.com#@#{}", x));
    }
    let refs: Vec<&str> = rules.iter().map(|s| s.as_str()).collect();
    catch(|| vh::net::engine(&refs, false, false))
}

thread_local! {
    /// the list as loaded into the engine under exploration, when a rule occurs in it more than once
    static LOADED: std::cell::RefCell<Option<Vec<String>>> = const { std::cell::RefCell::new(None) };
}

fn list_json(list: &[&SelInfo]) -> Value {
    if let Some(v) = LOADED.with(|c| c.borrow().clone()) {
        if list.iter().all(|s| v.contains(&s.text)) && v.iter().all(|t| list.iter().any(|s| &s.text == t)) {
            return json!(v);
        }
    }
    json!(list.iter().map(|s| s.text.clone()).collect::<Vec<_>>())
}

fn dedup_list<'a>(list: &[&'a SelInfo]) -> Vec<&'a SelInfo> {
    let mut uniq: Vec<&SelInfo> = vec![];
    for s in list {
        if !uniq.iter().any(|x| x.text == s.text) {
            uniq.push(s);
        }
    }
    uniq
}

fn list_size(list: &[&SelInfo]) -> u64 {
    list.len() as u64 * 100_000 + list.iter().map(|s| s.text.len() as u64).sum::<u64>() * 100
}

/// Records a mismatch; the (expensive) description is only built when it would be kept.
fn report(l: &mut Local, sig: String, size: u64, mk: impl FnOnce() -> (String, Value)) {
    if let Some((n, old)) = l.mismatches.get_mut(&sig) {
        if old.size <= size {
            *n += 1;
            return;
        }
    }
    let (what, case) = mk();
    l.mismatch(Mismatch { sig, what, case, size });
}

#[derive(Default)]
struct Tally {
    queries: u64,
    empty: u64,
    all_returned: u64,
    exception_removed: u64,
    missing: u64,
    spurious: u64,
    foreign: u64,
    duplicates: u64,
    nontrivial: u64,
}

impl Tally {
    fn flush(self, l: &mut Local) {
        l.evaluations += self.queries;
        l.transitions += self.queries;
        l.compared += self.queries;
        l.nontrivial += self.nontrivial;
        let mut add = |k: &str, n: u64| {
            if n > 0 {
                *l.histogram.entry(k.to_string()).or_insert(0) += n;
            }
        };
        add("lookup:nothing-expected-nothing-returned", self.empty);
        add("lookup:every-keyed-candidate-returned", self.all_returned);
        add("lookup:exception-removed-a-candidate", self.exception_removed);
        add("lookup:MISSING-selector", self.missing);
        add("lookup:SPURIOUS-selector", self.spurious);
        add("lookup:FOREIGN-text-returned", self.foreign);
        if self.duplicates > 0 {
            l.count("observation:duplicate_entries_in_lookup_result", self.duplicates);
        }
    }
}

/// Classifier for a selector that was returned without being expected: which single queried name
/// makes the real engine return it, and how that name relates to the selector's key (extra
/// single-name lookups, executed only after a mismatch).
fn responsible(engine: &Engine, s: &SelInfo, classes: &[&str], ids: &[&str], exc: &HashSet<String>) -> String {
    let (kind, key) = match s.keyed() {
        Some((k, n, _)) => (k, n),
        None => return "selector-has-no-key".to_string(),
    };
    let none: [&str; 0] = [];
    for (names, as_kind) in [(classes, Kind::Class), (ids, Kind::Id)] {
        for q in names {
            let one = [*q];
            let r = catch(|| match as_kind {
                Kind::Class => engine.hidden_class_id_selectors(&one, &none, exc),
                Kind::Id => engine.hidden_class_id_selectors(&none, &one, exc),
            })
            .unwrap_or_default();
            if r.iter().any(|g| g == &s.text) {
                let rel = if *q == key {
                    "the-key"
                } else if !q.is_empty() && key.starts_with(q) {
                    "a-proper-prefix-of-the-key"
                } else if q.starts_with(key) {
                    "an-extension-of-the-key"
                } else {
                    "unrelated-to-the-key"
                };
                return format!(
                    "returned-for-{}-name-that-is-{}",
                    if as_kind == kind { "same-kind" } else { "other-kind" },
                    rel
                );
            }
        }
    }
    "returned-only-for-the-combination-of-names".to_string()
}

/// One lookup on the real engine, compared with the reference. `expected_exc` is the exception
/// set the oracle uses (identical to `exc` except in sweep E, where `exc` comes from the engine).
#[allow(clippy::too_many_arguments)]
fn eval_lookup(
    engine: &Engine,
    list: &[&SelInfo],
    classes: &[&str],
    ids: &[&str],
    exc: &HashSet<String>,
    expected_exc: &HashSet<String>,
    sweep: &'static str,
    t: &mut Tally,
    l: &mut Local,
) {
    t.queries += 1;
    let case = |l_: &[&SelInfo]| {
        let mut e: Vec<&String> = expected_exc.iter().collect();
        e.sort();
        json!({"kind":"lookup","sweep":sweep,"list":list_json(l_),"classes":classes,"ids":ids,"exceptions":e})
    };
    let qsize = || {
        list_size(list)
            + (classes.len() + ids.len() + expected_exc.len()) as u64 * 1000
            + classes.iter().chain(ids.iter()).map(|s| s.len() as u64).sum::<u64>()
            + expected_exc.iter().map(|s| s.len() as u64).sum::<u64>()
    };
    let got = match catch(|| engine.hidden_class_id_selectors(classes, ids, exc)) {
        Ok(g) => g,
        Err(loc) => {
            report(l, format!("c17.lookup.panic@{}", loc), qsize(), || {
                (format!("hidden_class_id_selectors panicked at {}", loc), case(list))
            });
            return;
        }
    };
    let mut cand = 0u32;
    let mut expected = 0u32;
    for (j, s) in list.iter().enumerate() {
        if let Some((kind, name, _)) = s.keyed() {
            let present = match kind {
                Kind::Class => classes.contains(&name),
                Kind::Id => ids.contains(&name),
            };
            if present {
                cand |= 1 << j;
                if !expected_exc.contains(&s.text) {
                    expected |= 1 << j;
                }
            }
        }
    }
    let mut gotmask = 0u32;
    let mut foreign: Vec<&String> = vec![];
    for g in &got {
        match list.iter().position(|s| &s.text == g) {
            Some(j) => {
                if gotmask & (1 << j) != 0 {
                    t.duplicates += 1;
                }
                gotmask |= 1 << j;
            }
            None => foreign.push(g),
        }
    }
    if cand != 0 {
        t.nontrivial += 1;
    }
    if gotmask == expected && foreign.is_empty() {
        if cand == 0 {
            t.empty += 1;
        } else if expected == cand {
            t.all_returned += 1;
        } else {
            t.exception_removed += 1;
        }
        return;
    }
    let size = qsize();
    for (j, s) in list.iter().enumerate() {
        let bit = 1u32 << j;
        if expected & bit != 0 && gotmask & bit == 0 {
            t.missing += 1;
            report(l, format!("c17.lookup.missing.{}", s.shape()), size, || {
                (
                    format!(
                        "list {:?}: lookup(classes {:?}, ids {:?}, exceptions {:?}) must return {:?} (leading key {:?}), returned {:?}",
                        list.iter().map(|s| &s.text).collect::<Vec<_>>(), classes, ids, expected_exc, s.text, s.key, got
                    ),
                    case(list),
                )
            });
        }
        if gotmask & bit != 0 && expected & bit == 0 {
            t.spurious += 1;
            let why = if expected_exc.contains(&s.text) && cand & bit != 0 {
                if exc.contains(&s.text) { "excepted-selector-returned".to_string() } else { "exception-not-delivered-by-engine".to_string() }
            } else {
                responsible(engine, s, classes, ids, exc)
            };
            report(l, format!("c17.lookup.spurious.{}.{}", why, s.shape()), size, || {
                (
                    format!(
                        "list {:?}: lookup(classes {:?}, ids {:?}, exceptions {:?}) must not return {:?} (leading key {:?}), returned {:?}",
                        list.iter().map(|s| &s.text).collect::<Vec<_>>(), classes, ids, expected_exc, s.text, s.key, got
                    ),
                    case(list),
                )
            });
        }
    }
    for g in foreign {
        t.foreign += 1;
        let why = match list.iter().find(|s| s.unescaped_spelling().as_deref() == Some(g.as_str())) {
            Some(s) => format!("unescaped-spelling-of.{}", s.shape()),
            None => "text-of-no-rule".to_string(),
        };
        report(l, format!("c17.lookup.foreign.{}", why), size, || {
            (
                format!(
                    "list {:?}: lookup(classes {:?}, ids {:?}, exceptions {:?}) returned {:?}, which is not the text of any rule",
                    list.iter().map(|s| &s.text).collect::<Vec<_>>(), classes, ids, expected_exc, g
                ),
                case(list),
            )
        });
    }
}

fn misc_of(list: &[&SelInfo]) -> BTreeSet<String> {
    list.iter().filter(|s| s.key == LeadKey::NoKey).map(|s| s.text.clone()).collect()
}

fn compare_hide(
    list: &[&SelInfo],
    url: &str,
    got: &HashSet<String>,
    expected: &BTreeSet<String>,
    case: &Value,
    clause: &str,
    l: &mut Local,
) -> bool {
    let got: BTreeSet<String> = got.iter().cloned().collect();
    l.evaluations += 1;
    l.transitions += 1;
    l.compared += 1;
    if &got == expected {
        l.hist(if expected.is_empty() { "site:hide_selectors-empty" } else { "site:hide_selectors=unkeyed-selectors" });
        return true;
    }
    let size = list_size(list) + url.len() as u64;
    for s in expected.difference(&got) {
        l.hist("site:MISSING-selector");
        report(l, format!("c17.{}.missing.unkeyed", clause), size, || {
            (format!("list {:?}: url_cosmetic_resources({:?}).hide_selectors must contain {:?}, got {:?}", list.iter().map(|s| &s.text).collect::<Vec<_>>(), url, s, got), case.clone())
        });
    }
    for g in got.difference(expected) {
        l.hist("site:SPURIOUS-selector");
        let shape = match list.iter().find(|s| &s.text == g) {
            Some(s) => s.shape().to_string(),
            None => match list.iter().find(|s| s.unescaped_spelling().as_deref() == Some(g.as_str())) {
                Some(s) => format!("unescaped-spelling-of.{}", s.shape()),
                None => "text-of-no-rule".to_string(),
            },
        };
        report(l, format!("c17.{}.spurious.{}", clause, shape), size, || {
            (format!("list {:?}: url_cosmetic_resources({:?}).hide_selectors must not contain {:?}, got {:?}", list.iter().map(|s| &s.text).collect::<Vec<_>>(), url, g, got), case.clone())
        });
    }
    false
}

/// Route 2 for every URL, then the partition clause.
fn check_routes(u: &Universe, engine: &Engine, list: &[&SelInfo], l: &mut Local) {
    let case = json!({"kind":"routes","list":list_json(list)});
    let expected_misc = misc_of(list);
    let mut route2: Option<HashSet<String>> = None;
    for url in URLS {
        match catch(|| engine.url_cosmetic_resources(url)) {
            Ok(r) => {
                compare_hide(list, url, &r.hide_selectors, &expected_misc, &case, "site", l);
                if !r.exceptions.is_empty() {
                    report(l, "c17.site.exceptions-without-exception-rule".into(), list_size(list), || {
                        (format!("list {:?}: url_cosmetic_resources({:?}).exceptions = {:?} although the list has no exception rule", list.iter().map(|s| &s.text).collect::<Vec<_>>(), url, r.exceptions), case.clone())
                    });
                }
                if route2.is_none() {
                    route2 = Some(r.hide_selectors);
                }
            }
            Err(loc) => {
                report(l, format!("c17.site.panic@{}", loc), list_size(list), || {
                    (format!("url_cosmetic_resources({:?}) panicked at {}", url, loc), case.clone())
                });
            }
        }
    }
    // partition: saturating lookup (every name of the universe and every key of the list, as
    // class and as id, no exception) vs. route 2
    let mut all: Vec<&str> = u.names.iter().map(|s| s.as_str()).collect();
    for s in list {
        if let Some((_, n, _)) = s.keyed() {
            if !all.contains(&n) {
                all.push(n);
            }
        }
    }
    let sat = match catch(|| engine.hidden_class_id_selectors(&all, &all, &u.empty_exc)) {
        Ok(g) => g,
        Err(loc) => {
            report(l, format!("c17.lookup.panic@{}", loc), list_size(list), || {
                (format!("saturating lookup panicked at {}", loc), case.clone())
            });
            return;
        }
    };
    let route2 = match route2 {
        Some(r) => r,
        None => return,
    };
    for s in list {
        l.evaluations += 1;
        l.compared += 1;
        let r1 = sat.iter().any(|g| g == &s.text);
        let r2 = route2.contains(&s.text);
        match (r1, r2) {
            (true, false) => l.hist("partition:lookup-route-only"),
            (false, true) => l.hist("partition:site-route-only"),
            (false, false) => {
                l.hist("partition:NEITHER-route");
                report(l, format!("c17.partition.neither.{}", s.shape()), list_size(list), || {
                    (format!("list {:?}: {:?} is returned neither by the lookup with every name (incl. its key {:?}) nor in hide_selectors", list.iter().map(|s| &s.text).collect::<Vec<_>>(), s.text, s.key), case.clone())
                });
            }
            (true, true) => {
                l.hist("partition:BOTH-routes");
                report(l, format!("c17.partition.both.{}", s.shape()), list_size(list), || {
                    (format!("list {:?}: {:?} is returned by the lookup and in hide_selectors", list.iter().map(|s| &s.text).collect::<Vec<_>>(), s.text), case.clone())
                });
            }
        }
    }
}

/// Names and exception texts that are relevant to one list (sweep D and E).
fn relative_names<'a>(list: &[&'a SelInfo]) -> Vec<&'a str> {
    let mut v: Vec<&str> = vec![];
    for s in list {
        if let Some((_, n, _)) = s.keyed() {
            if !v.contains(&n) {
                v.push(n);
            }
        }
    }
    v
}

fn relative_exceptions(list: &[&SelInfo], fixed: &[&str]) -> Vec<String> {
    let mut v: Vec<String> = list.iter().map(|s| s.text.clone()).collect();
    for s in list {
        if let Some(u) = s.unescaped_spelling() {
            if !v.contains(&u) {
                v.push(u);
            }
        }
    }
    for f in fixed {
        if !v.iter().any(|x| x == f) {
            v.push(f.to_string());
        }
    }
    v
}

fn explore_list(u: &Universe, list_as_loaded: &[&SelInfo], l: &mut Local) {
    // the engine is built from the list as given (a rule may occur more than once); the reference
    // works on the set of its rules
    let uniq = dedup_list(list_as_loaded);
    LOADED.with(|c| *c.borrow_mut() = if uniq.len() != list_as_loaded.len() { Some(list_as_loaded.iter().map(|s| s.text.clone()).collect()) } else { None });
    let engine = match build_engine(list_as_loaded, &[]) {
        Ok(e) => e,
        Err(loc) => {
            report(l, format!("c17.build.panic@{}", loc), list_size(list_as_loaded), || {
                (format!("engine construction panicked at {}", loc), json!({"kind":"routes","list":list_json(list_as_loaded)}))
            });
            return;
        }
    };
    l.states += 1;
    let list: &[&SelInfo] = &uniq;
    check_routes(u, &engine, list, l);

    let mut t = Tally::default();
    let none: [&str; 0] = [];
    // A / B: every subset of size <= 2 of the name universe, as classes, then as ids
    let mut buf: Vec<&str> = Vec::with_capacity(2);
    for sub in &u.name_subsets {
        buf.clear();
        buf.extend(sub.iter().map(|&i| u.names[i].as_str()));
        eval_lookup(&engine, list, &buf, &none, &u.empty_exc, &u.empty_exc, "A", &mut t, l);
        if !buf.is_empty() {
            eval_lookup(&engine, list, &none, &buf, &u.empty_exc, &u.empty_exc, "B", &mut t, l);
        }
    }
    // C: every exception subset of size <= 2, with the list's keys as classes and as ids
    let rel = relative_names(list);
    for (_, set) in &u.exc_sets {
        eval_lookup(&engine, list, &rel, &rel, set, set, "C", &mut t, l);
    }
    // D: full cross on the list-relative universe
    let rel_subsets = subsets_upto2(&rel);
    let rel_exc = relative_exceptions(list, &[]);
    let rel_exc_sets: Vec<HashSet<String>> = subsets_upto2(&rel_exc)
        .into_iter()
        .map(|v| v.into_iter().collect())
        .collect();
    for x in &rel_exc_sets {
        for c in &rel_subsets {
            for i in &rel_subsets {
                eval_lookup(&engine, list, c, i, x, x, "D", &mut t, l);
            }
        }
    }
    t.flush(l);
}

/// Sweep E: the exception set is produced by the engine (site exception rules).
fn explore_site(list: &[&SelInfo], xs: &[&str], l: &mut Local) {
    let case = json!({"kind":"site","list":list_json(list),"site_exceptions":xs});
    let size = list_size(list) + xs.len() as u64 * 1000 + xs.iter().map(|s| s.len() as u64).sum::<u64>();
    let engine = match build_engine(list, xs) {
        Ok(e) => e,
        Err(loc) => {
            report(l, format!("c17.build.panic@{}", loc), size, || (format!("engine construction panicked at {}", loc), case.clone()));
            return;
        }
    };
    l.states += 1;
    let xset: HashSet<String> = xs.iter().map(|s| s.to_string()).collect();
    let misc = misc_of(list);
    let r = match catch(|| engine.url_cosmetic_resources("https://ex.com/")) {
        Ok(r) => r,
        Err(loc) => {
            report(l, format!("c17.site.panic@{}", loc), size, || (format!("url_cosmetic_resources panicked at {}", loc), case.clone()));
            return;
        }
    };
    l.evaluations += 1;
    l.compared += 1;
    if r.exceptions != xset {
        l.hist("site:EXCEPTION-SET-differs");
        report(l, "c17.siteexc.exception-set-differs-from-rule-texts".into(), size, || {
            (format!("list {:?} + ex.com#@# {:?}: exceptions on ex.com = {:?}", list.iter().map(|s| &s.text).collect::<Vec<_>>(), xs, r.exceptions), case.clone())
        });
    } else {
        l.hist(if xs.is_empty() { "site:no-exceptions" } else { "site:exceptions=rule-texts" });
    }
    let expected_hide: BTreeSet<String> = misc.iter().filter(|s| !xset.contains(*s)).cloned().collect();
    compare_hide(list, "https://ex.com/", &r.hide_selectors, &expected_hide, &case, "siteexc", l);
    if misc.iter().any(|s| xset.contains(s)) {
        l.nontrivial += 1;
    }
    match catch(|| engine.url_cosmetic_resources("https://other.org/")) {
        Ok(r2) => {
            compare_hide(list, "https://other.org/", &r2.hide_selectors, &misc, &case, "siteexc-other-site", l);
            if !r2.exceptions.is_empty() {
                report(l, "c17.siteexc.exceptions-leak-to-other-site".into(), size, || {
                    (format!("exceptions on other.org = {:?}", r2.exceptions), case.clone())
                });
            }
        }
        Err(loc) => report(l, format!("c17.site.panic@{}", loc), size, || (format!("url_cosmetic_resources panicked at {}", loc), case.clone())),
    }
    let rel = relative_names(list);
    let mut t = Tally::default();
    eval_lookup(&engine, list, &rel, &rel, &r.exceptions, &xset, "E", &mut t, l);
    let none: [&str; 0] = [];
    eval_lookup(&engine, list, &rel, &none, &r.exceptions, &xset, "E", &mut t, l);
    eval_lookup(&engine, list, &none, &rel, &r.exceptions, &xset, "E", &mut t, l);
    t.flush(l);
}

/// Out-of-domain selectors: executed, must not panic, nothing compared.
fn explore_outside(u: &Universe, list: &[&SelInfo], l: &mut Local) -> Option<String> {
    let engine = match build_engine(list, &[]) {
        Ok(e) => e,
        Err(loc) => {
            report(l, format!("c17.build.panic@{}", loc), list_size(list), || {
                (format!("engine construction panicked at {}", loc), json!({"kind":"outside","list":list_json(list)}))
            });
            return None;
        }
    };
    l.states += 1;
    let case = json!({"kind":"outside","list":list_json(list)});
    let mut all: Vec<String> = u.names.clone();
    // plausible keys of the garbage selector: every prefix of its text after the sigil
    let g = &list[0].text;
    let body: Vec<char> = g.chars().skip(1).collect();
    for n in 1..=body.len() {
        let p: String = body[..n].iter().collect();
        let q = p.replace('\\', "");
        for cand in [p, q] {
            if !all.contains(&cand) {
                all.push(cand);
            }
        }
    }
    let mut behaviour = "returned for no probed name and absent from hide_selectors".to_string();
    for n in &all {
        for as_class in [true, false] {
            l.evaluations += 1;
            l.transitions += 1;
            l.unspecified += 1;
            let c: Vec<&str> = if as_class { vec![n.as_str()] } else { vec![] };
            let i: Vec<&str> = if as_class { vec![] } else { vec![n.as_str()] };
            match catch(|| engine.hidden_class_id_selectors(&c, &i, &u.empty_exc)) {
                Ok(r) => {
                    if r.iter().any(|x| x == g) {
                        behaviour = format!("keyed under {} {:?}", if as_class { "class" } else { "id" }, n);
                    }
                }
                Err(loc) => report(l, format!("c17.lookup.panic@{}", loc), list_size(list), || {
                    (format!("lookup panicked at {} with an out-of-domain rule present", loc), case.clone())
                }),
            }
        }
    }
    l.evaluations += 1;
    l.unspecified += 1;
    match catch(|| engine.url_cosmetic_resources(URLS[0])) {
        Ok(r) => {
            if r.hide_selectors.contains(g) {
                behaviour = "per-site route".to_string();
            }
        }
        Err(loc) => report(l, format!("c17.site.panic@{}", loc), list_size(list), || {
            (format!("url_cosmetic_resources panicked at {} with an out-of-domain rule present", loc), case.clone())
        }),
    }
    l.hist("outside-domain:executed-without-panic");
    Some(behaviour)
}

// ------------------------------------------------------------------------------------------------
// Replay
// ------------------------------------------------------------------------------------------------

fn strs(v: &Value) -> Vec<String> {
    v.as_array()
        .map(|a| a.iter().filter_map(|x| x.as_str().map(|s| s.to_string())).collect())
        .unwrap_or_default()
}

fn replay(case: &Value, l: &mut Local) {
    let u = build_universe();
    let infos: Vec<SelInfo> = strs(&case["list"]).iter().map(|s| SelInfo::new(s)).collect();
    let list: Vec<&SelInfo> = infos.iter().collect();
    let kind = case["kind"].as_str().unwrap_or("lookup");
    if kind == "outside" {
        if !list.is_empty() {
            explore_outside(&u, &list, l);
        }
        return;
    }
    // the oracle only speaks about in-domain lists that the parser accepts
    if list.len() > 16
        || list.iter().any(|s| matches!(s.key, LeadKey::Unspec(_)) || s.text.trim() != s.text || !accepted_as_generic_hide(&s.text))
    {
        l.unspecified += 1;
        return;
    }
    match kind {
        "routes" => {
            if let Ok(engine) = build_engine(&list, &[]) {
                check_routes(&u, &engine, &dedup_list(&list), l);
            }
        }
        "site" => {
            let xs = strs(&case["site_exceptions"]);
            if xs.iter().any(|x| !accepted_as_site_exception(x)) {
                l.unspecified += 1;
                return;
            }
            let xr: Vec<&str> = xs.iter().map(|s| s.as_str()).collect();
            explore_site(&list, &xr, l);
        }
        _ => {
            let classes = strs(&case["classes"]);
            let ids = strs(&case["ids"]);
            let exc: HashSet<String> = strs(&case["exceptions"]).into_iter().collect();
            let c: Vec<&str> = classes.iter().map(|s| s.as_str()).collect();
            let i: Vec<&str> = ids.iter().map(|s| s.as_str()).collect();
            let mut t = Tally::default();
            if case["sweep"].as_str() == Some("E") {
                // exceptions delivered by the engine
                let xs: Vec<&str> = exc.iter().map(|s| s.as_str()).collect();
                if xs.iter().any(|x| !accepted_as_site_exception(x)) {
                    l.unspecified += 1;
                    return;
                }
                if let Ok(engine) = build_engine(&list, &xs) {
                    if let Ok(r) = catch(|| engine.url_cosmetic_resources("https://ex.com/")) {
                        eval_lookup(&engine, &list, &c, &i, &r.exceptions, &exc, "E", &mut t, l);
                    }
                }
            } else if let Ok(engine) = build_engine(&list, &[]) {
                eval_lookup(&engine, &dedup_list(&list), &c, &i, &exc, &exc, "replay", &mut t, l);
            }
            t.flush(l);
        }
    }
}

// ------------------------------------------------------------------------------------------------
// Check
// ------------------------------------------------------------------------------------------------

fn check(ctx: &Ctx) -> i32 {
    let u = build_universe();
    for e in &u.machinery_errors {
        eprintln!("machinery: {}", e);
    }
    if !u.machinery_errors.is_empty() {
        return 3;
    }
    if !u.rejected.is_empty() {
        ctx.note(format!("alphabet selectors not accepted by the rule parser as `##sel` (excluded; parsing is C11/C16): {:?}", u.rejected));
    }
    for x in SITE_FIXED_EXCEPTIONS {
        if !accepted_as_site_exception(x) {
            eprintln!("machinery: fixed site exception {:?} is not accepted by the parser", x);
            return 3;
        }
    }
    let n = u.sels.len();
    let k: usize = ctx.tier.pick(3, 4);
    let k_site: usize = ctx.tier.pick(2, 3);
    let combos = combos_upto(n, k);
    let site_combos = combos_upto(n, k_site);
    ctx.bound("alphabet_selectors", json!(u.sels.iter().map(|s| s.text.clone()).collect::<Vec<_>>()));
    ctx.bound("alphabet_size", n);
    ctx.bound("list_max_size", k);
    ctx.bound("lists", combos.len());
    ctx.bound("name_universe", json!(u.names));
    ctx.bound("name_subsets_upto2", u.name_subsets.len());
    ctx.bound("exception_universe", json!(u.exc_texts));
    ctx.bound("exception_subsets_upto2", u.exc_sets.len());
    ctx.bound("site_sweep_list_max_size", k_site);
    ctx.bound("site_sweep_lists", site_combos.len());
    ctx.bound("urls", json!(URLS));
    ctx.bound("outside_domain_selectors", json!(u.outside.iter().map(|s| s.text.clone()).collect::<Vec<_>>()));
    ctx.bound("lookup_result_compared_as", "set");

    // (no hash-collision precondition: class / id names and selectors are compared as strings;
    // seahash is only applied to the fixed hostnames `ex.com` / `other.org` of sweep E)
    ctx.par_range("lists", combos.len() as u64, 8, |i, l| {
        let combo = &combos[i as usize];
        let list: Vec<&SelInfo> = combo.slice().iter().map(|&j| &u.sels[j as usize]).collect();
        if l.samples.len() < 3 && combo.len >= 2 && (i + ctx.seed) % 7919 == 0 {
            let rel = relative_names(&list);
            l.samples.push(json!({
                "list": list_json(&list),
                "reference_keys": list.iter().map(|s| format!("{:?}", s.key)).collect::<Vec<_>>(),
                "sample_query": {"classes": rel, "ids": [], "exceptions": []},
                "expected": list.iter().filter(|s| matches!(s.keyed(), Some((Kind::Class, _, _)))).map(|s| s.text.clone()).collect::<Vec<_>>(),
                "expected_hide_selectors": misc_of(&list),
            }));
        }
        explore_list(&u, &list, l);
    });

    // the same rule more than once in a list (several lists ship the same rule): [A,B,A], [A,B,B],
    // [A,A,B] for every ordered pair of selectors; the expected answers are those of {A,B}
    ctx.bound("repeated_rule_lists", (n * n * 3) as u64);
    ctx.par_range("repeated-rules", (n * n * 3) as u64, 8, |i, l| {
        let (a, b, shape) = ((i as usize / 3) / n, (i as usize / 3) % n, i % 3);
        if a == b {
            return;
        }
        let (sa, sb) = (&u.sels[a], &u.sels[b]);
        let list: Vec<&SelInfo> = match shape {
            0 => vec![sa, sb, sa],
            1 => vec![sa, sb, sb],
            _ => vec![sa, sa, sb],
        };
        explore_list(&u, &list, l);
    });

    ctx.par_range("site-exceptions", site_combos.len() as u64, 8, |i, l| {
        let combo = &site_combos[i as usize];
        let list: Vec<&SelInfo> = combo.slice().iter().map(|&j| &u.sels[j as usize]).collect();
        let rel_exc: Vec<String> = relative_exceptions(&list, SITE_FIXED_EXCEPTIONS)
            .into_iter()
            .filter(|x| accepted_as_site_exception(x))
            .collect();
        for xs in subsets_upto2(&rel_exc) {
            let xr: Vec<&str> = xs.iter().map(|s| s.as_str()).collect();
            explore_site(&list, &xr, l);
        }
    });

    // out-of-domain selectors: alone, and next to every in-domain selector
    let n_out = u.outside.len() as u64;
    let observations = std::sync::Mutex::new(Vec::<String>::new());
    ctx.par_range("outside-domain", n_out * (n as u64 + 1), 4, |i, l| {
        let g = &u.outside[(i % n_out) as usize];
        let other = (i / n_out) as usize;
        let mut list: Vec<&SelInfo> = vec![g];
        if other > 0 {
            list.push(&u.sels[other - 1]);
        }
        if !accepted_as_generic_hide(&g.text) {
            l.hist("outside-domain:rejected-by-parser");
            if other == 0 {
                observations.lock().unwrap().push(format!("{:?} ({}): rejected by the rule parser", g.text, g.shape()));
            }
            return;
        }
        if let Some(b) = explore_outside(&u, &list, l) {
            if other == 0 {
                observations.lock().unwrap().push(format!("{:?} ({}): {}", g.text, g.shape(), b));
            }
        }
    });
    let mut obs = observations.into_inner().unwrap();
    obs.sort();
    ctx.note(format!("observations on out-of-domain selectors (not compared): {}", obs.join("; ")));

    ctx.finish(
        "model_checking",
        "every subset of size <= k of the selector alphabet as a list of generic hide rules `##sel` (one real Engine each); per engine: hide_selectors of url_cosmetic_resources for 4 URLs = the selectors without leading class/id key; partition (saturating lookup vs hide_selectors, per selector); lookups with every subset of size <= 2 of the name universe as classes (A) and as ids (B), every subset of size <= 2 of the exception universe with the list's keys as classes and ids (C), the full cross classes x ids x exceptions (each a subset of size <= 2) of the list's own keys / selectors / unescaped spellings (D); for lists of size <= k_site additionally every subset of size <= 2 of list-relative `ex.com#@#sel` rules with the engine's own `exceptions` handed to the lookup (E). Lookup results compared as sets with the reference (leading key = CSS-unescape of the maximal leading [#.]ident). A lookup is non-trivial when at least one rule of the list is keyed by a queried name; states = engines built, transitions = lookups / url queries executed, traces_validated = cases compared with the reference.",
        &[
            "rule parsing is a precondition: every alphabet selector is checked at start-up to be accepted as `##sel` with plain selector == sel (css-validation feature off)",
            "lists are sets of distinct selectors given in alphabet order; results are compared as sets, so list order and duplicate entries are not observed (duplicates are counted as an observation)",
            "hex escapes without terminating space, with more than 6 digits, of zero / surrogates / > U+10FFFF, identifiers starting with a digit, empty identifiers, trailing backslash, and non-ASCII code points that are identifier code points in only one level of CSS Syntax: Unspecified (executed, must not panic)",
            "exception texts are compared as selector texts (the property says 'any selector in the exception set'); a different spelling of the same element set is a different selector",
        ],
    )
}

fn main() {
    run_main("C17", check, replay)
}
