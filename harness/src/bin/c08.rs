//! C08 — a deserialized engine behaves identically to the engine that was serialized.
//! BX, differential: every ordered list of <= k rules of an alphabet that contains every rule shape
//! (network and cosmetic) x debug x optimise x list permission; `serialize_raw` -> `deserialize`
//! into three kinds of loader; a fixed battery of network / CSP / cosmetic / class-id queries is
//! put to the original and to every loader under every subset of the tags the list uses, and the
//! answers are compared field by field. DESIGN §4 C08.

use adblock::lists::{FilterFormat, FilterSet, ParseOptions};
use adblock::request::Request;
use adblock::resources::{MimeType, PermissionMask, Resource, ResourceType};
use adblock::Engine;
use serde_json::{json, Value};
use std::collections::{BTreeSet, HashSet};
use vh::util::{catch, count_arrangements_upto, nth_arrangement, subsets_of};
use vh::{run_main, Ctx, Local, Mismatch};

// ------------------------------------------------------------------------------------------------
// Rule alphabet R_all (shared with c09.rs; each check is one file, so the text is duplicated there)
// ------------------------------------------------------------------------------------------------

#[derive(Clone, Copy, PartialEq, Eq, Debug)]
enum Fm {
    Std,
    Hosts,
}

/// Ordered simplest-first inside each family. Every entry is verified at start-up to be accepted
/// by the real parser (a rejected entry is a machinery failure, not a verdict).
const R_ALL: &[(&str, Fm)] = &[
    // --- network: pattern shapes
    ("ads/foo/bar", Fm::Std),
    ("/foo/bar", Fm::Std),
    ("bar", Fm::Std),
    ("|https://ads.net/", Fm::Std),
    ("/bar|", Fm::Std),
    ("||ads.net^", Fm::Std),
    ("||ads.net/foo", Fm::Std),
    ("||ads.net*bar", Fm::Std),
    ("||ads.net^foo", Fm::Std),
    ("||ads*.net^", Fm::Std),
    ("foo*bar", Fm::Std),
    ("ad*/bar", Fm::Std),
    ("ads^foo", Fm::Std),
    ("bar^", Fm::Std),
    ("*/foo/*", Fm::Std),
    ("/fo+\\/bar/", Fm::Std),
    // a second full-regex rule with the same options: the two are fused by the optimiser (a fused
    // rule of full regexes is a shape of its own in the format)
    ("/ad[sx]\\/fo+/", Fm::Std),
    ("/Fo+\\/bar/$match-case", Fm::Std),
    ("http", Fm::Std),
    ("https://www.", Fm::Std),
    ("|http://", Fm::Std),
    ("|ws://", Fm::Std),
    ("||b\u{fc}cher.example^", Fm::Std),
    // --- network: options
    ("foo$domain=example.com", Fm::Std),
    ("*$domain=example.com|tracker.co.uk", Fm::Std),
    ("bar$domain=~example.com", Fm::Std),
    ("/foo$xmlhttprequest,domain=example.com|~sub.example.com", Fm::Std),
    ("foo$third-party", Fm::Std),
    ("bar$~third-party,script", Fm::Std),
    ("ads$image", Fm::Std),
    ("/bar$~image", Fm::Std),
    ("||ads.net^$document", Fm::Std),
    // --- exception / important / tag
    ("@@ads/foo/bar", Fm::Std),
    ("@@||ads.net^$script", Fm::Std),
    ("ads/foo/bar$important", Fm::Std),
    ("||ads.net^$important,image", Fm::Std),
    ("foo$tag=t1", Fm::Std),
    ("bar$tag=t2", Fm::Std),
    ("bar$tag=t1", Fm::Std),
    ("@@foo$tag=t2", Fm::Std),
    ("bar$tag=t1,important", Fm::Std),
    // twins that a structural rule id cannot tell apart (tag only / sign of the domain list only)
    ("@@foo$tag=t1", Fm::Std),
    ("/foo/bar$tag=t1,domain=example.com|tracker.co.uk", Fm::Std),
    ("/foo/bar$tag=t1,domain=~example.com|~tracker.co.uk", Fm::Std),
    // the same in a category whose list is kept apart from the plain tagged rules: important rules
    // (and exceptions) with an initiator domain that differ in their tag only
    ("bar$important,domain=example.com,tag=t1", Fm::Std),
    ("bar$important,domain=example.com,tag=t2", Fm::Std),
    // a token-less rule filed under two initiator domains next to one filed under one of them: both
    // match the same request, so the rule reported (debug) depends on the order inside the bucket
    ("bar$script,domain=example.com|tracker.co.uk", Fm::Std),
    ("bar$script,domain=example.com", Fm::Std),
    ("foo$image,domain=example.com|ads.net", Fm::Std),
    ("foo$image,domain=example.com", Fm::Std),
    ("@@bar$domain=example.com,tag=t1", Fm::Std),
    ("@@bar$domain=example.com,tag=t2", Fm::Std),
    // --- redirect / redirect-rule
    ("||ads.net^$redirect=a", Fm::Std),
    ("foo$redirect-rule=b", Fm::Std),
    ("@@foo$redirect-rule=b", Fm::Std),
    ("bar$redirect=a-alias:5", Fm::Std),
    ("/foo$redirect=missing", Fm::Std),
    ("||ads.net^$tag=t2,redirect=a", Fm::Std),
    // --- csp
    ("||example.com^$csp=script-src 'none'", Fm::Std),
    ("||example.com^$csp=img-src 'self'", Fm::Std),
    ("@@||example.com^$csp", Fm::Std),
    ("@@||example.com^$csp=script-src 'none'", Fm::Std),
    ("||sub.example.com^$csp=default-src 'none',tag=t1", Fm::Std),
    // --- badfilter / generichide / removeparam
    ("ads/foo/bar$badfilter", Fm::Std),
    ("||ads.net^$badfilter", Fm::Std),
    ("@@||example.com^$generichide", Fm::Std),
    ("@@||b.tracker.co.uk^$generichide", Fm::Std),
    ("$removeparam=utm", Fm::Std),
    ("||example.com^$removeparam=x", Fm::Std),
    // two generic removeparam rules whose one-letter names give them no token: same bucket, same
    // mask - fusable if anything ever optimised this list (nothing may)
    ("$removeparam=b", Fm::Std),
    ("$removeparam=x", Fm::Std),
    // --- hosts format
    ("0.0.0.0 hosts.ads.net", Fm::Hosts),
    ("tracker.co.uk", Fm::Hosts),
    // --- cosmetic: specific
    ("example.com##.ad-box", Fm::Std),
    ("example.com#@#.ad-box", Fm::Std),
    ("example.com#@#.gen-class", Fm::Std),
    ("example.com##.styled:style(color: red)", Fm::Std),
    ("example.com#@#.styled:style(color: red)", Fm::Std),
    ("example.com##.rm:remove()", Fm::Std),
    ("example.com##.rma:remove-attr(href)", Fm::Std),
    ("example.com##div:has-text(Sponsored)", Fm::Std),
    ("example.com##.up:upward(2)", Fm::Std),
    ("example.com##+js(sl0)", Fm::Std),
    ("example.com##+js(sl1, alpha)", Fm::Std),
    ("example.com,ads.net##+js(sl2, alpha, \"be, ta\")", Fm::Std),
    ("example.com##+js(permlet)", Fm::Std),
    // the same gated scriptlet for the same host once more (two lists may carry it under different
    // permissions: the host's bin then holds the text twice, with two masks)
    ("example.com,ads.net##+js(permlet)", Fm::Std),
    ("example.com#@#+js()", Fm::Std),
    ("sub.example.com#@#+js(sl1, alpha)", Fm::Std),
    ("example.*##.entity-ad", Fm::Std),
    ("~example.com##.neg-ad", Fm::Std),
    ("tracker.co.uk,~b.tracker.co.uk##.mixed", Fm::Std),
    ("b\u{fc}cher.example##.idn-ad", Fm::Std),
    // --- cosmetic: generic
    ("##.gen-class", Fm::Std),
    ("###gen-id", Fm::Std),
    ("##.gen-class > .child", Fm::Std),
    ("###gen-id div", Fm::Std),
    ("##.a\\:b", Fm::Std),
    ("##a[href=\"https://bad.example/\"]", Fm::Std),
    ("##div.misc", Fm::Std),
    ("example.com#@#.gen-class > .child", Fm::Std),
];

const ALL_TAGS: [&str; 2] = ["t1", "t2"];

const CLASSES: [&str; 14] = [
    "ad-box", "gen-class", "styled", "rm", "rma", "up", "entity-ad", "neg-ad", "mixed", "idn-ad", "child", "a:b", "misc", "absent",
];
const IDS: [&str; 2] = ["gen-id", "absent"];

/// Rules the loader of kind (c) holds before it loads the buffer; chosen so that a rule that
/// survived the load would change many answers of the battery.
const OTHER_RULES: [&str; 8] = [
    "/x$important",
    "@@||ads.net^",
    "||unrelated.org^",
    "bar$tag=zz",
    "||example.com^$csp=frame-src 'none'",
    "##.leak-generic",
    "example.com##.leak-specific",
    "example.com##+js(sl0, leak)",
];

/// Rules that are accepted but change no answer on the current tree (kept in the alphabet: they
/// still travel through the format, and become visible when the engine starts honouring them).
///  - `$tag` + `$important`: `importants` is probed with the empty tag set (DESIGN §6 D10)
///  - `$tag` + `$redirect`: marked unsupported in Blocker::new; both halves are probed with the empty tag set
const INERT_TODAY: [&str; 2] = ["bar$tag=t1,important", "||ads.net^$tag=t2,redirect=a"];

/// Sensitivity self-test: (rule, the same rule as it would behave if one wire field were dropped
/// or altered, context rule). The battery must tell every pair apart, otherwise a loader that
/// loses that field would pass unnoticed. Checked at start-up (machinery, not a verdict).
const FIELD_MUTANTS: [(&str, &str, &str); 27] = [
    ("bar$domain=~example.com", "bar", ""),                                  // opt_not_domains
    ("foo$domain=example.com", "foo", ""),                                   // opt_domains
    ("*$domain=example.com|tracker.co.uk", "*$domain=example.com", ""),      // second domain hash
    ("foo$third-party", "foo", ""),                                          // FIRST_PARTY bit
    ("bar$~third-party,script", "bar$script", ""),                           // THIRD_PARTY bit
    ("bar$~third-party,script", "bar$~third-party", ""),                     // type bits
    ("ads$image", "ads", ""),
    ("/bar$~image", "/bar", ""),
    ("||ads.net^$document", "||ads.net^$script", ""),                        // FROM_DOCUMENT
    ("||ads.net^$redirect=a", "||ads.net^$redirect=b", ""),                  // modifier value
    ("||ads.net^$redirect=a", "||ads.net^", ""),                             // IS_REDIRECT
    ("foo$redirect-rule=b", "foo$redirect=b", ""),                           // ALSO_BLOCK_REDIRECT
    ("bar$redirect=a-alias:5", "bar$redirect=a-alias", "bar$redirect=b:3"),  // priority suffix
    ("||example.com^$csp=script-src 'none'", "||example.com^$csp=img-src 'self'", ""),
    ("@@||example.com^$csp=script-src 'none'", "@@||example.com^$csp", "||example.com^$csp=img-src 'self'"),
    ("foo$tag=t1", "foo$tag=t2", ""),                                        // tag text
    ("/Fo+\\/bar/$match-case", "/Fo+\\/bar/", ""),                           // MATCH_CASE
    ("||ads.net/foo", "||a.ads.net/foo", ""),                                // hostname
    ("/bar|", "/bar", ""),                                                   // right anchor
    ("|https://ads.net/", "https://ads.net/", ""),                           // left anchor
    ("ads/foo/bar$important", "ads/foo/bar", ""),                           // IS_IMPORTANT
    ("example.com##.ad-box", "sub.example.com##.ad-box", ""),                // host hash
    ("example.*##.entity-ad", "example.com##.entity-ad", ""),                // entity hash
    ("example.com##.styled:style(color: red)", "example.com##.styled:style(color: blue)", ""),
    ("example.com##+js(sl1, alpha)", "example.com##+js(sl1, beta)", ""),
    ("##.gen-class > .child", "##.gen-class > .other", ""),
    ("example.com##.rma:remove-attr(href)", "example.com##.rma:remove-attr(src)", ""),
];

type RuleRef = (String, Fm);

fn rule_tags(rules: &[RuleRef]) -> Vec<&'static str> {
    ALL_TAGS
        .iter()
        .copied()
        .filter(|t| rules.iter().any(|(r, _)| r.contains(&format!("tag={}", t))))
        .collect()
}

fn is_removeparam(r: &str) -> bool {
    r.contains("$removeparam") || r.contains(",removeparam")
}

fn is_scriptlet_inject(r: &str) -> bool {
    r.contains("##+js(")
}

fn resources() -> Vec<Resource> {
    let mut v = vh::net::std_resources();
    v.push(vh::net::resource("sl0.js", &[], ResourceType::Template, "sl0body()", &[], 0));
    v.push(vh::net::resource("sl1.js", &["sl1-alias.js"], ResourceType::Template, "sl1body('{{1}}')", &[], 0));
    v.push(vh::net::resource(
        "sl2.js",
        &[],
        ResourceType::Mime(MimeType::ApplicationJavascript),
        "function sl2fn(a, b) { fn(); }",
        &["fn"],
        0,
    ));
    v.push(vh::net::resource("permlet.js", &[], ResourceType::Template, "permbody()", &[], 1));
    v
}

#[derive(Clone, Copy, Debug, PartialEq, Eq)]
struct Cfg {
    debug: bool,
    optimize: bool,
    perm: u8,
}

const CFGS: [Cfg; 10] = [
    Cfg { debug: false, optimize: false, perm: 0 },
    Cfg { debug: true, optimize: false, perm: 0 },
    Cfg { debug: false, optimize: true, perm: 0 },
    Cfg { debug: true, optimize: true, perm: 0 },
    Cfg { debug: false, optimize: false, perm: 1 },
    Cfg { debug: true, optimize: false, perm: 1 },
    Cfg { debug: false, optimize: true, perm: 1 },
    Cfg { debug: true, optimize: true, perm: 1 },
    // two lists with different permissions in one engine: 0x80 = rules at even positions are
    // parsed with permission 1 and the others with 0; 0x81 = the other way round
    Cfg { debug: false, optimize: true, perm: 0x80 },
    Cfg { debug: false, optimize: true, perm: 0x81 },
];

fn filter_set(rules: &[RuleRef], debug: bool, perm: u8) -> (FilterSet, usize) {
    let mut fs = FilterSet::new(debug);
    let mut accepted = 0;
    for (i, (text, fm)) in rules.iter().enumerate() {
        let rule_perm = match perm {
            0x80 => (1 - i % 2) as u8,
            0x81 => (i % 2) as u8,
            p => p,
        };
        let opts = ParseOptions {
            format: match fm {
                Fm::Std => FilterFormat::Standard,
                Fm::Hosts => FilterFormat::Hosts,
            },
            permissions: PermissionMask::from_bits(rule_perm),
            ..ParseOptions::default()
        };
        if fs.add_filter(text, opts).is_ok() {
            accepted += 1;
        }
    }
    (fs, accepted)
}

/// A real engine for the list, regex discard policy "never", the standard resources loaded.
fn build(rules: &[RuleRef], debug: bool, optimize: bool, perm: u8) -> Result<Engine, String> {
    catch(|| {
        let (fs, _) = filter_set(rules, debug, perm);
        let mut e = vh::net::engine_from_set(fs, optimize);
        e.use_resources(resources());
        e
    })
}

// ------------------------------------------------------------------------------------------------
// Query battery
// ------------------------------------------------------------------------------------------------

struct Battery {
    /// (request, url, source, type)
    net: Vec<(Request, String, String, String)>,
    /// indices into `net` of the document / subdocument requests used for the CSP query
    csp: Vec<usize>,
    cos: Vec<String>,
    /// (classes, ids, which exception set: 0 = none, 1 = every selector of the alphabet,
    /// 2 = the exceptions the original reports for https://example.com/)
    sel: Vec<(Vec<&'static str>, Vec<&'static str>, u8)>,
    all_selectors: HashSet<String>,
}

fn battery() -> Battery {
    let hosts = [
        "ads.net",
        "a.ads.net",
        "adsx.net",
        "example.com",
        "sub.example.com",
        "tracker.co.uk",
        "b.tracker.co.uk",
        "hosts.ads.net",
        "xn--bcher-kva.example",
    ];
    let paths = [
        "/",
        "/ads/foo/bar",
        "/foo/bar",
        "/bar",
        "/loads/foo/bar?x=1&utm=2",
        "/Foo/bar",
        "/foo?utm=1&b=2",
        "/x?x=1",
    ];
    let sources = [
        "https://example.com/page",
        "https://sub.example.com/",
        "https://ads.net/",
        "https://unrelated.org/",
        "https://b.tracker.co.uk/",
    ];
    let types = ["script", "image", "document", "xmlhttprequest"];
    let mut urls: Vec<String> = vec![];
    for (hi, h) in hosts.iter().enumerate() {
        for (pi, p) in paths.iter().enumerate() {
            // 72 combinations; every 6th one uses plain http so that scheme rules see both
            let scheme = if (hi * paths.len() + pi) % 6 == 5 { "http" } else { "https" };
            urls.push(format!("{}://{}{}", scheme, h, p));
        }
    }
    urls.truncate(72);
    let mut net = vec![];
    let mut csp = vec![];
    for (i, u) in urls.iter().enumerate() {
        for (j, t) in types.iter().enumerate() {
            let s = sources[(i + j) % sources.len()];
            let r = Request::new(u, s, t).expect("battery URL must parse");
            net.push((r, u.clone(), s.to_string(), t.to_string()));
            if *t == "document" {
                csp.push(net.len() - 1);
            }
        }
    }
    for (u, t) in [
        ("ws://ads.net/foo/bar", "websocket"),
        ("wss://example.com/bar", "websocket"),
        ("https://sub.example.com/frame", "subdocument"),
        ("https://example.com/frame?x=1&utm=1", "subdocument"),
        ("https://www.example.com/http", "script"),
        ("https://b\u{fc}cher.example/bar", "script"),
        ("https://unrelated.org/r?u=https://ads.net/", "script"),
    ] {
        let s = "https://example.com/page";
        let r = Request::new(u, s, t).expect("battery URL must parse");
        net.push((r, u.to_string(), s.to_string(), t.to_string()));
        if t == "subdocument" {
            csp.push(net.len() - 1);
        }
    }
    let cos = [
        "https://example.com/",
        "https://sub.example.com/page",
        "https://deep.sub.example.com/",
        "https://example.org/",
        "https://tracker.co.uk/",
        "https://b.tracker.co.uk/",
        "https://ads.net/",
        "https://xn--bcher-kva.example/",
        "https://b\u{fc}cher.example/",
        "https://unrelated.org/",
    ]
    .iter()
    .map(|s| s.to_string())
    .collect();
    let mut sel = vec![];
    for exc in 0..3u8 {
        sel.push((CLASSES.to_vec(), IDS.to_vec(), exc));
    }
    for c in CLASSES {
        sel.push((vec![c], vec![], 0));
    }
    for i in IDS {
        sel.push((vec![], vec![i], 0));
    }
    let mut all_selectors = HashSet::new();
    for (r, _) in R_ALL {
        if let Some(p) = r.find("##").or_else(|| r.find("#@#")) {
            let s = r[p..].trim_start_matches("#@#").trim_start_matches("##");
            all_selectors.insert(s.to_string());
        }
    }
    Battery { net, csp, cos, sel, all_selectors }
}

#[derive(Clone, Debug, PartialEq, Eq)]
enum Ans {
    Panic(String),
    Net {
        matched: bool,
        important: bool,
        redirect: Option<String>,
        rewritten: Option<String>,
        exception: Option<String>,
        filter: Option<String>,
    },
    Csp(Option<BTreeSet<String>>),
    Cos {
        hide: BTreeSet<String>,
        procedural: BTreeSet<String>,
        exceptions: BTreeSet<String>,
        generichide: bool,
        /// multiset of `try { .. } catch` blocks
        script_blocks: Vec<String>,
        /// multiset of the lines before / between the blocks (dependency bodies)
        script_deps: Vec<String>,
    },
    Sel(Vec<String>),
}

#[derive(Clone, Copy, Debug, PartialEq, Eq)]
enum Q {
    Net(usize),
    Csp(usize),
    Cos(usize),
    Sel(usize),
}

fn split_script(s: &str) -> (Vec<String>, Vec<String>) {
    let mut blocks = vec![];
    let mut deps = vec![];
    let lines: Vec<&str> = s.lines().collect();
    let mut i = 0;
    while i < lines.len() {
        if lines[i] == "try {" {
            let mut j = i + 1;
            let mut b = String::new();
            while j < lines.len() && lines[j] != "} catch ( e ) { }" {
                b.push_str(lines[j]);
                b.push('\n');
                j += 1;
            }
            blocks.push(b);
            i = j + 1;
        } else {
            deps.push(lines[i].to_string());
            i += 1;
        }
    }
    blocks.sort();
    deps.sort();
    (blocks, deps)
}

fn ask(e: &Engine, q: Q, bat: &Battery, dyn_exc: &HashSet<String>) -> Ans {
    let r = catch(|| match q {
        Q::Net(i) => {
            let r = e.check_network_request(&bat.net[i].0);
            Ans::Net {
                matched: r.matched,
                important: r.important,
                redirect: r.redirect,
                rewritten: r.rewritten_url,
                exception: r.exception,
                filter: r.filter,
            }
        }
        Q::Csp(i) => Ans::Csp(vh::net::csp_set(&e.get_csp_directives(&bat.net[bat.csp[i]].0))),
        Q::Cos(i) => {
            let r = e.url_cosmetic_resources(&bat.cos[i]);
            let (script_blocks, script_deps) = split_script(&r.injected_script);
            Ans::Cos {
                hide: r.hide_selectors.into_iter().collect(),
                procedural: r.procedural_actions.into_iter().collect(),
                exceptions: r.exceptions.into_iter().collect(),
                generichide: r.generichide,
                script_blocks,
                script_deps,
            }
        }
        Q::Sel(i) => {
            let (c, d, which) = &bat.sel[i];
            let none = HashSet::new();
            let exc = match which {
                0 => &none,
                1 => &bat.all_selectors,
                _ => dyn_exc,
            };
            let mut v = e.hidden_class_id_selectors(c.iter(), d.iter(), exc);
            v.sort();
            Ans::Sel(v)
        }
    });
    match r {
        Ok(a) => a,
        Err(loc) => Ans::Panic(loc),
    }
}

fn queries(bat: &Battery) -> Vec<Q> {
    let mut v = vec![];
    // the cosmetic query for https://example.com/ comes first: its exceptions feed the Sel queries
    v.extend((0..bat.cos.len()).map(Q::Cos));
    v.extend((0..bat.net.len()).map(Q::Net));
    v.extend((0..bat.csp.len()).map(Q::Csp));
    v.extend((0..bat.sel.len()).map(Q::Sel));
    v
}

fn kind_of(a: &Ans) -> &'static str {
    match a {
        Ans::Panic(_) => "panic",
        Ans::Net { matched, important, redirect, rewritten, exception, .. } => {
            match (*matched, *important, exception.is_some(), redirect.is_some(), rewritten.is_some()) {
                (false, false, false, false, false) => "net:pass",
                (true, false, false, false, false) => "net:block",
                (true, true, false, false, false) => "net:block-important",
                (false, false, true, false, false) => "net:exception",
                (true, false, false, true, false) => "net:block+redirect",
                (true, true, false, true, false) => "net:block-important+redirect",
                (false, false, true, true, false) => "net:exception+redirect",
                (false, false, false, true, false) => "net:pass+redirect",
                (false, false, false, false, true) => "net:pass+rewrite",
                (true, false, false, false, true) => "net:block+rewrite",
                (false, false, true, false, true) => "net:exception+rewrite",
                (_, _, _, true, true) => "net:redirect+rewrite",
                _ => "net:other",
            }
        }
        Ans::Csp(None) => "csp:none",
        Ans::Csp(Some(s)) if s.len() == 1 => "csp:one-directive",
        Ans::Csp(Some(_)) => "csp:several-directives",
        Ans::Cos { hide, procedural, exceptions, generichide, script_blocks, .. } => {
            if !script_blocks.is_empty() {
                "cosmetic:with-script"
            } else if *generichide {
                "cosmetic:generichide"
            } else if !procedural.is_empty() {
                "cosmetic:procedural"
            } else if !exceptions.is_empty() {
                "cosmetic:exceptions"
            } else if !hide.is_empty() {
                "cosmetic:hide"
            } else {
                "cosmetic:empty"
            }
        }
        Ans::Sel(v) if v.is_empty() => "classid:none",
        Ans::Sel(_) => "classid:selectors",
    }
}

fn trivial(a: &Ans) -> bool {
    matches!(kind_of(a), "net:pass" | "csp:none" | "cosmetic:empty" | "classid:none")
}

fn describe(q: Q, bat: &Battery) -> Value {
    match q {
        Q::Net(i) => json!({"check_network_request": {"url": bat.net[i].1, "source": bat.net[i].2, "type": bat.net[i].3}}),
        Q::Csp(i) => {
            let n = &bat.net[bat.csp[i]];
            json!({"get_csp_directives": {"url": n.1, "source": n.2, "type": n.3}})
        }
        Q::Cos(i) => json!({"url_cosmetic_resources": bat.cos[i]}),
        Q::Sel(i) => {
            let exc = ["none", "every selector of the alphabet", "exceptions reported for https://example.com/"][bat.sel[i].2 as usize];
            json!({"hidden_class_id_selectors": {"classes": bat.sel[i].0, "ids": bat.sel[i].1, "exceptions": exc}})
        }
    }
}

/// Names of the fields in which two answers of the same kind differ.
fn diff_fields(a: &Ans, b: &Ans) -> Vec<&'static str> {
    let mut v = vec![];
    match (a, b) {
        (
            Ans::Net { matched: m1, important: i1, redirect: r1, rewritten: w1, exception: e1, filter: f1 },
            Ans::Net { matched: m2, important: i2, redirect: r2, rewritten: w2, exception: e2, filter: f2 },
        ) => {
            if m1 != m2 {
                v.push("matched");
            }
            if i1 != i2 {
                v.push("important");
            }
            if r1 != r2 {
                v.push("redirect");
            }
            if w1 != w2 {
                v.push("rewritten_url");
            }
            if e1.is_some() != e2.is_some() {
                v.push("exception");
            } else if e1 != e2 {
                v.push("exception-text");
            }
            if f1.is_some() != f2.is_some() {
                v.push("filter");
            } else if f1 != f2 {
                v.push("filter-text");
            }
        }
        (Ans::Csp(_), Ans::Csp(_)) => v.push("directives"),
        (
            Ans::Cos { hide: h1, procedural: p1, exceptions: e1, generichide: g1, script_blocks: s1, script_deps: d1 },
            Ans::Cos { hide: h2, procedural: p2, exceptions: e2, generichide: g2, script_blocks: s2, script_deps: d2 },
        ) => {
            if h1 != h2 {
                v.push("hide_selectors");
            }
            if p1 != p2 {
                v.push("procedural_actions");
            }
            if e1 != e2 {
                v.push("exceptions");
            }
            if g1 != g2 {
                v.push("generichide");
            }
            if s1 != s2 || d1 != d2 {
                v.push("injected_script");
            }
        }
        (Ans::Sel(_), Ans::Sel(_)) => v.push("selectors"),
        _ => v.push("kind"),
    }
    v
}

// ------------------------------------------------------------------------------------------------
// One case = one (list, configuration); all tag subsets, all loaders, the whole battery
// ------------------------------------------------------------------------------------------------

const LOADERS: [&str; 5] = ["new-true", "new-false-tags-preset", "holds-other-rules", "saved-under-complement-tags", "saved-under-all-tags"];

fn load(kind: usize, bytes0: &[u8], bytes_s: &[u8], bytes_other: &[Vec<u8>; 2], tags: &[&str], cfg: Cfg) -> Result<Engine, String> {
    let r = catch(|| -> Result<Engine, String> {
        match kind {
            0 => {
                let mut e = Engine::new(true);
                e.deserialize(bytes0).map_err(|e| format!("{:?}", e))?;
                vh::net::never_discard(&mut e);
                e.use_resources(resources());
                if !tags.is_empty() {
                    e.use_tags(tags);
                }
                Ok(e)
            }
            1 => {
                let mut e = Engine::new(false);
                e.use_resources(resources());
                if !tags.is_empty() {
                    e.use_tags(tags);
                }
                // buffer taken from the original while it had the same tags enabled; the loader's
                // own tag set is documented to survive the load
                e.deserialize(bytes_s).map_err(|e| format!("{:?}", e))?;
                vh::net::never_discard(&mut e);
                Ok(e)
            }
            3 | 4 => {
                // the producer had a different tag set enabled when the buffer was taken (the
                // complement of the receiver's within the tags the list uses / all of them); the
                // enabled set is not part of the data, the receiver's own set decides
                let mut e = Engine::new(false);
                e.use_resources(resources());
                if !tags.is_empty() {
                    e.use_tags(tags);
                }
                e.deserialize(&bytes_other[kind - 3]).map_err(|e| format!("{:?}", e))?;
                vh::net::never_discard(&mut e);
                Ok(e)
            }
            _ => {
                let other: Vec<RuleRef> = OTHER_RULES.iter().map(|r| (r.to_string(), Fm::Std)).collect();
                let mut e = build(&other, !cfg.debug, !cfg.optimize, 1)?;
                e.use_tags(&["t2", "zz"]);
                // make it a used engine: one query of each family
                if let Ok(r) = Request::new("https://unrelated.org/x", "https://example.com/", "script") {
                    let _ = e.check_network_request(&r);
                }
                let _ = e.url_cosmetic_resources("https://example.com/");
                e.deserialize(bytes0).map_err(|e| format!("{:?}", e))?;
                vh::net::never_discard(&mut e);
                e.use_tags(tags);
                Ok(e)
            }
        }
    });
    match r {
        Ok(x) => x,
        Err(loc) => Err(format!("panic at {}", loc)),
    }
}

fn case_json(rules: &[RuleRef], cfg: Cfg) -> Value {
    json!({
        "rules": rules.iter().map(|(r, f)| json!({"r": r, "f": if *f == Fm::Hosts { "hosts" } else { "standard" }})).collect::<Vec<_>>(),
        "debug": cfg.debug, "optimize": cfg.optimize, "permission": cfg.perm,
    })
}

fn case_size(rules: &[RuleRef], cfg: Cfg, tags: &[&str]) -> u64 {
    rules.len() as u64 * 100_000
        + (cfg.debug as u64 + cfg.optimize as u64 + cfg.perm as u64 + tags.len() as u64) * 10_000
        + rules.iter().map(|(r, _)| r.len() as u64).sum::<u64>()
}

fn check_case(rules: &[RuleRef], cfg: Cfg, bat: &Battery, qs: &[Q], l: &mut Local) {
    let tags_used = rule_tags(rules);
    let has_rp = rules.iter().any(|(r, _)| is_removeparam(r));
    let has_js = rules.iter().any(|(r, _)| is_scriptlet_inject(r));
    for tags in subsets_of(&tags_used) {
        let fail = |l: &mut Local, sig: String, what: String| {
            let mut c = case_json(rules, cfg);
            c["tags"] = json!(tags);
            l.mismatch(Mismatch { sig, what, case: c, size: case_size(rules, cfg, &tags) });
        };
        let mut orig = match build(rules, cfg.debug, cfg.optimize, cfg.perm) {
            Ok(e) => e,
            Err(loc) => {
                fail(l, format!("c08.build-panic@{}", loc), format!("building the engine panicked at {}", loc));
                continue;
            }
        };
        l.states += 1;
        let bytes0 = match catch(|| orig.serialize_raw()) {
            Ok(Ok(b)) => b,
            Ok(Err(e)) => {
                fail(l, "c08.serialize-error".into(), format!("serialize_raw failed: {:?}", e));
                continue;
            }
            Err(loc) => {
                fail(l, format!("c08.serialize-panic@{}", loc), format!("serialize_raw panicked at {}", loc));
                continue;
            }
        };
        let bytes_s = if tags.is_empty() {
            bytes0.clone()
        } else {
            orig.use_tags(&tags);
            match catch(|| orig.serialize_raw()) {
                Ok(Ok(b)) => b,
                _ => {
                    fail(l, "c08.serialize-error".into(), "serialize_raw failed with tags enabled".into());
                    continue;
                }
            }
        };
        let mut bytes_other: [Vec<u8>; 2] = [bytes0.clone(), bytes0.clone()];
        if !tags_used.is_empty() {
            let complement: Vec<&str> = tags_used.iter().copied().filter(|t| !tags.contains(t)).collect();
            for (k, save_set) in [complement, tags_used.clone()].into_iter().enumerate() {
                let saved = catch(|| {
                    let mut p = build(rules, cfg.debug, cfg.optimize, cfg.perm).ok()?;
                    p.use_tags(&save_set);
                    p.serialize_raw().ok()
                });
                match saved {
                    Ok(Some(b)) => bytes_other[k] = b,
                    _ => {
                        fail(l, "c08.serialize-error".into(), format!("serialize_raw failed with tags {:?} enabled", save_set));
                        continue;
                    }
                }
            }
        }
        // the original's answers; the cosmetic answer for example.com provides the third exception set
        let mut dyn_exc: HashSet<String> = HashSet::new();
        let mut expected: Vec<Ans> = Vec::with_capacity(qs.len());
        for &q in qs {
            let a = ask(&orig, q, bat, &dyn_exc);
            l.transitions += 1;
            if q == Q::Cos(0) {
                if let Ans::Cos { exceptions, .. } = &a {
                    dyn_exc = exceptions.iter().cloned().collect();
                }
            }
            l.hist(kind_of(&a));
            if let Ans::Panic(loc) = &a {
                fail(l, format!("c08.query-panic@{}", loc), format!("query {} panicked on the original engine", describe(q, bat)));
            }
            expected.push(a);
        }
        // references used only to classify the two recorded format limitations
        let mut ref_norp: Option<Engine> = None;
        let mut ref_perm0: Option<Engine> = None;

        // answers of the three loaders
        let mut gots: Vec<Option<Vec<Ans>>> = vec![];
        for kind in 0..LOADERS.len() {
            if kind >= 3 && tags_used.is_empty() {
                gots.push(None);
                continue;
            }
            let loaded = match load(kind, &bytes0, &bytes_s, &bytes_other, &tags, cfg) {
                Ok(e) => e,
                Err(msg) => {
                    fail(l, format!("c08.load-failed.{}", LOADERS[kind]), format!("deserialize of a buffer produced by serialize_raw failed: {}", msg));
                    gots.push(None);
                    continue;
                }
            };
            l.states += 1;
            let mut v = Vec::with_capacity(qs.len());
            for (qi, &q) in qs.iter().enumerate() {
                let got = ask(&loaded, q, bat, &dyn_exc);
                l.transitions += 1;
                l.evaluations += 1;
                l.compared += 1;
                if !trivial(&expected[qi]) || !trivial(&got) {
                    l.nontrivial += 1;
                }
                v.push(got);
            }
            gots.push(Some(v));
        }
        for (qi, &q) in qs.iter().enumerate() {
            let exp = &expected[qi];
            let wrong: Vec<usize> = (0..LOADERS.len())
                .filter(|&k| gots[k].as_ref().map(|v| v[qi] != *exp).unwrap_or(false))
                .collect();
            if wrong.is_empty() {
                continue;
            }
            // one root cause normally shows in every loader alike: then the loader is not part of
            // the signature; a disagreement confined to some loaders names them
            let uniform = wrong.len() == gots.iter().filter(|g| g.is_some()).count()
                && wrong.iter().all(|&k| gots[k].as_ref().unwrap()[qi] == gots[wrong[0]].as_ref().unwrap()[qi]);
            for &kind in &wrong {
                if uniform && kind != wrong[0] {
                    continue;
                }
                let got = &gots[kind].as_ref().unwrap()[qi];
                let fields = diff_fields(exp, got);
                let mut sig = String::new();
                // --- D11: $removeparam rules have no slot in the format
                if fields == ["rewritten_url"] && has_rp {
                    if ref_norp.is_none() {
                        let kept: Vec<RuleRef> = rules.iter().filter(|(r, _)| !is_removeparam(r)).cloned().collect();
                        if let Ok(mut e) = build(&kept, cfg.debug, cfg.optimize, cfg.perm) {
                            if !tags.is_empty() {
                                e.use_tags(&tags);
                            }
                            ref_norp = Some(e);
                        }
                    }
                    if let Some(r) = &ref_norp {
                        if ask(r, q, bat, &dyn_exc) == *got {
                            sig = "c08.removeparam-lost".into();
                        }
                    }
                }
                // --- D12: the list permission of +js rules has no slot; the loader assigns
                //     PermissionMask::default() (= 0 bits) to every scriptlet rule
                if fields == ["injected_script"] && has_js && cfg.perm != 0 {
                    if ref_perm0.is_none() {
                        if let Ok(mut e) = build(rules, cfg.debug, cfg.optimize, 0) {
                            if !tags.is_empty() {
                                e.use_tags(&tags);
                            }
                            ref_perm0 = Some(e);
                        }
                    }
                    if let Some(r) = &ref_perm0 {
                        if ask(r, q, bat, &dyn_exc) == *got {
                            sig = "c08.scriptlet-permission-lost".into();
                        }
                    }
                }
                let loader_name = if uniform { "every-loader" } else { LOADERS[kind] };
                if sig.is_empty() {
                    let fam = match q {
                        Q::Net(_) => "net",
                        Q::Csp(_) => "csp",
                        Q::Cos(_) => "cosmetic",
                        Q::Sel(_) => "classid",
                    };
                    sig = format!("c08.{}.{}.{}", fam, fields.join("+"), if uniform { "every-loader".to_string() } else { format!("loader-{}", LOADERS[kind]) });
                }
                let mut c = case_json(rules, cfg);
                c["tags"] = json!(tags);
                c["loader"] = json!(loader_name);
                c["query"] = describe(q, bat);
                l.mismatch(Mismatch {
                    sig,
                    what: format!(
                        "list {:?} debug={} optimize={} permission={} tags={:?} loader={} query {}: original answers {:?}, reloaded engine answers {:?}",
                        rules.iter().map(|(r, _)| r.as_str()).collect::<Vec<_>>(),
                        cfg.debug, cfg.optimize, cfg.perm, tags, loader_name, describe(q, bat), exp, got
                    ),
                    case: c,
                    size: case_size(rules, cfg, &tags),
                });
            }
        }
    }
}

fn rules_from_indices(idx: &[usize]) -> Vec<RuleRef> {
    idx.iter().map(|&i| (R_ALL[i].0.to_string(), R_ALL[i].1)).collect()
}

fn replay(case: &Value, l: &mut Local) {
    let bat = battery();
    let qs = queries(&bat);
    let rules: Vec<RuleRef> = case["rules"]
        .as_array()
        .map(|a| {
            a.iter()
                .map(|r| {
                    (
                        r["r"].as_str().unwrap_or("").to_string(),
                        if r["f"].as_str() == Some("hosts") { Fm::Hosts } else { Fm::Std },
                    )
                })
                .collect()
        })
        .unwrap_or_default();
    let cfg = Cfg {
        debug: case["debug"].as_bool().unwrap_or(false),
        optimize: case["optimize"].as_bool().unwrap_or(false),
        perm: case["permission"].as_u64().unwrap_or(0) as u8,
    };
    check_case(&rules, cfg, &bat, &qs, l);
}

/// Machinery self-check: every alphabet entry is accepted by the real parser, every battery
/// resource is accepted by the real store, and every rule changes at least one answer of the
/// battery (otherwise the battery could not see its loss).
fn self_check(bat: &Battery, qs: &[Q]) -> Result<(), String> {
    for (r, f) in R_ALL {
        let (_, n) = filter_set(&[(r.to_string(), *f)], true, 0);
        if n != 1 {
            return Err(format!("alphabet rule {:?} is rejected by the parser", r));
        }
    }
    for r in OTHER_RULES.iter() {
        let (_, n) = filter_set(&[(r.to_string(), Fm::Std)], true, 0);
        if n != 1 {
            return Err(format!("loader rule {:?} is rejected by the parser", r));
        }
    }
    let mut store = adblock::resources::ResourceStorage::default();
    for r in resources() {
        let name = r.name.clone();
        let on_purpose = vh::net::deliberately_rejected(&r);
        if store.add_resource(r).is_err() != on_purpose {
            return Err(format!("battery resource {:?}: rejected by the store = {}, expected {}", name, !on_purpose, on_purpose));
        }
    }
    let empty = build(&[], true, false, 1)?;
    let none = HashSet::new();
    let base: Vec<Ans> = qs.iter().map(|&q| ask(&empty, q, bat, &none)).collect();
    for (i, (r, f)) in R_ALL.iter().enumerate() {
        // a rule that only acts on other rules is probed together with a partner
        let mut list = vec![(r.to_string(), *f)];
        let partner: Option<&str> = if r.contains("badfilter") {
            None // visible only through the rule it removes; covered by pairs
        } else if r.starts_with("@@") && !r.contains("generichide") && !r.contains("csp") {
            Some(if r.contains("redirect-rule") { "foo$redirect-rule=b" } else { "*$image,script,document,xmlhttprequest" })
        } else if r.contains("#@#+js(sl1") {
            Some("example.com##+js(sl1, alpha)")
        } else if r.contains("#@#+js()") {
            Some("example.com##+js(sl0)")
        } else if r.contains("#@#.styled") {
            Some("example.com##.styled:style(color: red)")
        } else if r.contains("@@") && r.contains("csp") {
            Some("||example.com^$csp=script-src 'none'")
        } else if r.contains("redirect-rule") {
            Some("*$image,script,document,xmlhttprequest")
        } else {
            None
        };
        if r.contains("badfilter") {
            continue;
        }
        let with_partner: Vec<Ans>;
        let reference: &Vec<Ans> = if let Some(p) = partner {
            let pe = build(&[(p.to_string(), Fm::Std)], true, false, 1)?;
            with_partner = qs.iter().map(|&q| ask(&pe, q, bat, &none)).collect();
            list.push((p.to_string(), Fm::Std));
            &with_partner
        } else {
            &base
        };
        let mut e = build(&list, true, false, 1)?;
        e.use_tags(&ALL_TAGS);
        let mut all_exc: HashSet<String> = HashSet::new();
        all_exc.insert(".gen-class".into());
        let ans: Vec<Ans> = qs.iter().map(|&q| ask(&e, q, bat, if matches!(q, Q::Sel(_)) { &all_exc } else { &none })).collect();
        let refs_differ = ans.iter().zip(reference.iter()).any(|(a, b)| a != b);
        if !refs_differ && !INERT_TODAY.contains(r) {
            return Err(format!("alphabet rule #{} {:?} changes no answer of the battery: its loss would be invisible", i, r));
        }
    }
    for (rule, mutant, context) in FIELD_MUTANTS {
        let mk = |r: &str| -> Result<Vec<Ans>, String> {
            let mut list = vec![(r.to_string(), Fm::Std)];
            if !context.is_empty() {
                list.push((context.to_string(), Fm::Std));
            }
            let (_, n) = filter_set(&list, true, 1);
            if n != list.len() {
                return Err(format!("sensitivity rule {:?} is rejected by the parser", r));
            }
            let mut e = build(&list, true, false, 1)?;
            e.use_tags(&["t1"]);
            Ok(qs.iter().map(|&q| ask(&e, q, bat, &none)).collect())
        };
        if mk(rule)? == mk(mutant)? {
            return Err(format!("the battery cannot tell {:?} from {:?}: a loader losing that field would pass", rule, mutant));
        }
    }
    Ok(())
}

fn check(ctx: &Ctx) -> i32 {
    let bat = battery();
    let qs = queries(&bat);
    vh::util::assert_no_hash_collisions(R_ALL.iter().map(|(r, _)| *r));
    if let Err(e) = self_check(&bat, &qs) {
        eprintln!("machinery: {}", e);
        return 3;
    }
    let n = R_ALL.len() as u64;
    let k: u32 = ctx.tier.pick(2, 3);
    // thorough: lists of 3 rules are explored in the configurations where the two dimensions that
    // interact with other rules (optimise, debug) vary; permission 1 only (a superset of what
    // permission 0 can show: with permission 0 no gated scriptlet is injected on either side)
    let total_lists = count_arrangements_upto(n, k);
    let small_lists = count_arrangements_upto(n, 2);
    ctx.bound("alphabet_rules", n);
    ctx.bound("list_max_len", k);
    ctx.bound("lists", total_lists);
    ctx.bound("configs_debug_x_optimize_x_permission", CFGS.len());
    ctx.bound("configs_for_lists_of_3", 4);
    ctx.bound("loaders", json!(LOADERS));
    ctx.bound("queries_per_engine", qs.len());
    ctx.bound("network_requests", bat.net.len());
    ctx.bound("csp_requests", bat.csp.len());
    ctx.bound("cosmetic_urls", bat.cos.len());
    ctx.bound("class_id_queries", bat.sel.len());
    ctx.bound("tag_subsets", "every subset of the tags used by the list (t1, t2)");

    let cases = small_lists * CFGS.len() as u64 + (total_lists - small_lists) * 4;
    ctx.par_range("lists-x-configs", cases, 4, |i, l| {
        let (li, cfg) = if i < small_lists * CFGS.len() as u64 {
            (i / CFGS.len() as u64, CFGS[(i % CFGS.len() as u64) as usize])
        } else {
            let j = i - small_lists * CFGS.len() as u64;
            (small_lists + j / 4, CFGS[4 + (j % 4) as usize])
        };
        let mut idx = vec![];
        nth_arrangement(li, n, &mut idx);
        let rules = rules_from_indices(&idx);
        if l.samples.len() < 3 && (i + ctx.seed) % 4099 == 17 {
            l.samples.push(json!({"case": case_json(&rules, cfg), "queries": qs.len(), "loaders": LOADERS}));
        }
        check_case(&rules, cfg, &bat, &qs, l);
    });
    // the rule cube (vh::alpha): every (pattern shape, option set, exception?) cell alone and next
    // to a same-pattern neighbour under the next option set (both land in one bucket), in the four
    // debug x optimise configurations
    let np = vh::alpha::CUBE_PATTERNS.len() as u64;
    let no = vh::alpha::CUBE_OPTIONS.len() as u64;
    ctx.bound("cube_cells", np * no * 2);
    ctx.par_range("rule cube", np * no * 2 * 2 * 4, 8, |i, l| {
        let p = (i % np) as usize;
        let o = ((i / np) % no) as usize;
        let exc = (i / np / no) % 2 == 1;
        let with_neighbour = (i / np / no / 2) % 2 == 1;
        let cfg = CFGS[(i / np / no / 4) as usize % 4];
        let mut rules: Vec<RuleRef> = match vh::alpha::cube_rule(p, o, exc) {
            Some(r) => vec![(r, Fm::Std)],
            None => return,
        };
        if with_neighbour {
            match vh::alpha::cube_rule(p, (o + 1) % no as usize, false) {
                Some(r) if r != rules[0].0 => rules.push((r, Fm::Std)),
                _ => return,
            }
        }
        check_case(&rules, cfg, &bat, &qs, l);
    });
    ctx.finish(
        "model_checking",
        "every ordered list without repetition of <= k rules of an 84-rule alphabet covering every network and cosmetic rule shape x debug x optimise x list permission; serialize_raw -> deserialize into Engine::new(true), Engine::new(false) with the tags pre-enabled, a used engine holding other rules and tags, and (lists with tags) Engine::new(false) with the tags pre-enabled receiving a buffer that was taken while the producer had the complementary / the full tag set enabled; plus every cell of the rule cube (pattern shapes x option sets x exception) alone and with a same-pattern neighbour in 4 configurations; under every subset of the tags the list uses the whole battery (network requests x 4 types, CSP, url_cosmetic_resources, hidden_class_id_selectors with 3 exception sets) is put to the original and to each loader and compared field by field; a case is non-trivial when the original or the reloaded answer is not the empty answer; states = engines built or loaded, transitions = queries executed, traces_validated = (loader, query) answers compared with the original's",
        &[
            "resources are loaded identically on both sides (they are not part of the serialized format)",
            "documented sets are compared as sets; the injected script as a multiset of try-blocks plus a multiset of dependency lines",
            "one fresh engine per tag subset on both sides, so that address reuse in the regex cache (C06) cannot influence C08",
            "the regex discard policy is reset to 'never' after deserialize (deserialize installs a fresh RegexManager with the default policy)",
        ],
    )
}

fn main() {
    run_main("C08", check, replay)
}
