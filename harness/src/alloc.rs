//! Deterministic strict-LIFO size-class allocator (DESIGN §3): a block freed during an execution
//! is the first one handed out for the next request of its class, so whether a later rule inherits
//! a freed rule's address is a deterministic function of the history being executed.
//! Also provides an allocation ceiling for the fault enumerator (C10).

use std::alloc::{GlobalAlloc, Layout, System};
use std::cell::Cell;
use std::sync::atomic::{AtomicUsize, Ordering};

const CLASSES: usize = 129; // 16-byte classes up to 2 KiB

thread_local! {
    static FREE: Cell<[usize; CLASSES]> = const { Cell::new([0usize; CLASSES]) };
    static MODE: Cell<u8> = const { Cell::new(0) }; // 0 = LIFO reuse, 1 = never reuse (control)
}

pub static CEILING: AtomicUsize = AtomicUsize::new(usize::MAX);
pub static LIVE: AtomicUsize = AtomicUsize::new(0);
pub static PEAK: AtomicUsize = AtomicUsize::new(0);

pub struct Lifo;

pub fn set_never_reuse(on: bool) {
    MODE.with(|m| m.set(if on { 1 } else { 0 }));
}

#[inline]
fn class_of(l: &Layout) -> Option<usize> {
    if l.align() <= 16 && l.size() <= 2048 && l.size() > 0 {
        Some((l.size() + 15) / 16)
    } else {
        None
    }
}

unsafe impl GlobalAlloc for Lifo {
    unsafe fn alloc(&self, l: Layout) -> *mut u8 {
        if let Some(c) = class_of(&l) {
            let reuse = MODE.try_with(|m| m.get() == 0).unwrap_or(false);
            if reuse {
                let got = FREE
                    .try_with(|f| {
                        let mut a = f.get();
                        let head = a[c];
                        if head != 0 {
                            // next pointer is stored in the first word of the free block
                            a[c] = *(head as *const usize);
                            f.set(a);
                            head
                        } else {
                            0
                        }
                    })
                    .unwrap_or(0);
                if got != 0 {
                    return got as *mut u8;
                }
            }
            return System.alloc(Layout::from_size_align_unchecked(c * 16, 16));
        }
        let live = LIVE.fetch_add(l.size(), Ordering::Relaxed) + l.size();
        if live > CEILING.load(Ordering::Relaxed) {
            // allocation ceiling exceeded: die loudly with a recognisable status
            libc::_exit(77);
        }
        PEAK.fetch_max(live, Ordering::Relaxed);
        System.alloc(l)
    }

    unsafe fn dealloc(&self, p: *mut u8, l: Layout) {
        if let Some(c) = class_of(&l) {
            let never = MODE.try_with(|m| m.get() == 1).unwrap_or(true);
            if never {
                // control mode: leak, so that no address is ever handed out twice
                return;
            }
            let ok = FREE
                .try_with(|f| {
                    let mut a = f.get();
                    *(p as *mut usize) = a[c];
                    a[c] = p as usize;
                    f.set(a);
                })
                .is_ok();
            if !ok {
                System.dealloc(p, Layout::from_size_align_unchecked(c * 16, 16));
            }
            return;
        }
        LIVE.fetch_sub(l.size(), Ordering::Relaxed);
        System.dealloc(p, l)
    }
}
