//! List x request sweep shared by the network properties (C01, C04, C13, C15): build a real
//! engine from a rule list, run every request under every relevant tag subset, compare each
//! verdict with the reference combiner, classify mismatches from public data.

use adblock::filters::network::NetworkFilterMaskHelper;
use adblock::lists::FilterSet;
use adblock::Engine;
use serde_json::{json, Value};
use std::collections::HashSet;

use crate::alpha::{self, Req};
use crate::core::{Local, Mismatch};
use crate::oracle::netspec::{self as ns, Rule, SpecOut};
use crate::util::subsets_of;

pub fn build_engine(std_rules: &[&str], hosts: &[&str], optimize: bool, resources: bool) -> Engine {
    let mut fs = FilterSet::new(true);
    fs.add_filters(std_rules, crate::net::opts_std());
    if !hosts.is_empty() {
        fs.add_filters(hosts, crate::net::opts_hosts());
    }
    let mut e = crate::net::engine_from_set(fs, optimize);
    if resources {
        e.use_resources(crate::net::std_resources());
    }
    e
}

/// Why can the index not find a rule that matches? From public data only.
pub fn classify(prefix: &str, field: &str, spec: &SpecOut, rules: &[Rule], rq: &Req) -> String {
    let probe: HashSet<u64> = rq.req.get_tokens_for_match().copied().collect();
    let http = adblock::utils::fast_hash("http");
    let https = adblock::utils::fast_hash("https");
    let mut causes: Vec<&'static str> = vec![];
    for r in rules.iter().filter(|r| spec.matching.contains(&r.text)) {
        for group in r.f.get_tokens() {
            for t in group {
                if probe.contains(&t) {
                    continue;
                }
                let first_tok = r
                    .f
                    .filter
                    .string_view()
                    .map(|f| adblock::utils::tokenize(&f))
                    .and_then(|v| v.first().copied());
                let c = if t == http || t == https {
                    "protocol-token-not-in-request"
                } else if r.f.opt_domains.as_ref().map(|d| d.contains(&t)).unwrap_or(false) {
                    if rq.req.source_hostname_hashes.is_none() {
                        "domain-token-with-absent-initiator"
                    } else {
                        "domain-token"
                    }
                } else if !r.f.is_left_anchor() && !r.f.is_hostname_anchor() && Some(t) == first_tok {
                    "first-token-of-unanchored-pattern"
                } else {
                    "other-token"
                };
                if !causes.contains(&c) {
                    causes.push(c);
                }
            }
        }
    }
    causes.sort();
    if causes.is_empty() {
        format!("{}.{}", prefix, field)
    } else {
        format!("{}.{}.unprobed:{}", prefix, field, causes.join("+"))
    }
}

pub fn check_list(prefix: &str, items: &[(&str, bool)], reqs: &[Req], l: &mut Local, sample: bool, resources: bool) {
    check_list_opt(prefix, items, reqs, l, sample, resources, false)
}

/// `optimize`: build the engine with rule optimisation (the default of the public constructors).
pub fn check_list_opt(prefix: &str, items: &[(&str, bool)], reqs: &[Req], l: &mut Local, sample: bool, resources: bool, optimize: bool) {
    let std_rules: Vec<&str> = items.iter().filter(|i| !i.1).map(|i| i.0).collect();
    let hosts: Vec<&str> = items.iter().filter(|i| i.1).map(|i| i.0).collect();
    let rules = ns::parse_rules(&std_rules, &hosts);
    let mut e = build_engine(&std_rules, &hosts, optimize, resources);
    l.states += 1;
    let store = if resources { ns::std_res_spec() } else { vec![] };
    let tags_present = alpha::tags_in(&std_rules);
    if sample {
        l.samples.push(json!({"list": std_rules, "hosts_lines": hosts, "tag_subsets_of": tags_present, "requests": reqs.len(), "first_request": [reqs[0].url, reqs[0].source, reqs[0].ty]}));
    }
    for tagset in subsets_of(&tags_present) {
        let tagrefs: Vec<&str> = tagset.iter().map(|s| s.as_str()).collect();
        e.use_tags(&tagrefs);
        let tags: HashSet<String> = tagset.iter().cloned().collect();
        let active = ns::active_rules_by_text(&rules, &tags);
        for rq in reqs {
            l.evaluations += 1;
            l.transitions += 1;
            let (d, spec, got) = ns::compare_engine_active(&e, &active, &rq.req, &rq.url, &store);
            l.compared += 1;
            if spec.verdict.hits > 0 {
                l.nontrivial += 1;
                if spec.verdict.hits > 1 {
                    l.count("requests_hit_by_two_or_more_rules", 1);
                }
            }
            if spec.verdict.any_unspec() {
                l.unspecified += 1;
            }
            if let Some((g, csp)) = &got {
                if spec.verdict.hits > 0 || g.matched {
                    l.hist(&format!("{}{}", g.short(), if csp.is_some() { "C" } else { "-" }));
                }
            }
            if let Some(field) = d {
                l.mismatch(Mismatch {
                    sig: classify(prefix, &field, &spec, &rules, rq),
                    what: format!(
                        "list {:?}+{:?} tags {:?} request ({}, {}, {}): matching rules {:?}; reference {:?}; engine {:?}",
                        std_rules, hosts, tagset, rq.url, rq.source, rq.ty, spec.matching, spec.verdict, got
                    ),
                    case: json!({"rules": std_rules, "hosts": hosts, "tags": tagset, "url": rq.url, "source": rq.source, "type": rq.ty, "resources": resources, "optimize": optimize}),
                    size: (items.len() * 10000 + tagset.len() * 1000 + rq.url.len() * 4 + rq.source.len()) as u64,
                });
            }
        }
    }
}

/// The same comparison with a second subject: a blocker that starts empty and receives the rules
/// of the list one by one through `Blocker::add_filter` (`$badfilter` rules are refused there, by
/// documentation; they are left out on both sides). `optimize`: the blocker's build option (it
/// has nothing to fuse at build time; `add_filter` documents that it skips optimisation).
pub fn check_list_incremental(prefix: &str, items: &[(&str, bool)], reqs: &[Req], l: &mut Local, resources: bool, optimize: bool) {
    use adblock::blocker::{Blocker, BlockerError, BlockerOptions};
    let std_rules: Vec<&str> = items.iter().filter(|i| !i.1).map(|i| i.0).collect();
    let hosts: Vec<&str> = items.iter().filter(|i| i.1).map(|i| i.0).collect();
    let rules: Vec<Rule> = ns::parse_rules(&std_rules, &hosts).into_iter().filter(|r| !r.f.is_badfilter()).collect();
    let built = crate::util::catch(|| {
        let mut b = Blocker::new(vec![], &BlockerOptions { enable_optimizations: optimize });
        let mut refused_other = None;
        for r in &rules {
            match b.add_filter((*r.f).clone()) {
                Ok(()) | Err(BlockerError::FilterExists) => {}
                Err(e) => refused_other = Some(format!("{:?} for {}", e, r.text)),
            }
        }
        (b, refused_other)
    });
    l.states += 1;
    let case_of = |tagset: &[String], rq: Option<&Req>| {
        json!({"rules": std_rules, "hosts": hosts, "tags": tagset, "url": rq.map(|r| r.url.clone()), "source": rq.map(|r| r.source.clone()), "type": rq.map(|r| r.ty), "resources": resources, "optimize": optimize, "incremental": true})
    };
    let (b, refused) = match built {
        Ok(x) => x,
        Err(loc) => {
            l.mismatch(Mismatch { sig: format!("{}.rules-added-one-by-one.panic@{}", prefix, loc), what: format!("adding {:?}+{:?} one by one panics", std_rules, hosts), case: case_of(&[], reqs.first()), size: items.len() as u64 });
            return;
        }
    };
    if let Some(why) = refused {
        l.mismatch(Mismatch { sig: format!("{}.rules-added-one-by-one.refused", prefix), what: format!("add_filter refuses a rule that is neither present nor a badfilter: {}", why), case: case_of(&[], reqs.first()), size: items.len() as u64 });
        return;
    }
    let mut subj = ns::Incremental {
        b,
        res: if resources { adblock::resources::ResourceStorage::from_resources(crate::net::std_resources()) } else { Default::default() },
    };
    let store = if resources { ns::std_res_spec() } else { vec![] };
    let tags_present = alpha::tags_in(&std_rules);
    // with `optimize`, a second pass after an explicit `Blocker::optimize()` on the live blocker
    // (the route "optimised later")
    for pass in 0..(1 + optimize as usize) {
    if pass == 1 {
        if let Err(loc) = crate::util::catch(std::panic::AssertUnwindSafe(|| subj.b.optimize())) {
            l.mismatch(Mismatch { sig: format!("{}.rules-added-one-by-one.optimize-panic@{}", prefix, loc), what: format!("optimize() on a blocker holding {:?}+{:?} panics", std_rules, hosts), case: case_of(&[], reqs.first()), size: items.len() as u64 });
            return;
        }
    }
    for tagset in subsets_of(&tags_present) {
        let tagrefs: Vec<&str> = tagset.iter().map(|s| s.as_str()).collect();
        subj.b.use_tags(&tagrefs);
        let tags: HashSet<String> = tagset.iter().cloned().collect();
        let active = ns::active_rules_by_text(&rules, &tags);
        for rq in reqs {
            l.evaluations += 1;
            l.transitions += 1;
            let (d, spec, got) = ns::compare_subject_active(&subj, &active, &rq.req, &rq.url, &store);
            l.compared += 1;
            if spec.verdict.hits > 0 {
                l.nontrivial += 1;
            }
            if spec.verdict.any_unspec() {
                l.unspecified += 1;
            }
            if let Some(field) = d {
                l.mismatch(Mismatch {
                    sig: format!("{}.rules-added-one-by-one{}", classify(prefix, &field, &spec, &rules, rq), if pass == 1 { ".then-optimize()" } else { "" }),
                    what: format!(
                        "rules {:?}+{:?} added with Blocker::add_filter{}, tags {:?}, request ({}, {}, {}): matching rules {:?}; reference {:?}; blocker {:?}",
                        std_rules, hosts, if pass == 1 { ", then optimize()" } else { "" }, tagset, rq.url, rq.source, rq.ty, spec.matching, spec.verdict, got
                    ),
                    case: case_of(&tagset, Some(rq)),
                    size: (items.len() * 10000 + tagset.len() * 1000 + rq.url.len() * 4 + rq.source.len() + pass) as u64,
                });
            }
        }
    }
    }
}

/// Re-executes a stored case `{rules, hosts, tags?, url, source, type}`.
pub fn replay_case(prefix: &str, case: &Value, l: &mut Local, resources: bool) {
    let strs = |k: &str| -> Vec<String> {
        case[k].as_array().map(|a| a.iter().filter_map(|v| v.as_str().map(|s| s.to_string())).collect()).unwrap_or_default()
    };
    let rules_s = strs("rules");
    let hosts_s = strs("hosts");
    let mut items: Vec<(&str, bool)> = vec![];
    for r in &rules_s {
        items.push((r.as_str(), false));
    }
    for r in &hosts_s {
        items.push((r.as_str(), true));
    }
    let url = case["url"].as_str().unwrap_or("").to_string();
    let source = case["source"].as_str().unwrap_or("").to_string();
    // the type strings of the alphabets are &'static str; replay handles one case, so leak
    let ty: &'static str = Box::leak(case["type"].as_str().unwrap_or("script").to_string().into_boxed_str());
    if let Ok(req) = adblock::request::Request::new(&url, &source, ty) {
        let reqs = vec![Req { req, url, source, ty }];
        if case["incremental"].as_bool().unwrap_or(false) {
            check_list_incremental(prefix, &items, &reqs, l, resources, case["optimize"].as_bool().unwrap_or(false));
        } else {
            check_list_opt(prefix, &items, &reqs, l, false, resources, case["optimize"].as_bool().unwrap_or(false));
        }
    }
}
