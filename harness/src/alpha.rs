//! Finite universes shared by the network properties (DESIGN §4 "Common building blocks").
//! Every alphabet is ordered simplest first and built so that each shortcut in the code is forced
//! to collide: shared tokens, a token that is a proper suffix / prefix of a longer URL token,
//! repeated anchor text, same bucket, same id.

use adblock::request::Request;

/// R_net: one rule per shortcut in the token index / matcher / blocker categories.
pub const R_NET: &[&str] = &[
    // plain patterns: first / middle / last token
    "ads/foo/bar",
    "/foo/bar",
    "bar",
    "ads",
    "foo1bar",
    // a host name as a plain pattern: the same text is a hosts-format line of R_HOSTS (`||a.ads.net^`
    // there); both readings are loaded into one FilterSet
    "a.ads.net",
    // left / right anchors
    "|https://ads.net/",
    "|https://ads.net/ads",
    "/bar|",
    "foo/bar|",
    // hostname anchors
    "||ads.net^",
    "||ads.net/ads",
    "||ads.net*bar",
    "||ads.net^foo",
    "||tracker.co.uk^",
    "||example.com^",
    // wildcards and separators (regex path)
    "foo*bar",
    "ad*/bar",
    "ads*foo",
    "ads^foo",
    "bar^",
    "^foo^",
    // full regex
    r"/fo+\/bar/",
    r"/FOO\/BAR/$match-case",
    // initiator-domain options (domain hash used as token; multi-bucket dispatch; negation)
    "ads$domain=example.com",
    "$domain=example.com|tracker.co.uk",
    "bar$domain=~example.com",
    "/foo/bar$domain=example.com",
    // a single-label initiator domain (its hash chain has one element)
    "ads$domain=localhost",
    "$domain=localhost",
    // "bad" tokens as the only tokens
    ".com/ads",
    "://www.",
    // scheme rules
    "|http://",
    "|https://",
    "|ws://",
    // categories
    "@@ads/foo",
    "@@||ads.net^",
    "||ads.net^$important",
    "ads$important",
    "bar$tag=t1",
    "@@bar$tag=t2",
    "||ads.net^$script",
    "bar$image",
    "ads$3p",
    "ads$1p",
    "||ads.net^$redirect=a",
    "bar$redirect-rule=b",
    "||ads.net^$csp=d1",
    "*$removeparam=utm",
    "bar$badfilter",
    "||ads.net^$badfilter",
    // "twins": rules that differ only in an attribute that a structural id / dedup key could miss
    // (tag, sign of the domain list, exception + important)
    "@@bar$tag=t1",
    "ads$important,tag=t1",
    "ads$important,tag=t2",
    "bar$domain=example.com|tracker.co.uk",
    "bar$domain=~example.com|~tracker.co.uk",
    "@@ads$important",
    "||ads.net^$csp=d1,tag=t1",
    "||ads.net^$csp=d1,tag=t2",
    // a floating pattern behind a hostname anchor: its first token may be the tail of a URL token
    "||tracker.co.uk*ads/foo",
    "||tracker.co.uk*ads^",
    "||example.com*foo/bar|",
];

/// The rule cube: pattern shapes x option sets (x exception). Unlike R_NET it is not hand-picked
/// per known shortcut: every anchor mode is combined with every body shape over the tokens of the
/// URL universe, and every option kind the matcher looks at is present once.
pub const CUBE_PATTERNS: &[&str] = &[
    // no anchor
    "ads", "/ads/foo", "ads/foo", "foo/bar", "ads*bar", "ads^", "^ads^", "ads^foo", "/ads", "ads.", ".net/ads", "=1", "?x", "_foo", "ads*", "*ads", "*/foo/*", "a", "/",
    // right anchor
    "bar|", "/foo/bar|", "ads^|", ".js|", "/*bar|", "ads*bar|",
    // left anchor
    "|https://ads.net/ads", "|https://", "|http://ads.net", "|https://ads.net/|", "|https://*.ads.net/", "|ws", "|wss://ads.net/ads", "|ws://ads.net/",
    // hostname anchor
    "||ads.net^", "||ads.net", "||ads.net/", "||ads.net/ads", "||ads.net*ads", "||ads.net^ads", "||ads.net^*ads", "||ads.net/ads|", "||ads.net^|", "||net^", "||a.ads.net^", "||ads.net/*/bar",
    "||tracker.co.uk^", "||co.uk^", "||example.com/foo/bar", "||ads.net:", "||ads.net?", "||ads.", "||1.2.3.4^", "||1.2.3.4/ads",
    // non-ASCII letters inside rule tokens
    "/\u{6587}ads^", "/\u{e9}/bar", "bar\u{e9}^", "||ads.net/\u{6587}ads",
    // percent-escapes next to rule tokens
    "/foo%2Fbar", "%2Fbar", "ads%20foo",
    // a token of 70 characters (first and rarest token of the rule: its bucket key)
    "/a0123456789b0123456789c0123456789d0123456789e0123456789f0123456789g012345/ads",
    // hostname anchor with an empty host text (the parser keeps an empty hostname)
    "||*/foo/", "||/foo/bar", "||^foo^",
    // a wildcard directly behind a host prefix (the prefix is no whole token of a matching host),
    // with a remainder that has tokens of its own and with one that has none
    "||ad*.net/foo/bar", "||ad*/a",
    // full regex and empty
    "/ads[a-z]*\\/bar/", "/^https?:\\/\\/ads\\./", "/\\/ADS/", "/ads[0-/", "/ads\\Dfoo/", "/\\Wads\\W/", "*", "",
];

pub const CUBE_OPTIONS: &[&str] = &[
    "", "script", "~script", "image,script", "document", "3p", "1p", "domain=example.com", "domain=~example.com", "domain=example.com|ads.net", "domain=localhost", "important", "tag=t1", "match-case",
    "xhr,3p", "redirect=a", "csp=d1", "removeparam=utm", "websocket", "~websocket,~image",
    // two category-deciding options on one rule (the category dispatch must take the modifier)
    "csp=d1,important", "removeparam=utm,important", "redirect=a,important", "redirect-rule=b", "important,tag=t1", "csp=d2,tag=t1",
    // same mask, another modifier value (nothing may merge them)
    "csp=d3", "redirect=b", "removeparam=x",
];

/// The rule text for one cell of the cube, or None for cells that make no sense (an empty pattern
/// without options, `$important` on an exception, a removeparam exception).
pub fn cube_rule(p: usize, o: usize, exception: bool) -> Option<String> {
    let (pat, opt) = (CUBE_PATTERNS[p], CUBE_OPTIONS[o]);
    if pat.is_empty() && opt.is_empty() {
        return None;
    }
    if exception && (opt.contains("important") || opt.starts_with("removeparam")) {
        return None;
    }
    Some(format!("{}{}{}{}", if exception { "@@" } else { "" }, pat, if opt.is_empty() { "" } else { "$" }, opt))
}

/// Hosts-format lines (added through a second `add_filters` call with `FilterFormat::Hosts`).
pub const R_HOSTS: &[&str] = &["127.0.0.1 ads.net", "a.ads.net"];

pub const HOSTS: &[&str] = &[
    "ads.net",
    "a.ads.net",
    "xads.net.ads.net",
    "ads.net.evil.com",
    "example.com",
    "sub.example.com",
    "tracker.co.uk",
    "b.tracker.co.uk",
    "1.2.3.4",
];

pub const PATHS: &[&str] = &[
    "/",
    "/ads",
    "/bar",
    "/ads/foo/bar",
    "/loads/foo/bar",
    "/foo/bar",
    "/xbar",
    "/bar.js",
    "/foo1bar",
    "/foo/x/bar",
    "/adserver/bar",
    "/ads/foo",
    "/ads_foo",
    "/ads.foo/",
    "/FOO/BAR",
    "/foo/bar/baz",
    // a literal `*` next to a token (in a URL it is an ordinary character), percent-escapes next to tokens
    "/*ads/foo",
    "/foo*/bar",
    "/foo%2Fbar",
    "/ads%20foo/bar",
    "/a0123456789b0123456789c0123456789d0123456789e0123456789f0123456789g012345/ads/foo",
    // rule tokens that occur in the fragment only
    "/x#/ads/foo/bar",
];

/// Paths with non-ASCII characters next to rule tokens: letters (token characters) and punctuation
/// (separators, on both the rule side and the request side of the token index).
pub const PATHS_NONASCII: &[&str] = &[
    "/ads\u{2014}foo", "/bar\u{2014}x", "/x\u{b7}bar", "/\u{2014}foo\u{2014}", "/ads/foo/bar\u{b7}", "/\u{e9}/bar", "/bar\u{e9}", "/foo/bar\u{a0}", "/ads\u{ff0f}foo/bar", "/\u{6587}ads/foo", "/\u{6587}ads\u{2014}x", "/x\u{b7}\u{e9}/bar",
    "/foo%2Fbar/\u{e9}", "/ads%20foo\u{2014}bar",
    // an ASCII rule token directly in front of the first non-ASCII letter of the URL
    "/ads\u{6587}/foo", "/foo/ads\u{e9}",
];

pub const QUERIES: &[&str] = &["", "?x=1", "?utm=1&b=2"];
pub const SCHEMES: &[&str] = &["https", "http", "ws", "wss"];

/// Initiators: same site, sub-domain of the same site, unrelated site, `domain=`-listed site,
/// absent. `{H}` is replaced by the request host.
pub const INITIATORS: &[&str] = &["https://{H}/", "https://w.{H}/", "https://unrelated.org/", "https://example.com/page", "", "http://localhost:8080/index.html"];

pub const TYPES_QUICK: &[&str] = &["script", "image", "document", "subdocument", "xmlhttprequest", "stylesheet", "websocket", "other"];
pub const TYPES_ALL: &[&str] = &[
    "script", "image", "document", "subdocument", "xmlhttprequest", "stylesheet", "websocket", "other", "main_frame", "sub_frame",
    "font", "media", "object", "ping", "beacon", "xhr", "imageset", "object_subrequest", "csp_report",
];

pub struct Req {
    pub req: Request,
    pub url: String,
    pub source: String,
    pub ty: &'static str,
}

fn urls(full: bool) -> Vec<String> {
    let mut v = vec![];
    for (si, s) in SCHEMES.iter().enumerate() {
        for h in HOSTS {
            for (pi, p) in PATHS.iter().enumerate() {
                for (qi, q) in QUERIES.iter().enumerate() {
                    if !full {
                        // reduced product: every scheme, path and query still occurs with every host
                        if si > 0 && !(pi == 1 || pi == 3 || pi == 5) {
                            continue;
                        }
                        if qi > 0 && !(pi == 0 || pi == 3 || pi == 4 || pi == 2) {
                            continue;
                        }
                        if si > 0 && qi > 0 {
                            continue;
                        }
                    }
                    v.push(format!("{}://{}{}{}", s, h, p, q));
                }
            }
        }
    }
    for h in ["ads.net", "example.com"] {
        for p in PATHS_NONASCII {
            v.push(format!("https://{}{}", h, p));
        }
    }
    // long URLs: the rule tokens come after 150 / 400 other tokens (a path of many segments, a
    // query of many parameters)
    for n in [150usize, 400] {
        let segs: String = (0..n).map(|k| format!("s{}/", k % 7)).collect();
        v.push(format!("https://ads.net/{}ads/foo/bar", segs));
        let params: String = (0..n / 2).map(|k| format!("k{}=v{}&", k % 5, k % 3)).collect();
        v.push(format!("https://example.com/p?{}utm=1&x=/foo/bar", params));
    }
    v
}

/// U_net x (initiator, type). Quick: every URL of the reduced product with 16 fixed
/// (initiator, type) pairs that contain every initiator and every type at least twice; thorough:
/// the full cross.
pub fn requests(full_urls: bool, full_cross: bool) -> Vec<Req> {
    let mut out = vec![];
    let types: &[&'static str] = if full_cross { TYPES_ALL } else { TYPES_QUICK };
    for url in urls(full_urls) {
        let host = url.split("://").nth(1).unwrap().split('/').next().unwrap().to_string();
        let mut k = 0usize;
        for (ii, init) in INITIATORS.iter().enumerate() {
            for (ti, ty) in types.iter().enumerate() {
                k += 1;
                if !full_cross {
                    // 16 of the 40 pairs: a diagonal band
                    if (ti + 8 - (ii * 3) % 8) % 8 > 2 && !(ii == 4 && ti < 4) {
                        continue;
                    }
                }
                let src = init.replace("{H}", &host);
                if let Ok(req) = Request::new(&url, &src, ty) {
                    out.push(Req { req, url: url.clone(), source: src, ty });
                }
            }
        }
        let _ = k;
    }
    out
}

/// Tags used by a list (for enumerating exactly the relevant tag subsets).
pub fn tags_in(rules: &[&str]) -> Vec<String> {
    let mut v: Vec<String> = rules
        .iter()
        .filter_map(|r| crate::oracle::netspec::tag_of(r))
        .collect();
    v.sort();
    v.dedup();
    v
}

/// Request-type options next to a modifier option (sweeps "type options" of C13 / C14): (spelling, canonical type).
pub const TYPE_OPTS: [(&str, &str); 15] = [
    ("document", "document"), ("doc", "document"), ("subdocument", "subdocument"), ("frame", "subdocument"),
    ("xhr", "xmlhttprequest"), ("xmlhttprequest", "xmlhttprequest"), ("image", "image"), ("script", "script"),
    ("css", "stylesheet"), ("stylesheet", "stylesheet"), ("ping", "ping"), ("other", "other"), ("font", "font"),
    ("media", "media"), ("object", "object"),
];
/// Request type strings and the canonical type each denotes.
pub const TYPE_REQS: [(&str, &str); 16] = [
    ("script", "script"), ("image", "image"), ("document", "document"), ("subdocument", "subdocument"),
    ("xmlhttprequest", "xmlhttprequest"), ("stylesheet", "stylesheet"), ("other", "other"), ("main_frame", "document"),
    ("sub_frame", "subdocument"), ("font", "font"), ("media", "media"), ("object", "object"), ("ping", "ping"),
    ("beacon", "ping"), ("xhr", "xmlhttprequest"), ("imageset", "image"),
];

/// Every list of request-type options of the sweep: (option text, positive canonical types,
/// negated canonical types).
pub fn type_option_lists() -> Vec<(String, Vec<&'static str>, Vec<&'static str>)> {
    let mut v: Vec<(String, Vec<&'static str>, Vec<&'static str>)> = vec![(String::new(), vec![], vec![])];
    for (sp, c) in TYPE_OPTS {
        v.push((sp.to_string(), vec![c], vec![]));
        if c != "document" {
            v.push((format!("~{}", sp), vec![], vec![c]));
        }
    }
    let base = ["document", "subdocument", "xhr", "image", "script"];
    let canon = |n: &str| TYPE_OPTS.iter().find(|(s, _)| *s == n).unwrap().1;
    for a in base {
        for b in base {
            if a == b {
                continue;
            }
            v.push((format!("{},{}", a, b), vec![canon(a), canon(b)], vec![]));
            if b != "document" {
                v.push((format!("{},~{}", a, b), vec![canon(a)], vec![canon(b)]));
                v.push((format!("~{},{}", b, a), vec![canon(a)], vec![canon(b)]));
            }
            if a != "document" && b != "document" {
                v.push((format!("~{},~{}", a, b), vec![], vec![canon(a), canon(b)]));
            }
        }
    }
    v
}
