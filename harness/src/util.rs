//! Small helpers: panic capture, hashing, index-addressable enumerations.

use std::cell::RefCell;
use std::panic::{catch_unwind, AssertUnwindSafe};

pub fn hash_str(s: &str) -> u64 {
    seahash::hash(s.as_bytes())
}

thread_local! {
    static LAST_PANIC: RefCell<Option<String>> = const { RefCell::new(None) };
}

/// Panics inside subject calls are observations, not harness crashes: silence the default
/// printer and remember the location (used by classifiers).
pub fn install_quiet_panic_hook() {
    let verbose = std::env::var("VERIF_VERBOSE_PANICS").is_ok();
    std::panic::set_hook(Box::new(move |info| {
        let loc = info
            .location()
            .map(|l| {
                let f = l.file();
                // strip absolute prefix for stable signatures
                let f = f.rsplit_once("/src/").map(|(_, r)| r).unwrap_or(f);
                format!("{}:{}", f, l.line())
            })
            .unwrap_or_else(|| "?".to_string());
        if verbose {
            eprintln!("panic at {}: {:?}", loc, info.payload().downcast_ref::<&str>());
        }
        LAST_PANIC.with(|p| *p.borrow_mut() = Some(loc));
    }));
}

/// Runs `f`; a panic becomes `Err(location)`.
pub fn catch<T>(f: impl FnOnce() -> T) -> Result<T, String> {
    match catch_unwind(AssertUnwindSafe(f)) {
        Ok(v) => Ok(v),
        Err(_) => Err(LAST_PANIC
            .with(|p| p.borrow_mut().take())
            .unwrap_or_else(|| "?".to_string())),
    }
}

/// Number of strings of length 0..=n over an alphabet of k symbols.
pub fn count_strings_upto(k: u64, n: u32) -> u64 {
    let mut t = 0u64;
    let mut p = 1u64;
    for _ in 0..=n {
        t += p;
        p = p.saturating_mul(k);
    }
    t
}

/// Decodes index -> sequence of symbol indices; shortest first, then lexicographic in the
/// alphabet order (simplest first).
pub fn nth_seq(mut idx: u64, k: u64, out: &mut Vec<usize>) {
    out.clear();
    let mut len = 0u32;
    let mut p = 1u64;
    while idx >= p {
        idx -= p;
        p *= k;
        len += 1;
    }
    for _ in 0..len {
        out.push((idx % k) as usize);
        idx /= k;
    }
    out.reverse();
}

pub fn nth_string(idx: u64, alphabet: &[&str]) -> String {
    let mut seq = vec![];
    nth_seq(idx, alphabet.len() as u64, &mut seq);
    let mut s = String::new();
    for i in seq {
        s.push_str(alphabet[i]);
    }
    s
}

/// All ordered sequences without repetition of length 0..=k over n items, index-addressable.
pub fn count_arrangements_upto(n: u64, k: u32) -> u64 {
    let mut t = 0u64;
    let mut p = 1u64;
    for l in 0..=k as u64 {
        t += p;
        if l < n {
            p *= n - l;
        } else {
            p = 0;
        }
    }
    t
}

pub fn nth_arrangement(mut idx: u64, n: u64, out: &mut Vec<usize>) {
    out.clear();
    let mut len = 0u64;
    let mut p = 1u64;
    while idx >= p {
        idx -= p;
        p *= n - len;
        len += 1;
    }
    // decode mixed radix n, n-1, ...
    let mut avail: Vec<usize> = (0..n as usize).collect();
    let mut digits = vec![];
    let mut radix = n - len + 1;
    // least significant digit corresponds to the last position
    for _ in 0..len {
        digits.push((idx % radix) as usize);
        idx /= radix;
        radix += 1;
    }
    digits.reverse();
    for d in digits {
        out.push(avail.remove(d));
    }
}

/// All permutations of 0..n (Heap's algorithm, small n only).
pub fn permutations(n: usize) -> Vec<Vec<usize>> {
    let mut res = vec![];
    let mut a: Vec<usize> = (0..n).collect();
    fn rec(k: usize, a: &mut Vec<usize>, res: &mut Vec<Vec<usize>>) {
        if k <= 1 {
            res.push(a.clone());
            return;
        }
        for i in 0..k {
            rec(k - 1, a, res);
            if k % 2 == 0 {
                a.swap(i, k - 1);
            } else {
                a.swap(0, k - 1);
            }
        }
    }
    rec(n, &mut a, &mut res);
    res.sort();
    res.dedup();
    res
}

pub fn subsets_of<T: Clone>(items: &[T]) -> Vec<Vec<T>> {
    let n = items.len();
    let mut out = Vec::with_capacity(1 << n);
    for m in 0..(1u32 << n) {
        let mut v = vec![];
        for (i, it) in items.iter().enumerate() {
            if m & (1 << i) != 0 {
                v.push(it.clone());
            }
        }
        out.push(v);
    }
    out.sort_by_key(|v| v.len());
    out
}

/// Checks that all strings hash to distinct seahash values (the properties assume no collision
/// within a case; verified for the alphabets actually used).
pub fn assert_no_hash_collisions<'a>(strings: impl IntoIterator<Item = &'a str>) {
    let mut seen = std::collections::HashMap::new();
    for s in strings {
        let h = adblock::utils::fast_hash(s);
        if let Some(prev) = seen.insert(h, s.to_string()) {
            if prev != s {
                eprintln!("machinery: seahash collision between {:?} and {:?}", prev, s);
                std::process::exit(3);
            }
        }
    }
}
