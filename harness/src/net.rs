//! Helpers around the real crate's network API used by many property binaries.

use adblock::blocker::BlockerResult;
use adblock::lists::{FilterFormat, FilterSet, ParseOptions, RuleTypes};
use adblock::regex_manager::RegexManagerDiscardPolicy;
use adblock::request::Request;
use adblock::resources::{MimeType, PermissionMask, Resource, ResourceType};
use adblock::Engine;
use base64::{engine::Engine as _, prelude::BASE64_STANDARD};
use std::collections::BTreeSet;
use std::time::Duration;

/// The comparable part of a `BlockerResult` plus the CSP answer (debug text kept separately).
#[derive(Clone, Debug, PartialEq, Eq, Hash, PartialOrd, Ord)]
pub struct Verdict {
    pub matched: bool,
    pub important: bool,
    pub exception: bool,
    pub redirect: Option<String>,
    pub rewritten: Option<String>,
}

impl Verdict {
    pub fn of(r: &BlockerResult) -> Verdict {
        Verdict {
            matched: r.matched,
            important: r.important,
            exception: r.exception.is_some(),
            redirect: r.redirect.clone(),
            rewritten: r.rewritten_url.clone(),
        }
    }
    pub fn none() -> Verdict {
        Verdict {
            matched: false,
            important: false,
            exception: false,
            redirect: None,
            rewritten: None,
        }
    }
    pub fn short(&self) -> String {
        format!(
            "{}{}{}{}{}",
            if self.matched { "B" } else { "-" },
            if self.important { "I" } else { "-" },
            if self.exception { "E" } else { "-" },
            if self.redirect.is_some() { "R" } else { "-" },
            if self.rewritten.is_some() { "W" } else { "-" }
        )
    }
}

pub fn csp_set(s: &Option<String>) -> Option<BTreeSet<String>> {
    s.as_ref()
        .map(|s| s.split(',').map(|x| x.to_string()).collect())
}

pub fn opts_std() -> ParseOptions {
    ParseOptions::default()
}

pub fn opts_hosts() -> ParseOptions {
    ParseOptions {
        format: FilterFormat::Hosts,
        ..ParseOptions::default()
    }
}

pub fn opts_perm(bits: u8) -> ParseOptions {
    ParseOptions {
        permissions: PermissionMask::from_bits(bits),
        ..ParseOptions::default()
    }
}

pub fn opts_types(rt: RuleTypes) -> ParseOptions {
    ParseOptions {
        rule_types: rt,
        ..ParseOptions::default()
    }
}

/// Builds an engine from standard-format rules. The regex discard policy is switched to "never"
/// so that the wall clock cannot influence a run (DESIGN §3).
pub fn engine(rules: &[&str], debug: bool, optimize: bool) -> Engine {
    let mut fs = FilterSet::new(debug);
    fs.add_filters(rules, ParseOptions::default());
    let mut e = Engine::from_filter_set(fs, optimize);
    never_discard(&mut e);
    e
}

pub fn engine_from_set(fs: FilterSet, optimize: bool) -> Engine {
    let mut e = Engine::from_filter_set(fs, optimize);
    never_discard(&mut e);
    e
}

pub fn never_discard(e: &mut Engine) {
    e.set_regex_discard_policy(RegexManagerDiscardPolicy {
        cleanup_interval: Duration::ZERO,
        discard_unused_time: Duration::from_secs(3600),
    });
}

/// Every following query runs the cleanup and discards every compiled regex.
pub fn always_discard(e: &mut Engine) {
    e.set_regex_discard_policy(RegexManagerDiscardPolicy {
        cleanup_interval: Duration::from_nanos(1),
        discard_unused_time: Duration::ZERO,
    });
}

pub fn req(url: &str, src: &str, ty: &str) -> Option<Request> {
    Request::new(url, src, ty).ok()
}

pub fn b64(s: &str) -> String {
    BASE64_STANDARD.encode(s)
}

pub fn resource(
    name: &str,
    aliases: &[&str],
    kind: ResourceType,
    content: &str,
    deps: &[&str],
    perm: u8,
) -> Resource {
    Resource {
        name: name.to_string(),
        aliases: aliases.iter().map(|s| s.to_string()).collect(),
        kind,
        content: b64(content),
        dependencies: deps.iter().map(|s| s.to_string()).collect(),
        permission: PermissionMask::from_bits(perm),
    }
}

/// The fixed resource store used by the network properties (C01, C05, C06, C08, C13).
///  a      : gif, redirectable                (alias a-alias)
///  b      : javascript, redirectable
///  perm   : javascript, needs permission bit 1 (never a redirect)
///  fn     : fn/javascript (not redirectable)
///  tpl    : template (not redirectable)
///  `missing` is deliberately absent.
pub fn std_resources() -> Vec<Resource> {
    vec![
        resource("a", &["a-alias"], ResourceType::Mime(MimeType::ImageGif), "GIF89a", &[], 0),
        resource("b", &[], ResourceType::Mime(MimeType::ApplicationJavascript), "(function(){})()", &[], 0),
        resource("perm", &[], ResourceType::Mime(MimeType::ApplicationJavascript), "perm()", &[], 1),
        resource("ns:a", &[], ResourceType::Mime(MimeType::TextPlain), "ns-a", &[], 0),
        resource("fn", &[], ResourceType::Mime(MimeType::FnJavascript), "function fn(){}", &[], 0),
        resource("tpl", &[], ResourceType::Template, "tpl({{1}})", &[], 0),
        // binary content (not UTF-8) under a kind outside the table (`application/octet-stream`)
        // and under a media kind: both are loaded and served as they are
        Resource { content: "//4A".to_string(), ..resource("bin", &[], ResourceType::Mime(MimeType::Unknown), "", &[], 0) },
        Resource { content: "AAH/gA==".to_string(), ..resource("vid", &[], ResourceType::Mime(MimeType::VideoMp4), "", &[], 0) },
        // content that is not base64 under a media kind: refused, whatever the kind (the name stays
        // free for the well-formed resource that follows)
        Resource { content: "%%%%".to_string(), ..resource("corrupt", &["corrupt-alias"], ResourceType::Mime(MimeType::ImageGif), "", &[], 0) },
        resource("corrupt", &[], ResourceType::Mime(MimeType::TextPlain), "ok", &[], 0),
        // identifier collisions (order matters): `bad` is rejected because its second alias is
        // taken; it must leave no trace, so `s1x` (its first alias) can be loaded afterwards as a
        // resource of its own; `bad2` is rejected the same way, then a resource really named
        // `bad2` is loaded: the alias `leak` of the rejected one resolves to nothing
        resource("bad", &["s1x", "a-alias"], ResourceType::Mime(MimeType::TextPlain), "bad", &[], 0),
        resource("s1x", &[], ResourceType::Mime(MimeType::TextPlain), "s1x", &[], 0),
        resource("bad2", &["leak", "a-alias"], ResourceType::Mime(MimeType::TextPlain), "bad2-rejected", &[], 0),
        resource("bad2", &[], ResourceType::Mime(MimeType::TextPlain), "bad2", &[], 0),
        // a resource whose own NAME is an identifier already taken as an alias (of `a`): rejected,
        // `a-alias` keeps resolving to `a`, and the newcomer's alias `shadow` resolves to nothing;
        // and one whose alias is the NAME of a loaded resource (`b`): rejected as well
        resource("a-alias", &["shadow"], ResourceType::Mime(MimeType::TextPlain), "shadow", &[], 0),
        resource("bad3", &["b"], ResourceType::Mime(MimeType::TextPlain), "bad3", &[], 0),
    ]
}

/// The entries of `std_resources` that the store must reject (an alias or the name is taken).
pub fn deliberately_rejected(r: &Resource) -> bool {
    r.name == "a-alias" || (r.name.starts_with("bad") && r.aliases.iter().any(|a| a == "a-alias" || a == "b")) || r.content == "%%%%"
}

pub fn data_url(mime: &str, content: &str) -> String {
    format!("data:{};base64,{}", mime, b64(content))
}
