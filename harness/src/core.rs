//! Plumbing shared by every property binary: tiers, bounded-exhaustive parallel enumeration (BX),
//! evidence files, violation classification against known_findings.txt, replay files.
//!
//! Exit codes (DESIGN §2.1): 0 held (KNOWN-FINDING lines allowed), 1 at least one VIOLATION line,
//! 2/3 machinery failure.

use serde_json::{json, Value};
use std::collections::{BTreeMap, HashSet};
use std::path::PathBuf;
use std::sync::atomic::{AtomicBool, AtomicU64, Ordering};
use std::sync::Mutex;
use std::time::Instant;

#[derive(Clone, Copy, PartialEq, Eq, Debug)]
pub enum Tier {
    Quick,
    Thorough,
}

impl Tier {
    pub fn name(&self) -> &'static str {
        match self {
            Tier::Quick => "quick",
            Tier::Thorough => "thorough",
        }
    }
    pub fn pick<T>(&self, q: T, t: T) -> T {
        match self {
            Tier::Quick => q,
            Tier::Thorough => t,
        }
    }
}

pub fn verif_root() -> PathBuf {
    if let Ok(p) = std::env::var("VERIF_ROOT") {
        return PathBuf::from(p);
    }
    PathBuf::from("/verif")
}

/// One mismatch between the real code and the oracle.
#[derive(Clone, Debug)]
pub struct Mismatch {
    /// Classifier output: names the oracle clause violated and the structural cause. Matched
    /// against `open` entries of known_findings.txt.
    pub sig: String,
    /// What was observed vs. expected, human readable.
    pub what: String,
    /// Self-contained case description; `replay` of the same binary re-executes it.
    pub case: Value,
    /// Size used to keep the simplest witness per signature.
    pub size: u64,
}

/// Per-worker accumulator, merged into the context at the end of a parallel sweep.
#[derive(Default)]
pub struct Local {
    pub evaluations: u64,
    pub states: u64,
    pub transitions: u64,
    pub compared: u64,
    pub unspecified: u64,
    pub nontrivial: u64,
    pub histogram: BTreeMap<String, u64>,
    pub counters: BTreeMap<String, u64>,
    pub mismatches: BTreeMap<String, (u64, Mismatch)>,
    pub samples: Vec<Value>,
    pub distinct: HashSet<u64>,
}

impl Local {
    pub fn hist(&mut self, k: &str) {
        if let Some(v) = self.histogram.get_mut(k) {
            *v += 1;
        } else {
            self.histogram.insert(k.to_string(), 1);
        }
    }
    pub fn count(&mut self, k: &str, n: u64) {
        if let Some(v) = self.counters.get_mut(k) {
            *v += n;
        } else {
            self.counters.insert(k.to_string(), n);
        }
    }
    pub fn mismatch(&mut self, m: Mismatch) {
        match self.mismatches.get_mut(&m.sig) {
            Some((n, old)) => {
                *n += 1;
                if m.size < old.size {
                    *old = m;
                }
            }
            None => {
                self.mismatches.insert(m.sig.clone(), (1, m));
            }
        }
    }
    pub fn merge(&mut self, o: Local) {
        self.evaluations += o.evaluations;
        self.states += o.states;
        self.transitions += o.transitions;
        self.compared += o.compared;
        self.unspecified += o.unspecified;
        self.nontrivial += o.nontrivial;
        for (k, v) in o.histogram {
            *self.histogram.entry(k).or_insert(0) += v;
        }
        for (k, v) in o.counters {
            *self.counters.entry(k).or_insert(0) += v;
        }
        for (k, (n, m)) in o.mismatches {
            match self.mismatches.get_mut(&k) {
                Some((n0, old)) => {
                    *n0 += n;
                    if m.size < old.size {
                        *old = m;
                    }
                }
                None => {
                    self.mismatches.insert(k, (n, m));
                }
            }
        }
        if self.samples.len() < 8 {
            self.samples.extend(o.samples.into_iter().take(8));
        }
        self.distinct.extend(o.distinct);
    }
}

#[derive(Clone, Debug)]
pub struct Finding {
    pub status: String, // open | fixed
    pub property: String,
    pub sig: String,
    pub what: String,
    pub commit: Option<String>,
    pub witness: Option<Value>,
}

pub fn load_findings() -> Vec<Finding> {
    let p = verif_root().join("known_findings.txt");
    let txt = std::fs::read_to_string(&p).unwrap_or_default();
    let mut out = vec![];
    for line in txt.lines() {
        let line = line.trim();
        if line.is_empty() || line.starts_with('#') {
            continue;
        }
        // "<status>: property=<id> [<commit>] sig=<sig> :: <what> [:: witness=<json>]"
        let (status, rest) = match line.split_once(": ") {
            Some(x) => x,
            None => continue,
        };
        let mut parts = rest.split(" :: ");
        let head = parts.next().unwrap_or("");
        let what = parts.next().unwrap_or("").to_string();
        let witness = parts
            .next()
            .and_then(|w| w.strip_prefix("witness="))
            .and_then(|w| serde_json::from_str(w).ok());
        let mut property = String::new();
        let mut sig = String::new();
        let mut commit = None;
        for tok in head.split_whitespace() {
            if let Some(v) = tok.strip_prefix("property=") {
                property = v.to_string();
            } else if let Some(v) = tok.strip_prefix("sig=") {
                sig = v.to_string();
            } else {
                commit = Some(tok.to_string());
            }
        }
        out.push(Finding {
            status: status.to_string(),
            property,
            sig,
            what,
            commit,
            witness,
        });
    }
    out
}

pub struct Ctx {
    pub id: &'static str,
    pub tier: Tier,
    pub seed: u64,
    pub start: Instant,
    pub cap_s: f64,
    pub threads: usize,
    pub total: Mutex<Local>,
    pub capped: AtomicBool,
    pub notes: Mutex<Vec<String>>,
    pub bounds: Mutex<BTreeMap<String, Value>>,
    pub findings: Vec<Finding>,
    pub nonexhaustive_dims: Mutex<Vec<String>>,
}

impl Ctx {
    pub fn new(id: &'static str, tier: Tier) -> Ctx {
        let seed = std::env::var("VERIF_SEED")
            .ok()
            .and_then(|s| s.parse::<u64>().ok())
            .unwrap_or(0);
        let cap_s = std::env::var("VERIF_CAP_S")
            .ok()
            .and_then(|s| s.parse::<f64>().ok())
            .unwrap_or(tier.pick(45.0, 1500.0));
        let threads = std::env::var("VERIF_THREADS")
            .ok()
            .and_then(|s| s.parse::<usize>().ok())
            .unwrap_or_else(|| {
                std::thread::available_parallelism()
                    .map(|n| n.get())
                    .unwrap_or(8)
                    .min(16)
            });
        Ctx {
            id,
            tier,
            seed,
            start: Instant::now(),
            cap_s,
            threads,
            total: Mutex::new(Local::default()),
            capped: AtomicBool::new(false),
            notes: Mutex::new(vec![]),
            bounds: Mutex::new(BTreeMap::new()),
            findings: load_findings()
                .into_iter()
                .filter(|f| f.property == id)
                .collect(),
            nonexhaustive_dims: Mutex::new(vec![]),
        }
    }

    pub fn elapsed(&self) -> f64 {
        self.start.elapsed().as_secs_f64()
    }

    pub fn over_cap(&self) -> bool {
        self.elapsed() > self.cap_s
    }

    pub fn note(&self, s: impl Into<String>) {
        self.notes.lock().unwrap().push(s.into());
    }

    pub fn bound(&self, k: &str, v: impl Into<Value>) {
        self.bounds.lock().unwrap().insert(k.to_string(), v.into());
    }

    pub fn nonexhaustive(&self, dim: impl Into<String>) {
        self.nonexhaustive_dims.lock().unwrap().push(dim.into());
    }

    pub fn merge(&self, l: Local) {
        self.total.lock().unwrap().merge(l);
    }

    /// Bounded-exhaustive sweep over indices 0..n, sharded over worker threads by an atomic chunk
    /// dispenser. VERIF_SEED only rotates the starting offset; the explored set is always 0..n.
    /// Stops early (and marks the run as capped) when the wall-clock cap is hit.
    pub fn par_range<F>(&self, name: &str, n: u64, chunk: u64, f: F)
    where
        F: Fn(u64, &mut Local) + Sync,
    {
        if n == 0 {
            return;
        }
        let next = AtomicU64::new(0);
        let done = AtomicU64::new(0);
        let offset = if n > 0 { self.seed % n } else { 0 };
        let chunk = chunk.max(1);
        let t0 = Instant::now();
        std::thread::scope(|sc| {
            for _ in 0..self.threads {
                sc.spawn(|| {
                    let mut local = Local::default();
                    loop {
                        if self.capped.load(Ordering::Relaxed) {
                            break;
                        }
                        let s = next.fetch_add(chunk, Ordering::Relaxed);
                        if s >= n {
                            break;
                        }
                        let e = (s + chunk).min(n);
                        for k in s..e {
                            let i = (k + offset) % n;
                            f(i, &mut local);
                        }
                        done.fetch_add(e - s, Ordering::Relaxed);
                        if self.over_cap() {
                            self.capped.store(true, Ordering::Relaxed);
                        }
                    }
                    self.merge(local);
                });
            }
        });
        let d = done.load(Ordering::Relaxed);
        let mut b = self.bounds.lock().unwrap();
        b.insert(
            format!("sweep:{}", name),
            json!({"indices": n, "completed": d, "wall_s": (t0.elapsed().as_secs_f64()*1000.0).round()/1000.0}),
        );
        if d < n {
            drop(b);
            self.note(format!(
                "cap hit in sweep '{}': completed {} of {} indices",
                name, d, n
            ));
        }
    }

    /// Runs the regression corpus: witnesses of `fixed` findings of this property.
    pub fn replay_fixed<F>(&self, replay: F)
    where
        F: Fn(&Value, &mut Local),
    {
        let mut l = Local::default();
        let mut n = 0;
        for f in self.findings.iter().filter(|f| f.status == "fixed") {
            if let Some(w) = &f.witness {
                replay(w, &mut l);
                n += 1;
            }
        }
        l.count("fixed_witnesses_replayed", n);
        self.merge(l);
    }

    /// Writes evidence, prints verdict lines, returns the process exit code.
    pub fn finish(&self, level: &str, rule: &str, assumptions: &[&str]) -> i32 {
        let total = std::mem::take(&mut *self.total.lock().unwrap());
        let root = verif_root();
        let _ = std::fs::create_dir_all(root.join("evidence"));
        let _ = std::fs::create_dir_all(root.join("replays"));

        let mut violations = 0usize;
        let mut known_lines = vec![];
        let mut violation_lines = vec![];
        let mut known_summary = vec![];
        for (sig, (n, m)) in total.mismatches.iter() {
            let open = self
                .findings
                .iter()
                .find(|f| f.status == "open" && &f.sig == sig);
            if let Some(f) = open {
                known_lines.push(format!(
                    "KNOWN-FINDING: property={} sig={} cases={} {}",
                    self.id, sig, n, f.what
                ));
                known_summary.push(json!({"sig": sig, "cases": n, "what": f.what, "witness_this_run": m.case}));
            } else {
                violations += 1;
                let h = crate::util::hash_str(&format!("{}|{}", sig, m.case));
                let path = root
                    .join("replays")
                    .join(format!("{}-{:016x}.json", self.id, h));
                let body = json!({"property": self.id, "sig": sig, "what": m.what, "cases_with_this_signature": n, "case": m.case});
                let _ = std::fs::write(&path, serde_json::to_string_pretty(&body).unwrap());
                violation_lines.push(format!(
                    "VIOLATION property={} replay={}",
                    self.id,
                    path.display()
                ));
                eprintln!(
                    "  violation sig={} cases={} what={} case={}",
                    sig, n, m.what, m.case
                );
            }
        }

        let capped = self.capped.load(Ordering::Relaxed);
        let nonex = self.nonexhaustive_dims.lock().unwrap().clone();
        let exhaustive = !capped && nonex.is_empty();
        let distinct_nontrivial = if total.distinct.is_empty() {
            total.nontrivial
        } else {
            total.distinct.len() as u64
        };
        let mut samples = total.samples.clone();
        if samples.is_empty() {
            samples.push(json!("(no sample recorded)"));
        }
        let bounds: BTreeMap<String, Value> = self.bounds.lock().unwrap().clone();
        let coverage = json!({
            "evaluations": total.evaluations,
            "distinct_nontrivial": distinct_nontrivial,
            "rule": rule,
            "samples": samples,
            "states": total.states.max(1),
            "transitions": total.transitions.max(1),
            "traces_validated_against_impl": total.compared,
            "unspecified_cases": total.unspecified,
            "exhaustive": exhaustive,
            "cap_hit": capped,
            "non_exhaustive_dimensions": nonex,
            "bounds": bounds,
            "outcome_histogram": total.histogram,
            "counters": total.counters,
            "known_findings_seen": known_summary,
            "notes": *self.notes.lock().unwrap(),
            "threads": self.threads,
        });
        let ev = json!({
            "property_id": self.id,
            "tier": self.tier.name(),
            "seed": self.seed,
            "level": level,
            "coverage": coverage,
            "assumptions": assumptions,
            "wall_s": (self.elapsed()*1000.0).round()/1000.0,
            "violations": violations,
        });
        let evp = root.join("evidence").join(format!("{}.json", self.id));
        if let Err(e) = std::fs::write(&evp, serde_json::to_string_pretty(&ev).unwrap()) {
            eprintln!("machinery: cannot write evidence {}: {}", evp.display(), e);
            return 3;
        }
        // a second copy per tier, so that the last quick and the last thorough run are both on record
        // (evidence/<id>.json is whichever ran last)
        let by_tier = root.join("evidence").join("by-tier");
        let _ = std::fs::create_dir_all(&by_tier);
        let _ = std::fs::write(
            by_tier.join(format!("{}.{}.json", self.id, self.tier.name())),
            serde_json::to_string_pretty(&ev).unwrap(),
        );

        for l in &known_lines {
            println!("{}", l);
        }
        for l in &violation_lines {
            println!("{}", l);
        }
        println!(
            "{} {}: evaluations={} compared={} nontrivial={} unspecified={} outcomes={} violations={} known={} exhaustive={} wall={:.1}s",
            self.id,
            self.tier.name(),
            total.evaluations,
            total.compared,
            distinct_nontrivial,
            total.unspecified,
            total.histogram.len(),
            violations,
            known_lines.len(),
            exhaustive,
            self.elapsed()
        );

        // vacuity guards (DESIGN §7): a check that compared nothing is a machinery failure
        if total.compared == 0 || distinct_nontrivial < 2 {
            eprintln!("machinery: vacuous run (compared={} nontrivial={})", total.compared, distinct_nontrivial);
            return 3;
        }
        if violations > 0 {
            1
        } else {
            0
        }
    }
}

/// Standard `main` for a property binary:
///   cNN <quick|thorough>            run the check
///   cNN replay <path>               re-execute the case stored in a replay file
pub fn run_main(
    id: &'static str,
    check: impl FnOnce(&Ctx) -> i32,
    replay: impl Fn(&Value, &mut Local),
) -> ! {
    crate::util::install_quiet_panic_hook();
    let args: Vec<String> = std::env::args().collect();
    let mode = args.get(1).map(|s| s.as_str()).unwrap_or("quick");
    match mode {
        "replay" => {
            let path = args.get(2).expect("replay <path>");
            let txt = std::fs::read_to_string(path).expect("cannot read replay file");
            let v: Value = serde_json::from_str(&txt).expect("replay file is not JSON");
            let case = v.get("case").cloned().unwrap_or(v.clone());
            let mut l1 = Local::default();
            replay(&case, &mut l1);
            let mut l2 = Local::default();
            replay(&case, &mut l2);
            let k1: Vec<_> = l1.mismatches.keys().cloned().collect();
            let k2: Vec<_> = l2.mismatches.keys().cloned().collect();
            if k1 != k2 {
                eprintln!("machinery: replay diverged between two executions: {:?} vs {:?}", k1, k2);
                std::process::exit(3);
            }
            if l1.mismatches.is_empty() {
                println!("REPLAY property={} result=holds", id);
                std::process::exit(0);
            }
            let findings = load_findings();
            let mut code = 0;
            for (sig, (_, m)) in l1.mismatches.iter() {
                if let Some(f) = findings
                    .iter()
                    .find(|f| f.status == "open" && f.property == id && &f.sig == sig)
                {
                    println!("KNOWN-FINDING: property={} sig={} {}", id, sig, f.what);
                } else {
                    println!("VIOLATION property={} replay={}", id, path);
                    code = 1;
                }
                eprintln!("  sig={} what={}", sig, m.what);
            }
            std::process::exit(code);
        }
        "quick" | "thorough" => {
            let tier = if mode == "quick" {
                Tier::Quick
            } else {
                Tier::Thorough
            };
            let ctx = Ctx::new(id, tier);
            ctx.replay_fixed(&replay);
            let code = check(&ctx);
            std::process::exit(code);
        }
        other => {
            eprintln!("usage: {} <quick|thorough|replay <path>> (got {})", id, other);
            std::process::exit(2);
        }
    }
}
