//! Verification harness for brave/adblock-rust: bounded-exhaustive exploration of the real code
//! against reference models (see /verif/DESIGN.md).
pub mod alloc;
pub mod alpha;
pub mod core;
pub mod net;
pub mod netsweep;
pub mod oracle;
pub mod util;

pub use crate::core::{run_main, Ctx, Local, Mismatch, Tier};
pub use crate::oracle::Tri;
