#!/usr/bin/env python3
import json, sys, glob, jsonschema
schema = json.load(open('/root/.vp/EVIDENCE.schema.json'))
bad = 0
for f in sorted(glob.glob('/verif/evidence/*.json')) + sorted(glob.glob('/verif/evidence/by-tier/*.json')):
    try:
        e = json.load(open(f)); jsonschema.validate(e, schema)
        c = e['coverage']
        print(f"{e['property_id']} {e['tier']:8s} ok  states={c.get('states')} transitions={c.get('transitions')} validated={c.get('traces_validated_against_impl')} nontrivial={c.get('distinct_nontrivial')} exhaustive={c.get('exhaustive')} wall={e['wall_s']}")
    except Exception as ex:
        bad += 1; print(f, 'INVALID', str(ex)[:200])
sys.exit(1 if bad else 0)
