#!/usr/bin/env python3
"""Regenerates /verif/MANIFEST.json from the table below and validates it against the schema."""
import json, os, subprocess, sys
ROOT = os.path.dirname(os.path.dirname(os.path.abspath(__file__)))
props = [json.loads(l) for l in open(os.path.join(ROOT, 'properties.jsonl'))]
ids = [p['id'] for p in props]

# id -> (engine, level category, technique, level text, level note, design ref)
CHECKS = {
 'C02': ('BX', 'model_checking',
   'bounded-exhaustive enumeration of all pattern bodies x anchor modes x URL universe on the real matcher, compared with an independent reference matcher',
   'Every pattern body up to length 6 (quick) / 7 (thorough) over {a,b,.,/,*,^} in all six anchor modes is parsed by the real parser and matched by the real matcher against every URL of a universe built to make the anchor text collide (repeated, prefix, suffix, userinfo); each verdict is compared with a 100-line reference written from the property text; weakening relations and a curated full-regex universe are added. Exhaustive within the bound, no sampling.',
   'Reference matcher is trusted (calibrated: agrees with the real matcher on everything outside the recorded defect D2). regex crate trusted for full-regex rules. Spellings the property leaves open are executed but not compared (Unspecified).',
   'DESIGN §4 C02'),
}
NOT_APPLICABLE = {}

checks = []
for i in ids:
    if i in CHECKS:
        eng, cat, tech, text, note, ref = CHECKS[i]
        checks.append({
            'property_id': i,
            'quick_cmd': f'./run {i} quick',
            'thorough_cmd': f'./run {i} thorough',
            'evidence_file': f'/verif/evidence/{i}.json',
            'replay_cmd_template': './run replay {path}',
            'engine': eng,
            'level_claimed': {'category': cat, 'text': text, 'design_ref': ref},
            'level_note': note,
            'technique': tech,
        })
na = [{'property_id': i, 'reason': NOT_APPLICABLE.get(i, 'check not built yet in this revision of /verif (planned: DESIGN §4); no claim is made')} for i in ids if i not in CHECKS]

hooks_commits = subprocess.run(['git', '-C', '/repo', 'log', '--format=%H', '--grep=^verif hooks'], capture_output=True, text=True).stdout.split()
manifest = {
 'version': 1,
 'setup_cmd': './setup.sh',
 'hooks': {
   'guard': 'cfg(brave_adblock_rust_verif)',
   'enable': 'RUSTFLAGS --cfg brave_adblock_rust_verif, set by /verif/harness/.cargo/config.toml for every harness build (the harness path-depends on /repo)',
   'baseline_off_cmd': './baseline.sh',
   'source_commits': hooks_commits,
   'add_only': True,
 },
 'engines': [
   {'name': 'BX', 'path': 'harness/src/core.rs', 'serves_properties': [i for i in ids if i in CHECKS and CHECKS[i][0].startswith('BX')], 'kind_free_text': 'bounded-exhaustive differential explorer: mixed-radix enumeration of finite input universes on the real code, 16 worker threads, reference model or differential oracle per case'},
   {'name': 'HX', 'path': 'harness/src/hx.rs', 'serves_properties': [i for i in ids if i in CHECKS and 'HX' in CHECKS[i][0]], 'kind_free_text': 'history explorer: DFS over all operation sequences up to a depth on fresh real engines, step-by-step comparison with a reference model; deterministic LIFO allocator'},
   {'name': 'SX', 'path': 'harness/src/sx.rs', 'serves_properties': [i for i in ids if i in CHECKS and 'SX' in CHECKS[i][0]], 'kind_free_text': 'schedule explorer: stateless DFS over thread interleavings of the real Sync build with iterative preemption bounding, blocking decided by the real Mutex::try_lock'},
   {'name': 'FX', 'path': 'harness/src/fx.rs', 'serves_properties': [i for i in ids if i in CHECKS and 'FX' in CHECKS[i][0]], 'kind_free_text': 'fault enumerator: every prefix / bit flip / structural substitution of valid serialized buffers, loaded in child processes under an allocation ceiling'},
 ],
 'checks': checks,
 'not_applicable': na,
 'notes': 'Every check: `./run <ID> <tier>` rebuilds the harness against /repo\'s working tree (cargo fingerprinting) with the hook cfg on, explores, rewrites evidence/<ID>.json, prints KNOWN-FINDING lines for entries of known_findings.txt and VIOLATION lines for anything else. Exit 2/3 = machinery failure, never a verdict.',
}
json.dump(manifest, open(os.path.join(ROOT, 'MANIFEST.json'), 'w'), indent=1)
try:
    import jsonschema
    jsonschema.validate(manifest, json.load(open('/root/.vp/MANIFEST.schema.json')))
    print('MANIFEST.json valid;', len(checks), 'checks,', len(na), 'not claimed')
except ImportError:
    print('jsonschema not importable; written without validation')
