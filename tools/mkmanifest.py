#!/usr/bin/env python3
"""Regenerates /verif/MANIFEST.json from the table below and validates it against the schema."""
import json, os, subprocess, sys
ROOT = os.path.dirname(os.path.dirname(os.path.abspath(__file__)))
props = [json.loads(l) for l in open(os.path.join(ROOT, 'properties.jsonl'))]
ids = [p['id'] for p in props]

# id -> (engine, level category, technique, level text, level note, design ref)
T_BX = 'bounded-exhaustive enumeration of a finite input universe on the real code (explicit-state, no sampling), '
CHECKS = {
 'C01': ('BX', 'model_checking', T_BX + 'differential against the public per-rule matcher + independent precedence combiner',
   'All ordered lists of <= 2 (quick) / <= 3 (thorough) rules of a 61-rule alphabet (one rule per shortcut of the token index, twins that differ in one attribute a dedup key could miss, hosts lines) are built into real engines and queried under every tag subset with a request universe in which every rule token occurs as whole token, proper suffix, proper prefix, first and last; bucket-forcing lists store each rule under each of its tokens in turn; every cell of the shared rule cube (about 55 pattern shapes x 25 option sets x exception) runs alone and next to 7 partner rules; every (blocking, exception, modifier) triple of the alphabet; n same-bucket rules for every n up to 120 / 300; a frozen corpus of 3 613 real rules is loaded as one list against URLs derived from every rule; the request universe includes non-ASCII paths and URLs of 150 / 400 tokens; every verdict field is compared with rule-by-rule evaluation; lists of <= 2 rules, the shared-domain-bucket lists, an eighth (thorough: half) of the cube and every fourth bucket size are also handed rule by rule to an empty blocker (Blocker::add_filter), with the same comparison. Exhaustive within the bound.',
   'Per-rule match is taken from the real NetworkFilter::matches (its correctness is C02/C03); combiner, redirect, removeparam and CSP references are independent. seahash collision freedom checked for the alphabet.', 'DESIGN §4 C01'),
 'C02': ('BX', 'model_checking', T_BX + 'compared with an independent reference pattern matcher',
   'Every pattern body up to length 6 (quick) / 7 (thorough) over {a,b,.,/,*,^} in eight anchor modes (none, |, trailing |, both, ||, || with trailing |, and two scheme-prefixed left anchors) is parsed by the real parser and matched by the real matcher against every URL of a universe built to make the anchor text collide (repeated, prefix, suffix, userinfo); each verdict is compared with a 100-line reference written from the property text; URLs with an explicit port (the text behind the hostname is not the path); weakening relations and a curated full-regex universe are added.',
   'Reference matcher trusted (calibrated: agrees with the repaired matcher on the whole universe). regex crate trusted for full-regex rules. Spellings the property leaves open are executed but not compared.', 'DESIGN §4 C02'),
 'C03': ('BX', 'model_checking', T_BX + 'compared with an independent option predicate over an option AST',
   'The whole type x party x scheme cube (every purely positive / purely negated type list, document, 7 party spellings, exception, important, scheme-pinned forms), the domain-list x initiator cube (also with the initiator option written twice, once all-positive and once all-negated) and long domain lists (cube E: union pre-filters) are enumerated against all request type strings, schemes and initiators, at the matcher and on single-rule engines.',
   'Mixed positive+negated type lists, a party option with an absent initiator, |ws:// vs wss:// are Unspecified; a positive domain= list with an absent initiator is not satisfied (D5).', 'DESIGN §4 C03'),
 'C04': ('BX', 'model_checking', T_BX + 'precedence reference + monotonicity relation + alias-normalising badfilter oracle',
   'Every base list x extra rule x insertion position (two real engines each, plus a blocker that receives the rules one by one when the extra rule comes last) is checked for blocked==spec - also through the two restricted forms of the check - and both monotonicity implications; every ordered pair of 188 rule spellings, of a pattern cube, an option cube and of 63 long-field and non-ASCII spellings (hostnames and paths of 20-40 bytes that differ in one early or inner byte, Cyrillic / accented pattern texts) is checked for badfilter cancellation against an oracle that normalises aliases and option order.',
   'Tag differences between a rule and its badfilter twin, and semantically-equal-but-textually-different type lists, are outside the domain.', 'DESIGN §4 C04'),
 'C05': ('BX', 'model_checking', T_BX + 'differential between five configurations of the real code (optimised at build, unoptimised, optimize() twice on the live blocker, optimize() after every tag switch, optimised build + add_filter + optimize())',
   'All ordered lists <= 2 / unordered lists of 3 (quick; +1 thorough) over a 75-rule alphabet whose rules share buckets (including the wildcard bucket of token-less rules, empty patterns, an uncompilable regex) and differ in one fusion-relevant attribute or one mask bit; all pairs (thorough: triples) of rule-cube cells with equal options and all cross-option pairs of same-bucket patterns; n fusable same-bucket rules for every n up to 130 / 400 plus sizes around powers of two up to 3 000 (plain and RegexSet families); five real blockers per list, under every tag subset.',
   'The unoptimised engine is the reference (its own correctness is C01).', 'DESIGN §4 C05'),
 'C06': ('HX', 'model_checking', 'exhaustive enumeration of operation histories up to a depth on fresh real subjects under a deterministic LIFO allocator, step-by-step comparison with a freshly built engine for the model state',
   'Five scenarios (tags + regex cache + serialisation, rejected loads, a mid-range discard policy driven by explicit steps of the virtual clock of the hooks, and the secondary entry points tag_exists / restricted checks / class-id lookup / resource reload on an Engine; add_filter + optimize + enable/disable_tags on a Blocker; cosmetic + scriptlet resources with refused and accepted add_resource calls (the model tracks the accepted extras); batch vs incremental construction; first-use orders of regex rules on the virtual clock); every history of depth 5/4/5 (quick) or 6/5/6 (thorough) whose last operation is a query is executed (S1: every operation at depth d-1, the core operations at depth d); environment answers (cleanup timer fired, regex discarded) are operations of the alphabet; failing histories are shrunk before classification.',
   'Hash-map iteration order inside the engine is not controlled; violating histories are re-executed twice and under a never-reuse allocator.', 'DESIGN §4 C06'),
 'C07': ('BX+HX', 'model_checking', 'exhaustive enumeration of rule subsets x tag sets and of tag-operation histories on real engines, compared with a set-algebra model and a tag-stripped reference engine',
   'All subsets of a 15-rule pool (every category a tag combines with, same-bucket untagged neighbours) x optimise x 8 tag sets; all sequences of <= 3 (quick) / 4 (thorough) of 33 tag/deserialize operations on 4 lists; tag_exists after every step, full battery at the end; 9 tag-name spellings (empty, padded, case twins, inner blank, non-ASCII) on the rule side x the API side x three ways to reach a set x 4 rule categories x optimise; every sequence of <= 4 (thorough 5) of 11 operations (tag switches, add_filter of a tagged rule of each category) on a Blocker, compared with a blocker built in one go.',
   'The tag-stripped reference engine is built by the same crate (differential).', 'DESIGN §4 C07'),
 'C08': ('BX', 'model_checking', T_BX + 'differential between the original engine and the engine reloaded from its serialisation, field by field',
   'All ordered lists of <= 2 (quick) / <= 3 (thorough) rules of a 101-rule alphabet (every network and cosmetic rule shape, twins) x debug x optimise x list permission (including mixed-permission lists), plus every rule-cube cell alone and with a same-pattern neighbour, serialised and loaded into five kinds of receiver (fresh, tags preset, used engine holding other rules, and two receivers whose tag set differs from the one the producer had at save time), compared on 398 queries (network under every tag subset, CSP, cosmetic, class/id).',
   'The two format defects found by this check (removeparam rules and scriptlet permissions were not serialised) are repaired in /repo (fix: 7c0000a, ade9355); their witnesses are replayed on every run.', 'DESIGN §4 C08'),
 'C09': ('BX', 'model_checking', T_BX + 'byte equality of repeated, cross-thread and cross-process serialisations; reload fixpoint',
   'Same lists as C08 plus the rule cube, plus ~600 wide lists (>= 4 entries per internal container, repeated rules, shared buckets); repeated pattern texts inside one fusion group, a repeated tagged rule; every tag set is also reached by enabling one tag at a time and by disabling from the full set; every list is built and serialised 6 (quick) / 12 (thorough) times, once in a fresh thread and (every 16th list / every wide list) in a child process; every buffer is reloaded and re-serialised.',
   'Inputs exhaustive to the bound; hash seeds of std HashMap are redrawn, not enumerable: exhaustive=false is reported for that dimension.', 'DESIGN §4 C09'),
 'C10': ('FX', 'fault_enumeration', 'exhaustive fault enumeration (every prefix, every single-bit flip, every structural-byte substitution, huge-length splices, header variants) of valid serialized buffers, each loaded in a child process under an allocation and time ceiling',
   '8 (quick) / 16 (thorough) valid buffers (among them one rule per modifier option, and initiator lists of two and three entries); every prefix, bit flip, structural substitution, huge length, version byte, string replacement (12 texts and nil), header variant; a successful load is followed by queries, tag switches and queries again; thorough adds substitution pairs and bit-flip pairs; cross-overs between two valid buffers at every pair of structural offsets; post-conditions: no panic or abort, bounded allocation, atomicity on error (battery + serialisation unchanged), usability on success (battery built from the buffer strings, also as hosts with a query string that names all of them, and from ten initiators that rules list or that lie below listed domains, + re-serialisation).',
   'Allocations <= 2 KiB are not counted towards the 64 MiB ceiling.', 'DESIGN §4 C10'),
 'C11': ('BX', 'model_checking', T_BX + 'totality (no panic) + differential (list vs list minus rejected lines; hosts line vs ||host^)',
   'Every string of <= 4 (quick) / 5 (thorough) symbols over a 22-symbol structural alphabet through all parser entry points, the single-edit neighbourhood of 145 real rule spellings, metadata cut-off alignments, line independence on all lists of <= 3/4 good+junk lines, hosts-format equivalence, hosts lines outside the documented format (more than an address and a single hostname) must be refused, blank-but-not-empty lines, rule-type options.',
   'css-validation feature is off, as in the baseline configuration.', 'DESIGN §4 C11'),
 'C12': ('BX', 'model_checking', T_BX + 'totality + comparison with the url crate, idna, and an independent eTLD+1 computation from the same PSL data; differential preparsed vs new',
   'All strings of <= 5 (quick) / 6 (thorough) symbols over an 18-symbol URL alphabet behind 6 prefixes (1.2e7 / 2.2e8) for totality and internal consistency; a structured universe of 32 256 (quick) / 950 400 (thorough) URLs x initiators x types for host, party, scheme, type and preparsed equality; URLs wrapped in every combination of C0-or-space characters (stripped) and of five look-alikes (not stripped); every pair of consecutive requests over 22 related URLs (no history dependence).',
   'Upper-case hosts, control characters in the authority and hosts the url crate canonicalises are Unspecified for host extraction and party.', 'DESIGN §4 C12'),
 'C13': ('BX', 'model_checking', T_BX + 'compared with the redirect selection rule written from the property text (set-valued on ties)',
   'All ordered lists of <= 3 rules (thorough: all lists of 4) of a 90-rule redirect alphabet (every resource kind, priority spelling, exceptions) x two resource stores x 7 requests (.com, .org and absent initiators); per-rule applicability both from the real matcher and from an independent predicate; every pure-positive / pure-negated list of request-type options next to redirect= and redirect-rule=; a resource store fed colliding names and aliases, binary content under listed and unlisted kinds and content that is not base64; priorities at both ends of i32; the same rules handed one by one to an empty blocker.',
   'Exception naming the same resource with a different priority suffix, and whether a redirect exception unblocks, are Unspecified.', 'DESIGN §4 C13'),
 'C14': ('BX', 'model_checking', T_BX + 'byte-for-byte comparison with an independent query-string surgery reference',
   'URL = fixed prefix + every string of length <= 6 (quick) / 8 (thorough) over {?,#,&,=,a,b,e-acute}, and <= 5 / 6 over a second alphabet with upper case and a multi-character key, x every set of <= 2/3 rules of a 12-rule pool (one line with two value-carrying modifiers: two admissible readings) x 5 request types x 2 initiators; 6 other spellings of the URL base; every list of request-type options of a 61-list menu before and after removeparam= x 16 request types.',
   'Per-rule applicability from the real matcher and, independently, from a predicate written from the rule text.', 'DESIGN §4 C14'),
 'C15': ('BX', 'model_checking', T_BX + 'compared with CSP set algebra written from the property text; all list orders enumerated',
   'All ordered lists of <= 3 (quick) / 5 (thorough) rules of a 38-rule csp alphabet (including lines that carry csp next to another value-carrying modifier: every admissible reading is enumerated), every tag subset, 8 URLs x all 19 request-type strings.',
   'Per-rule applicability from the real matcher and, independently, from a predicate written from the rule text.', 'DESIGN §4 C15'),
 'C16': ('BX', 'model_checking', T_BX + 'compared with an independent string-level scoping model (no hashes) using addr::psl directly',
   'All ordered lists of <= 2 (quick) / connected triples (thorough) of a 732-rule cosmetic alphabet (48 location forms x 10 bodies x ##/#@#) x 18 page hosts (two whose registrable domain begins with its own public suffix) x 5 generichide configurations, the ABP markers #?# / #@?#, generichide spellings against page URLs whose text normalisation changes; hide selectors, procedural actions, exceptions, generichide and the injected script (multiset of invocations) compared.',
   'Only-negated locations with an action or +js body, and a negated location of one rule against another rule providing the same body, are Unspecified for that body.', 'DESIGN §4 C16'),
 'C17': ('BX', 'model_checking', T_BX + 'compared with an independent CSS-identifier key reference; partition check',
   'All subsets of <= 3 (quick) / 4 (thorough) of a 79-selector alphabet (prefix/extension names, escapes, hex escapes incl. the backslash itself, escaped non-ASCII characters, escape + emoji, non-ASCII), each engine queried with every subset of <= 2 names as classes, as ids and of exceptions; lists in which a rule occurs more than once.',
   'Malformed escapes are outside the domain (executed, must not panic).', 'DESIGN §4 C17'),
 'C18': ('BX', 'model_checking', T_BX + 'subset test, graph reachability and an independent +js argument grammar with a strict JSON-literal reader; all injection orders enumerated',
   'All 256x256 permission pairs directly and through the full engine path (lists of several masks also through Engine::new + deserialize of the built engine); every dependency graph on 3 nodes (110 592 base graphs) x node permissions x injection lists in every order through the public get_scriptlet_resources (hash order enumerated, not drawn); every argument string of <= 3 (quick) / 4 (thorough) symbols over 13 symbols x 8 spellings x 3 positions; all pairs of 20 +js bodies for exceptions, over 8 exception locations (two of them double negations, which must change nothing); all pairs of spelled arguments (state of the splitter across arguments); a second, rejected offer of a stored resource name.',
   'Ambiguous +js spellings (unbalanced quotes, text after a closing quote, runs of backslashes before a separator) are Unspecified; the emitted literal must still be well-formed.', 'DESIGN §4 C18'),
 'C19': ('SX+BX', 'model_checking', 'stateless DFS over thread interleavings of the real Sync build with iterative preemption bounding (CHESS-style), blocking decided by the real Mutex::try_lock through a cfg-guarded seam; plus cross-configuration differential',
   'Fourteen base thread plans (every entry point that takes a shared reference: check, restricted check, csp, cosmetic, class/id, serialize_raw, get_regex_debug_info, tag_exists) and history plans (a single-thread preamble - every tagged regex rule used, tag switches, reloads, a mid-range discard policy with explicit clock steps on the virtual clock of the hooks - before 2x1 / 2x2 / 2x3 thread plans; four cold-cache plans under the default policy in which one request visits several unused regex rules while the other thread uses one of them) (2x2, 3x1, 3x2, 2x3, mixed queries, URL-rewriting rules, blocked+excepted+rewritten requests, pages with opposite generichide verdicts, pages with different CSP answers) of real OS threads on one shared engine, all schedules with <= 2 (quick) / <= 3-4 (thorough) preemptions; every answer compared with the sequential answer; deadlock, panic and poisoning detected; every violating schedule replayed twice. The single-thread build writes answer hashes for 3 722 rule lists x 1 881 requests and three special lists whose compiled regexes are between 1 and 10 MiB, the thread-safe build recomputes them.',
   'No preemption between scheduling points: exhaustive for the events of the seam, sound for the program as long as nothing shared is mutated outside the regex-manager lock. That assumption is only sampled: a free-running stress pass (8 real threads, every answer compared with the sequential one; two phases: default discard policy, and a policy whose cleanup is due at every acquisition) in both tiers and a Miri pass in the thorough tier; neither is exhaustive and the evidence says so. A thread blocked on a lock outside the seam is reported by a watchdog as a deadlock of that schedule. Statements a change adds beside the hooked acquisition branch are not executed under the explorer (only by the stress pass). Weak memory not modelled.', 'DESIGN §4 C19, §5'),
 'C20': ('BX', 'model_checking', T_BX + 'post-conditions on every emitted rule (ASCII, Safari regex-subset recogniser, ordering, filters_used) + inclusion against the real matcher',
   'Every pattern body of <= 6 (quick) / 7 (thorough) symbols x anchor modes x option frames as singleton sets, the single-edit neighbourhood of a 135-rule alphabet, and all ordered lists of <= 2/3 alphabet rules.',
   'Order of filters_used is compared as a multiset (network rules are always reported before cosmetic ones).', 'DESIGN §4 C20'),
}
NOT_APPLICABLE = {}

checks = []
for i in ids:
    if i in CHECKS:
        eng, cat, tech, text, note, ref = CHECKS[i]
        checks.append({
            'property_id': i,
            'quick_cmd': f'./run {i} quick',
            'thorough_cmd': f'./run {i} thorough',
            'evidence_file': f'/verif/evidence/{i}.json',
            'replay_cmd_template': './run replay {path}',
            'engine': eng,
            'level_claimed': {'category': cat, 'text': text, 'design_ref': ref},
            'level_note': note,
            'technique': tech,
        })
na = [{'property_id': i, 'reason': NOT_APPLICABLE.get(i, 'check not built yet in this revision of /verif (planned: DESIGN §4); no claim is made')} for i in ids if i not in CHECKS]

hooks_commits = subprocess.run(['git', '-C', '/repo', 'log', '--format=%H', '--grep=^verif hook'], capture_output=True, text=True).stdout.split()
manifest = {
 'version': 1,
 'setup_cmd': './setup.sh',
 'hooks': {
   'guard': 'cfg(brave_adblock_rust_verif)',
   'enable': 'RUSTFLAGS --cfg brave_adblock_rust_verif, set by /verif/harness/.cargo/config.toml for every harness build (the harness path-depends on /repo)',
   'baseline_off_cmd': './baseline.sh',
   'source_commits': hooks_commits,
   'add_only': True,
 },
 'engines': [
   {'name': 'BX', 'path': 'harness/src/core.rs', 'serves_properties': [i for i in ids if i in CHECKS and 'BX' in CHECKS[i][0]], 'kind_free_text': 'bounded-exhaustive differential explorer: mixed-radix enumeration of finite input universes on the real code, 16 worker threads, reference model or differential oracle per case'},
   {'name': 'HX', 'path': 'harness/src/bin/c06.rs', 'serves_properties': [i for i in ids if i in CHECKS and 'HX' in CHECKS[i][0]], 'kind_free_text': 'history explorer: DFS over all operation sequences up to a depth on fresh real engines, step-by-step comparison with a reference model; deterministic LIFO allocator'},
   {'name': 'SX', 'path': 'harness/src/bin/c19.rs', 'serves_properties': [i for i in ids if i in CHECKS and 'SX' in CHECKS[i][0]], 'kind_free_text': 'schedule explorer: stateless DFS over thread interleavings of the real Sync build with iterative preemption bounding, blocking decided by the real Mutex::try_lock'},
   {'name': 'FX', 'path': 'harness/src/bin/c10.rs', 'serves_properties': [i for i in ids if i in CHECKS and 'FX' in CHECKS[i][0]], 'kind_free_text': 'fault enumerator: every prefix / bit flip / structural substitution of valid serialized buffers, loaded in child processes under an allocation ceiling'},
 ],
 'checks': checks,
 'not_applicable': na,
 'notes': 'Every check: `./run <ID> <tier>` rebuilds the harness against /repo\'s working tree (cargo fingerprinting) with the hook cfg on, explores, rewrites evidence/<ID>.json, prints KNOWN-FINDING lines for entries of known_findings.txt and VIOLATION lines for anything else. Exit 2/3 = machinery failure, never a verdict.',
}
json.dump(manifest, open(os.path.join(ROOT, 'MANIFEST.json'), 'w'), indent=1)
try:
    import jsonschema
    jsonschema.validate(manifest, json.load(open('/root/.vp/MANIFEST.schema.json')))
    print('MANIFEST.json valid;', len(checks), 'checks,', len(na), 'not claimed')
except ImportError:
    print('jsonschema not importable; written without validation')
