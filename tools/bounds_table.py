#!/usr/bin/env python3
"""Prints the DESIGN §9.2 table from evidence/by-tier/<id>.<tier>.json (numbers are the checks' own)."""
import json, os
def fmt(n):
    n = int(n)
    return f"{n:.2e}".replace("e+0", "e").replace("e+", "e") if n >= 100000 else str(n)
def cell(p):
    if not os.path.exists(p): return "(not run)"
    e = json.load(open(p)); c = e["coverage"]
    ex = "exhaustive" if c["exhaustive"] else "capped: " + ",".join(c.get("non_exhaustive_dimensions") or ["time cap"])
    return (f"{fmt(c['states'])} states, {fmt(c['transitions'])} transitions, {fmt(c['traces_validated_against_impl'])} compared, "
            f"{fmt(c['distinct_nontrivial'])} non-trivial, {len(c['outcome_histogram'])} outcomes, {ex}, {e['wall_s']:.0f} s")
print("| id | quick | thorough |\n|---|---|---|")
for i in range(1, 21):
    pid = f"C{i:02d}"
    print(f"| {pid} | {cell(f'/verif/evidence/by-tier/{pid}.quick.json')} | {cell(f'/verif/evidence/by-tier/{pid}.thorough.json')} |")
