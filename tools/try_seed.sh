#!/usr/bin/env bash
# tools/try_seed.sh <seed dir with patch.diff [+ seed_demo.rs]> <check ids...>
# 1. confirms in a scratch worktree that the patch compiles, the baseline suite still passes and
#    the demonstration fails with / passes without the patch;
# 2. runs the named quick checks from a copy of the harness that path-depends on that patched
#    worktree (so /repo is never modified and other checks can run concurrently).
set -u
SEED="$(cd "$1" && pwd)"; shift
# SEED_SLOT=<name>: separate scratch worktree / harness copy / evidence root, so that several
# evaluations can run side by side
SLOT="${SEED_SLOT:+-$SEED_SLOT}"
W=/tmp/seed-confirm$SLOT
HC=/tmp/seed-harness$SLOT
if [ ! -d "$W" ]; then git -C /repo worktree add -q --detach "$W" HEAD || exit 2; fi
git -C "$W" checkout -q --detach "$(git -C /repo rev-parse HEAD)" && git -C "$W" reset -q --hard && git -C "$W" clean -qfd -e target
if [ -z "${SEED_SKIP_CONFIRM:-}" ]; then
echo "== confirm in $W"
if [ -f "$SEED/seed_demo.rs" ]; then
  cp "$SEED/seed_demo.rs" "$W/tests/seed_demo.rs"
  ( cd "$W" && CARGO_NET_OFFLINE=true cargo test --offline ${SEED_DEMO_FEATURES:-} --test seed_demo >/tmp/seed-demo-clean$SLOT.log 2>&1 ); echo "demo without patch: exit $? (expected 0)"
fi
git -C "$W" apply "$SEED/patch.diff" || { echo "patch does not apply"; exit 2; }
if [ -f "$SEED/seed_demo.rs" ]; then
  ( cd "$W" && CARGO_NET_OFFLINE=true cargo test --offline ${SEED_DEMO_FEATURES:-} --test seed_demo >/tmp/seed-demo-patched$SLOT.log 2>&1 ); echo "demo with patch: exit $? (expected non-zero)"
  rm -f "$W/tests/seed_demo.rs"
fi
VERIF_REPO="$W" /verif/baseline.sh; echo "baseline with patch: exit $? (expected 0)"
else
git -C "$W" apply "$SEED/patch.diff" || { echo "patch does not apply"; exit 2; }
fi
echo "== run checks against the patched worktree $W (harness copy in $HC; /repo is not touched)"
mkdir -p $HC
rsync -a --delete --exclude 'target-*' --exclude target /verif/harness/ $HC/
sed -i 's#path = "/repo"#path = "'"$W"'"#' $HC/Cargo.toml
grep -q "$W\"" $HC/Cargo.toml || { echo "harness copy does not point at $W"; exit 2; }
# evidence and replays of runs against a modified tree go to a scratch root, never into /verif
export VERIF_HARNESS=$HC
export VERIF_OUT_ROOT=/tmp/seed-vroot$SLOT; mkdir -p $VERIF_OUT_ROOT; cp /verif/known_findings.txt $VERIF_OUT_ROOT/
for id in "$@"; do
  out=$(cd /verif && ./run "$id" quick 2>&1); code=$?
  echo "-- $id exit=$code"; echo "$out" | grep -E "^(VIOLATION|KNOWN-FINDING|C[0-9]+ quick|machinery)" | cut -c1-260 | head -8
  echo "$out" | grep "violation sig" | cut -c1-400 | head -4
done
git -C "$W" reset -q --hard; echo "== $W reset; /repo untouched: $(git -C /repo status --short | wc -l) changed files"
