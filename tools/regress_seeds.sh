#!/usr/bin/env bash
# tools/regress_seeds.sh [pattern]: re-runs every kept seed (or those whose directory matches the
# pattern) against the checks named in its meta.json "caught_by" and prints one line per seed.
# The confirmation step (demonstration + baseline) is skipped: it was done when the seed was kept.
cd "$(dirname "$0")/.."
# SHARD=k/n: only every n-th seed, starting with the k-th (use with SEED_SLOT to run shards side by side)
k=${SHARD%%/*}; n=${SHARD##*/}; i=0
for d in seeded/${1:-*}/; do
  d=${d%/}
  i=$((i+1))
  if [ -n "${SHARD:-}" ] && [ $(( (i-1) % n )) -ne $(( k )) ]; then continue; fi
  checks=$(python3 -c "import json,sys;print(' '.join(json.load(open(sys.argv[1]))['caught_by']))" "$d/meta.json")
  out=$(SEED_SKIP_CONFIRM=1 tools/try_seed.sh "$d" $checks 2>&1)
  res=$(echo "$out" | grep -E "^-- C[0-9]+ exit=" | tr '\n' ' ')
  case "$res" in *"exit=1"*) verdict=caught;; *) verdict=MISSED;; esac
  echo "$verdict $(basename "$d"): $res"
done
