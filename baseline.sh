#!/usr/bin/env bash
# Runs the repository's pinned baseline suite with the verification guard OFF and compares the
# result with /root/.vp/BASELINE.json (all stable_pass tests must pass). Exit 0 iff they do.
set -u
ROOT="$(cd "$(dirname "$0")" && pwd)"
cd "${VERIF_REPO:-/repo}" || exit 2
unset RUSTFLAGS
export CARGO_NET_OFFLINE=true
rm -f "${VERIF_REPO:-/repo}/target/nextest/pb/junit.xml"   # never read a stale report
cargo nextest run --workspace --no-fail-fast --tool-config-file "pb:$ROOT/nextest.toml" --profile pb --test-threads 8 --offline >/tmp/verif-baseline.log 2>&1
python3 - "$@" <<'PY'
import json, sys, xml.etree.ElementTree as ET
base = json.load(open('/root/.vp/BASELINE.json'))
want = set(base['stable_pass'])
try:
    import os
    root = ET.parse(os.environ.get('VERIF_REPO', '/repo') + '/target/nextest/pb/junit.xml').getroot()
except Exception as e:
    print('baseline: cannot read junit.xml:', e); sys.exit(2)
passed, failed = set(), set()
for ts in root.iter('testsuite'):
    for tc in ts.iter('testcase'):
        name = ts.get('name') + '::' + tc.get('name')
        bad = any(ch.tag in ('failure', 'error') for ch in tc)
        (failed if bad else passed).add(name)
missing = sorted(want - passed)
print(f'baseline: passed={len(passed)} failed={len(failed)} stable_pass_expected={len(want)} missing={len(missing)}')
for m in missing[:20]:
    print('  NOT PASSING:', m)
unexpected = sorted(failed - set(base.get('always_fail', [])))
for m in unexpected[:20]:
    print('  FAILED:', m)
sys.exit(1 if missing else 0)
PY
